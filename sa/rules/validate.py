"""SA-VALIDATE: caller-supplied internals are validated by release-live checks.

Beliefs (debug_assert!/invariant! conditions, read from the `dbg` configuration where they are evaluated) are the
specification; every belief over caller-supplied data or over the object being returned must have a release-live
twin (an assert!/early return on the same predicate over the same operands) somewhere on the call chain of the
exported safe entry point.  Interprocedural: predicates are rewritten into the entry point's frame by substituting
arguments for parameters and the call expression for the callee's returned object."""
import re
from ..sym import Sym, strip, show, canon, walk, is_identity_fn
from ..mir import callee_of, is_panic_call

R = "SA-VALIDATE"


def subst(e, pmap, retobj=None, ret_local=None):
    """rewrite expression: ('param', i, n) -> pmap[i]; the callee's returned local -> retobj;
    const generics named in pmap['G'] -> the caller's generic argument"""
    if not isinstance(e, tuple) or not e or not isinstance(e[0], str):
        return e
    if e[0] == "param" and e[1] in pmap:
        return pmap[e[1]]
    if e[0] == "const" and e[1] is None and e[2] in pmap.get("G", {}):
        return ("const", None, pmap["G"][e[2]], e[3])
    if e[0] == "call" and len(e) > 4 and e[4] and pmap.get("G"):
        e = e[:4] + (tuple(pmap["G"].get(g, g) for g in e[4]),)
    if e[0] == "local" and ret_local is not None and e[1] == ret_local and retobj is not None:
        return retobj
    out = []
    for x in e:
        if isinstance(x, tuple) and x and isinstance(x[0], str):
            out.append(subst(x, pmap, retobj, ret_local))
        elif isinstance(x, tuple):
            out.append(tuple(subst(y, pmap, retobj, ret_local) if isinstance(y, tuple) else y for y in x))
        else:
            out.append(x)
    return tuple(out)


def closure_canon(prog, e):
    """canonical text where closures are replaced by the canon of their body (so two `|&x| x < 64` are equal)"""
    def rec(x):
        if not isinstance(x, tuple) or not x or not isinstance(x[0], str):
            return x
        if x[0] == "agg" and x[1].startswith("Closure:"):
            g = prog.get(x[1][len("Closure:"):])
            if g is not None:
                body = canon(Sym(g).local(0))
                return ("const", None, "closure{%s}" % body, "")
        if x[0] == "call":
            return ("call", x[1], tuple(rec(a) for a in x[2]), None) + tuple(x[4:5])
        return tuple(rec(y) if isinstance(y, tuple) and y and isinstance(y[0], str) else
                     (tuple(rec(z) for z in y) if isinstance(y, tuple) else y) for y in x)
    return canon(rec(e))


def expand_cells(sy, e, depth=0):
    """a mutably borrowed temporary with one initialising definition (`&mut slice.iter()` handed to `all`/`any`) stands
    for that definition: `all(&mut it, p)` is a statement about the slice `it` was made from"""
    if not isinstance(e, tuple) or not e or not isinstance(e[0], str) or depth > 6:
        return e
    if e[0] == "local" and e[1] in sy.cells and len(sy.f.defs.get(e[1], [])) == 1:
        o = strip(sy.origin(e))
        if o != e and o[0] == "call" and o[1].split("::")[-1] in ("iter", "into_iter", "iter_mut", "copied", "cloned", "enumerate", "rev", "take", "skip", "zip"):
            return expand_cells(sy, o, depth + 1)
        return e
    out = []
    for y in e:
        if isinstance(y, tuple) and y and isinstance(y[0], str):
            out.append(expand_cells(sy, y, depth + 1))
        elif isinstance(y, tuple):
            out.append(tuple(expand_cells(sy, z, depth + 1) if isinstance(z, tuple) else z for z in y))
        else:
            out.append(y)
    return tuple(out)


def guards_of(f, sy):
    """[(kind, pass_predicate_expr, truth, span)] for each conditional whose failing arm panics.
    kind: 'live' (assert! or hand-written check) / 'belief' (debug_assert!, invariant!)"""
    out = []
    for i in sorted(f.live):
        t = f.blocks[i]["term"]
        if t["t"] != "switch":
            continue
        succ = f.lsuccs(i)
        pan = [b for b in succ if is_panic_call(f.blocks[b]["term"])]
        if len(pan) != 1 or len(set(succ)) != 2:
            continue
        pb = pan[0]
        macros = f.blocks[pb]["term"]["sp"]["macros"]
        kind = "belief" if ("debug_assert" in macros or "invariant" in macros) else "live"
        e = expand_cells(sy, sy.operand(t["on"]))
        # truth value on the passing arm
        passing = [b for b in succ if b != pb][0]
        vals = [int(a[0]) for a in t["arms"] if a[1] == passing]
        truth = (vals == [1]) or (not vals and [int(a[0]) for a in t["arms"]] == [0])
        out.append((kind, e, truth, f.blocks[pb]["term"]["sp"]))
    return out


def returned_local(f):
    for i, j, s in f.stmts():
        if s["s"] == "assign" and s["lhs"]["l"] == 0 and not s["lhs"]["p"] and s["rv"]["r"] == "use" and s["rv"]["a"]["k"] in ("copy", "move") and not s["rv"]["a"]["pl"]["p"]:
            return s["rv"]["a"]["pl"]["l"]
    return None


def collect(prog, f, pmap=None, retobj=None, depth=0, seen=None, maxdepth=4):
    """guards of f and (recursively) of its crate-local callees, rewritten into the root frame"""
    seen = seen or set()
    sy = Sym(f)
    out = []
    rl = returned_local(f)
    if pmap is None:
        pmap = {}
        ident = True
    else:
        ident = False
    for kind, e, truth, sp in guards_of(f, sy):
        e2 = e if ident else subst(e, pmap, retobj, rl)
        out.append((kind, e2, truth, sp, f))
    if depth >= maxdepth:
        return out
    for i, t in f.calls():
        c = callee_of(t)
        g = prog.get(c)
        if g is None or g.path in seen or is_identity_fn(prog, c):
            continue
        # do not descend into validators / predicates (functions returning bool) or iterator plumbing
        sig = prog.sigs.get(g.path)
        if sig and sig["output"] == "bool":
            continue
        args = [sy.operand(a) for a in t["args"]]
        if not ident:
            args = [subst(a, pmap, retobj, rl) for a in args]
        callexpr = sy.call(t, i)
        if not ident:
            callexpr = subst(callexpr, pmap, retobj, rl)
        gm = {k + 1: a for k, a in enumerate(args)}
        gsig = prog.sigs.get(g.path)
        if gsig and gsig.get("generics") and t.get("gargs") and len(gsig["generics"]) == len(t["gargs"]):
            gmap = dict(zip(gsig["generics"], t["gargs"]))
            if not ident and pmap.get("G"):
                gmap = {k: pmap["G"].get(v, v) for k, v in gmap.items()}
            gm["G"] = gmap
        out += collect(prog, g, gm, callexpr, depth + 1, seen | {f.path}, maxdepth)
    return out


def roots_ok(e):
    """belief is an obligation only when every leaf is a parameter of the entry point, a constant, or the
    object under construction (a crate call result); algorithmic beliefs over callee locals are skipped"""
    leaf = False
    for x in walk(e):
        if x[0] == "local":
            return False
        if x[0] == "unknown":
            return False
        if x[0] in ("param", "call"):
            leaf = True
    return leaf


IMPLIED = [
    # (belief regex, live regex, reason)
    (r"^internals::hash::block::block_size::is_log_valid\(internals::hash::block::block_size::log_from_valid_internal\((?P<x>.*)\)\)$",
     r"^internals::hash::block::block_size::is_valid\((?P<x>.*)\)$",
     "is_valid(bs) implies is_log_valid(log_from_valid_internal(bs)): the de Bruijn table maps the 31 valid sizes to 0..30 (SA-DATA)"),
]


def check_entry(ctx, prog, f):
    ctx.visit(f, weak=True)
    # constructors: the whole chain builds the object; checked forms of an operation: the contract is that of the `_internal`
    # body they wrap (beliefs further down are conditional on that body's own tests)
    shallow = "BlockHashPositionArrayImpl" in f.path
    gs = collect(prog, f, maxdepth=1 if shallow else 4)
    live = {}
    for kind, e, truth, sp, g in gs:
        if kind == "live":
            live[(closure_canon(prog, e), truth)] = (sp, g)
    n = 0
    for kind, e, truth, sp, g in gs:
        if kind != "belief" or not roots_ok(e):
            continue
        c = closure_canon(prog, e)
        n += 1
        key = "%s: belief %s%s (in %s) has a release-live twin" % (f.short, "" if truth else "!", show(e)[:160], g.short.split("::")[-1])
        if (c, truth) in live:
            lsp, lg = live[(c, truth)]
            ctx.ob(R, key, True, "live check in %s" % lg.short.split("::")[-1], g.loc(sp))
            continue
        ok = False
        for br, lr, reason in IMPLIED:
            m = re.match(br, c)
            if m:
                for (lc, lt) in live:
                    m2 = re.match(lr, lc)
                    if m2 and lt and m2.group("x") == m.group("x"):
                        ok = True
                        ctx.ob(R, key, True, "implied: " + reason, g.loc(sp))
                        break
            if ok:
                break
        if not ok:
            ctx.ob(R, key, False, "debug-only belief over caller-supplied data: in a release build nothing enforces it on this entry point (live checks: %s)" % "; ".join(sorted(k[0][:70] for k in live))[:600], g.loc(sp))
    return n


def entries(prog):
    out = []
    for f in prog.fns:
        if f.unsafe or "closure" in f.path:
            continue
        # the checked forms of the position-array operations: their asserts are the contract of the `_internal` bodies (the `Mut` trait
        # is crate-private but is what the public `BlockHashPositionArray::init_from` forwards to)
        if re.search(r"^<T as internals::compare::position_array::BlockHashPositionArrayImpl(Mut)?>::\w+$", f.path):
            out.append(f)
            continue
        if not f.exported:
            continue
        if re.search(r"(FuzzyHashData|FuzzyHashDualData)::<[^>]*>::(new_from_internals|init_from_internals)[a-z_]*$", f.path):
            out.append(f)
    return out


def constructors(ctx, prog):
    ctx.rule(R, "taint rule with beliefs as specification: each debug-only condition (debug_assert!/invariant!) over caller-supplied parameters or the object under construction, anywhere on the call chain of an exported safe constructor, has a release-live guard with the same predicate on the same operands (after parameter substitution), or is implied by one via the reviewed implication table")
    es = entries(prog)
    nb = 0
    for f in es:
        nb += check_entry(ctx, prog, f)
    ctx.floor(R, len(es), 6, "exported safe constructors taking raw internals")
    ctx.floor(R, nb, 20, "parameter-rooted beliefs on their call chains")


def panic_purity(ctx, prog, floor=2):
    """a checked initialiser (a safe function with a `&mut self` receiver that panics by contract on bad arguments) validates
    BEFORE it stores: no store through the receiver on any path to one of its own panic sites.  Otherwise a caller that
    catches the panic is left holding a half-written / rejected object."""
    from . import errpure
    from ..mir import is_panic_call
    R = "SA-ERRPURE"
    n = 0
    for f in prog.fns:
        if f.argc < 1 or f.derived or f.unsafe or not f.locals[1]["ty"].startswith("&mut"):
            continue
        if f.locals[1]["ty"].startswith("&mut ["):
            continue
        # (beliefs - debug_assert!/invariant! - are not part of the contract; they are pruned in release builds)
        pb = [i for i in f.live if is_panic_call(f.blocks[i]["term"]) and
              not any(m in ("debug_assert", "invariant", "debug_assert_eq", "debug_assert_ne") for m in f.blocks[i]["term"]["sp"].get("macros", []))]
        if not pb:
            continue
        n += 1
        errpure.check(ctx, R, "%s: the receiver is untouched when the function panics on its arguments (validate before store)" % f.short, f, {1}, pb,
                      what="the receiver")
    ctx.floor(R, n, floor, "safe `&mut self` functions with their own panic sites")


def element_range_asserts(ctx, prog, floor=5):
    """the checked forms of the position-array operations refuse a symbol outside the alphabet: every release-live `assert!` over the
    elements of a slice parameter is `all(|x| x < ALPHABET_SIZE)` - `<`, against 64 (a `<=` lets 64 through to an unchecked table index)"""
    n = 0
    nlen = [0]
    for f in entries(prog):
        if "BlockHashPositionArrayImpl" not in f.path:
            continue
        sy = Sym(f)
        for kind, e, truth, sp in guards_of(f, sy):
            if kind != "live" or not truth:
                continue
            e = strip(e)
            if e[0] == "bin" and e[1] in ("Lt", "Le", "Gt", "Ge") and "::len(" in re.sub(r"::<[^()]*>\(", "(", canon(e)):
                # the length contract of the checked forms: a slice of at most 64 symbols (`<` would refuse a full block hash)
                from .features import _cmp_of
                op, a_, b_ = _cmp_of(e)
                okl = op == "Le" and strip(b_)[0] == "const" and strip(b_)[1] == 64 and "::len(" in re.sub(r"::<[^()]*>\(", "(", canon(strip(a_)))
                ctx.ob(R, "%s: the length assert is `len <= 64`" % f.short, okl, "assert: %s" % show(e)[:80], f.loc(sp))
                nlen[0] += 1
                continue
            if not (e[0] == "call" and e[1].split("::")[-1] == "all" and len(e[2]) == 2):
                continue
            n += 1
            c = closure_canon(prog, e)
            m = re.search(r"closure\{(.*)\}\)$", c)
            body = m.group(1) if m else c
            ok = re.match(r"^Lt\(\(?param:\w+( as usize\))?,(?:[\w:]*=)?64\)$", body) is not None
            ctx.ob(R, "%s: the element assert is `all(|x| x < 64)`" % f.short, ok, "closure body: %s" % body[:100], f.loc(sp))
    ctx.floor(R, n, floor, "element range asserts in the checked position-array forms")
    ctx.floor(R, nlen[0], 5, "length asserts in the checked position-array forms")
