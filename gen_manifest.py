#!/usr/bin/env python3
"""Regenerate MANIFEST.json from the per-property table below (run after adding a check)."""
import json, os
HERE = os.path.dirname(os.path.abspath(__file__))
NOTE = ("Trusted base: rustc nightly's MIR construction, callee resolution and const evaluation; the /verif/driver serialiser; "
        "the Python rule engine in /verif/sa; reviewed exception tables inside the rules. The check decides the structural clauses "
        "named in level_claimed.text, not the full input/output behaviour of the property. Every check also runs, on the functions in its "
        "scope, SA-SUMMARY / SA-PATHSUM (thin bodies keep their reviewed normal form / (conditions -> result) table) and, in the "
        "configurations with debug assertions on, SA-BELIEF (every debug_assert!/invariant! site is in the reviewed population or "
        "discharged by a run-time check, a dominating live branch, an assert! or a callee's belief).")
CLAIMS = {
 "C01": ("translation-validation style step rules on MIR: forward value numbering of the loop-free rolling-hash step, exhaustive check of the rustc-evaluated FNV table, per-level store table with exact guards and dominance orderings, digest-assembly rows, sibling/engine correspondence",
         "Decides that each STEP of the generator (rolling hash update, 6-bit FNV step, trigger test, per-level piece/fork/elimination effects, initial state, block-size choice borders, digest assembly incl. the unfinished piece) is the step ssdeep 2.14.1 defines, in all update forms and both engines. That the iterated relation equals libfuzzy's where the two differ by design (roll_mask shortcut, fork limit, last-piece hash) is NOT decided - no byte-exactness claim over inputs.", "§13 C01"),
 "C12": ("field-agreement (reset==new) + exact branch-guard extraction + error-path purity + delegation, on rustc MIR",
         "Structural necessary conditions on every CFG path and build configuration: reset re-initialises every generator field like new() (3 reasoned exceptions with side conditions); the two refusals and the finalisation mismatch have exactly the stated guards; refusals do not modify the generator; all finalisers share one implementation. Not a proof that a correct hint leaves the hash unchanged. Also: reset stores lie on every path and are resolved through receiver aliases; the front ends declare the right size (buffer length / metadata of the opened file); fork-limit use in the step table.", "§3.3-3.5, §4 C12"),
 "C13": ("exact branch-guard extraction normalised to intervals, with rustc-evaluated constants, on MIR",
         "Decides the borders only: 192 GiB accepted / +1 rejected (hint and finalisation), warning border 4097, the size<=192 shortcut and the shape of the initial block-size formula. Block-size choice and last-piece hash as values are not decided. Also: last-piece hash rows of the step table and digest, initial/reset state, engine correspondence under `unsafe`.", "§3.3, §4 C13"),
 "C18": ("error-flow discipline and def-use data-flow rules over the resolved MIR of the reader front ends",
         "Every fallible call in hash_stream_common/hash_stream/hash_file is consumed by `?`/return/unwrap with the Break arm returning that residual and no finaliser or Ok reachable after it; fed bytes are exactly buffer[0..len] of this iteration's read; the loop exits only on len==0; hash_file declares the metadata length of the same file before reading; finalisation's mismatch guard is exact. Decided for every path; assumes Read::read's contract. Also: the only Ok of the read loop is finalize(generator); From<io::Error> wraps the given error itself.", "§3.12, §4 C18"),
 "C19": ("exhaustive table check on rustc-evaluated constants + shape of the reading function + fold/forward delegation on MIR",
         "FNV half decided: all 4096 table entries equal the 6-bit FNV-1 step, initial value, the step function reads exactly that table with ch%64 (or the arithmetic variant), only that function writes the state; slice/iterator/+= forms of both primitives are folds of the single-byte form over the whole input. The rolling hash's window-only dependence is NOT decided. Also: trait-override census and SA-SUMMARY on the primitives' forms.", "§3.1, §3.13, §4 C19"),
 "C20": ("exhaustive table checks on rustc-evaluated constants; predicates as difference constraints; exact guards; formula-tree match on MIR",
         "Tables (31 size strings, de Bruijn pair) exhaustively; is_log_valid/is_valid shapes; the four relation predicates and compare_sizes as difference constraints equal the definition; capping border dispatch; cap and raw-score formula trees equal the documented formulas and are reached only in their asserted domain. Value-range facts (1..=100) are not decided. Also: `_unchecked` twins of the helpers are their `_internal` bodies; SA-SUMMARY on the thin predicates.", "§3.1, §3.3, §3.8, §4 C20"),
 "C04": ("panic-edge audit over the resolved call graph (MIR Assert/Index/unwrap edges with automatic and reviewed discharges, who-may-call and bounded-input side conditions) + error-path purity + dominance rule on error origins",
         "Totality of parsing is decided as: every panic edge reachable from the six generic parse entry points in release-like configurations is discharged or reviewed with a structural side condition (the RLE encoder is callable only from the bounded compressor); the caller's index is written only on the way to Ok; error origins follow the parser phase; stored symbols come from the exact reverse table under the not-INVALID guard into fresh objects; the grammar is decided as outcome tables (block-size field outcomes, block-hash stop-state classification with consumed counts, driver (field, state) -> outcome/position/index) read off exact branch conditions. The composition of the tables into `language == grammar` over all strings is by reading, not mechanised.", "§3.10, §3.4, §4 C04"),
 "C06": ("tail-clear rule (linear normal form of fill start vs stored length), resolved-call-graph funnel rule, sibling agreement of run-limit comparisons, on MIR",
         "Decides: freed tail cleared by the in-place normaliser and the dual compressor; every normalising route reaches the one in-place routine unconditionally for both block hashes with the source's NORM flag; the three run-collapsers and the checker test `counter >= MAX_SEQUENCE_SIZE(3)` right after the increment; is_normalized inspects both block hashes with like indices. That the surviving characters are right / idempotence as values are NOT decided. Also: capacity test after the collapse decision, run-detector sentinel outside the alphabet, counter cannot wrap, dual initialiser completeness, unchecked constructor twins.", "§3.6, §3.13, §4 C06"),
 "C07": ("write census over RLE storage, tail-clear rule, who-may-call rule on the encoder, Eq/Hash/Ord field agreement, on MIR",
         "Decides the canonical-storage clauses: RLE tail terminator-filled from the encoder's final offset and normalised tail zero-filled on every construction route; all RLE writes are TERMINATOR-fill, like-field copies, or through the single encoder; encoder callable only via the bounded compressor; Eq/Hash/Ord use all three components like with like (norm_hash first). expand(compress(x))==x is NOT decided. Also: RLE decoder step table (copy, fill with in[pos] of this entry, three counters, nothing else carried), copy helper shape, validator refusal table (six outcomes, exact condition sets), encoder formulas, run-detector agreement, unchecked constructor twins.", "§3.5, §3.6, §4 C07"),
 "C11": ("visibility facts + belief/live-guard taint rule (SA-VALIDATE) + write census (dest-complete, tail, like-index) + typestate + panic-edge audit, on MIR of several configurations",
         "Widest check; decides structural necessary conditions: private representation and enumerable writers; every debug-only belief over caller-supplied internals has a release-live twin on every exported safe constructor; every writer defines the whole destination and its tail; masks cleared before accumulation; is_valid/full_eq/Debug have no undischarged panic edge for any content; parsing total. Value-correctness of what is written is NOT decided. Also: panic purity of checked initialisers, RLE validator refusal table, lossy-cast census, iterator-borrowing beliefs in SA-VALIDATE, checked forms of position-array operations as contract entries, trait-override census, SA-SUMMARY.", "§3.2, §3.5-3.10, §4 C11"),
 "C15": ("write census: like-indexed field copies, destination completeness, tail rules; exact narrowing guard; error-path purity; single-call delegation of trait forms",
         "Decides per-conversion field facts on every path: each field copied from the like-named source field, all fields and array tails defined, narrowing fails exactly for len2 > 32 without touching the destination, trait forms are the named conversions, raw->normalised passes through the one normaliser and normalised->raw through none. Commutation of chains as a value statement is NOT decided. Also: RLE decoder step/copy rules, run-detector agreement, trait-override census on conversions.", "§3.4-3.6, §4 C15"),
 "C16": ("field-set agreement of PartialEq / Hash / Ord bodies on MIR (like-with-like pairing, positional tuple agreement)",
         "Decides for both type families: eq compares like-named fields of both operands and all of them; hash feeds exactly those; cmp compares the same fields in the same positions in the documented order (dual: normalised part first); PartialOrd = Some(cmp); dependence on the zero tail discharged by SA-TAIL. The order as a value statement over all pairs is NOT decided. Also: eq is the CONJUNCTION of its comparisons (every non-false result requires all others equal, no constant true); trait-override census (no `ne`/`lt`/... overrides); tail rules for canonical storage.", "§3.5, §4 C16"),
 "C17": ("typestate analysis (Zero/Unknown) over the occupancy-mask locations with effects inferred from bodies, at every call site, on MIR",
         "Decides the history clause: at every call site of an accumulate-first initialiser the masks are Zero on every incoming path (dominating clear on the same location, or fresh all-zero object), requirement-passing functions are not exported, views pair mask K with length K; lengths/block size copied from like-named fields. That the bits equal the string is NOT decided. Also: mask accumulation and equivalence as code shape (mask[sym] |= 1<<pos over the whole input; is_equiv only under exact length equality as `all` over (pos, sym)); valid-and-normalized delegation; comparison twins; contracts of checked forms.", "§3.7, §4 C17"),
 "C02": ("dimension (effective-block-size) analysis of every block-hash pairing + dispatcher agreement + exact guards + formula-tree match, on MIR (debug-assertion configurations for the relation beliefs)",
         "Decides which strings are compared, at which effective block size, combined how, on every entry point: pairs per relation {(1,1),(2,2)}max / {(2,1)} / {(1,2)}, block size argument = effective size, far->0, identical->100 first, no common substring->0 first, capping exactly below the border as min(raw,cap), raw/cap formula trees, string front end. The score VALUE (edit distance, substring test) is NOT decided. Also: comparison `_unchecked` twins are their `_internal` bodies; the edit-distance frame (single result, all-ones start, every symbol) and the substring scan's exits (true only at a live window end, false only when no window is left); position-array masks/equivalence shapes; SA-SUMMARY for branch-free bodies.", "§3.8, §3.3, §4 C02"),
 "C05": ("exact refusal guard + error-path purity + single-formatter delegation + ASCII-source census of buffer stores + length formula tree + exhaustive table checks",
         "Decides the formatter contract structurally: refusal iff buffer.len() < len_in_str() without writing; Ok(len_in_str()); to_string/Display/String::from all use the one formatter and slice/allocate by its own length; only ASCII table bytes and b':' are stored (from_utf8 cannot fail / unchecked variant sound); len formula and MAX_LEN_IN_STR; alphabet tables exact inverses. parse(format(x))==x is NOT decided. Also: parser tables (block-size field, terminator classification, driver outcomes), scoped invariant pairing and assertion purity for formatter/parser helpers.", "§3.1, §3.3, §3.4, §3.11, §3.13, §4 C05"),
 "C10": ("dimension analysis of candidate-test pairings vs scorer pairings + dispatcher rules + window accessor typing + constant checks",
         "Decides: far->0/false; candidate test and scorer use the same pairs per relation at equal effective block sizes; score 0 exactly on the no-common-substring arm; equality->100; index windows carry log / log+1; window constants; short inputs return false without scanning. Raw score >= 1, injectivity and symmetry as values are NOT decided. Also: window iterator steps as formulas ((w<<6|sym)&MASK42; index = w | log<<42), trait-override census on the iterators, substring-scan exits, comparison twins.", "§3.8, §3.1, §4 C10"),
 "C03": ("canonical-MIR sibling comparison of the three update forms + liveness across the loop back edge + size-accounting, purity and delegation rules",
         "Decides the structural half: identical per-byte regions in all three forms (release, debug, unsafe), every yielded byte enters the step once, no per-call state outside *self (iterator and mirrored pointer caches only), accounting once/per-item/once, finalisers pure (&self, no interior mutability, no writes in their closure), Clone derived, += forms forward, hash_buf and the reader loop feed exactly the delivered bytes. That up-front vs per-byte accounting cannot change an elimination decision is NOT decided. Also: engine correspondence for the pointer engine, hash_buf's only Ok is finalize of the fed generator, declared-size effects.", "§3.13, §4 C03"),
 "C14": ("effect-level configuration diff of all MIR bodies over 12 build configurations + reviewed divergence table + engine correspondence (index vs pointer loop) + invariant!/run-time-check pairing + debug-only belief census + twin delegation",
         "Decides: debug assertions on/off change no body; each feature changes only reviewed bodies, each covered by its own rule (engine correspondence and mirror rules, FNV table == arithmetic step on all 64x64, strict parser take(N)/look-ahead, ASCII-only output for the UTF-8 shortcuts); 24 *_unchecked twins compute the same internal call as their safe forms; all 80 invariant! assumptions are subsumed by a run-time check of the safe build or a reviewed structural argument. Extensional equality on inputs is NOT decided. Also: assertion purity (no effect hidden in a debug-only assertion region), checked-vs-unchecked contracts (asserts of a checked form = beliefs of the wrapped body), parser tables in the strict configuration.", "§3.11, §4 C14"),
}
NA = {
 "C08": "exactness of the bit-parallel LCS recurrence is an arithmetic loop invariant over 64-bit words (carry propagation); deciding it needs execution or a solver, which is a different technique family",
 "C09": "exactness of the shift-and scan with skipping is an algorithmic invariant over bit masks; only its length guards are structural and those are checked under C10",
}
PENDING = "check under construction in this session (static rule designed in DESIGN.md, not yet armed)"
ALL = ["C%02d" % i for i in range(1, 21)]

def main():
    checks = []
    for pid in ALL:
        if pid in CLAIMS:
            tech, text, ref = CLAIMS[pid]
            checks.append({
                "property_id": pid,
                "quick_cmd": "./check %s --tier quick" % pid,
                "thorough_cmd": "./check %s --tier thorough" % pid,
                "evidence_file": "/verif/evidence/%s.json" % pid,
                "replay_cmd_template": "./check %s --replay {path}" % pid,
                "engine": "ffz-sa",
                "level_claimed": {"category": "other", "text": text, "design_ref": ref},
                "level_note": NOTE,
                "technique": "static analysis: " + tech,
            })
    na = [{"property_id": p, "reason": NA.get(p, PENDING)} for p in ALL if p not in CLAIMS]
    m = {
        "version": 1,
        "setup_cmd": "./setup.sh",
        "hooks": {"guard": "a4lg_ffuzzy_verif", "enable": "none needed: the analysis reads the unmodified source (no hook commits)",
                  "baseline_off_cmd": "cd /repo && cargo test --workspace --no-fail-fast --offline",
                  "source_commits": [], "add_only": True},
        "engines": [{"name": "ffz-sa", "path": "/verif/check", "serves_properties": sorted(CLAIMS),
                     "kind_free_text": "rustc_private driver (RUSTC_WORKSPACE_WRAPPER under cargo +nightly check) dumps MIR/ADT/const facts of /repo's current tree per build configuration; Python rule engine decides repository-specific rules over them"}],
        "checks": checks,
        "not_applicable": na,
        "notes": "All checks are static: they never execute repository code. See DESIGN.md.",
    }
    json.dump(m, open(os.path.join(HERE, "MANIFEST.json"), "w"), indent=1)
    print("MANIFEST.json: %d checks, %d not applicable" % (len(checks), len(na)))
main()
