"""SA-DATA: constant tables (values evaluated by rustc) against their definitions,
plus the shape clause that ties each table to the function that reads it."""
import struct

from ..mir import bytes_of, AnchorError, callee_of
from ..sym import Sym, strip, show, is_param, const_named, const_value, canon

RFC4648 = b"ABCDEFGHIJKLMNOPQRSTUVWXYZabcdefghijklmnopqrstuvwxyz0123456789+/"
R = "SA-DATA"


def doc(ctx):
    ctx.rule(R, "the bytes of a named constant, as evaluated by rustc for this build, equal the definition written in the checker, entry by entry (exhaustive over the table); the reading function's body indexes exactly that table with the stated index expression")


def scalar(prog, name):
    c = prog.const(name)
    if "v" not in c:
        raise AnchorError("constant %s has no scalar value" % name)
    return int(c["v"])


def base64_tables(ctx, prog):
    doc(ctx)
    a = bytes_of(prog.const("base64::BASE64_TABLE_U8"))
    rv = bytes_of(prog.const("base64::BASE64_REV_TABLE_U8"))
    inv = scalar(prog, "base64::BASE64_INVALID")
    ctx.ob(R, "BASE64_TABLE_U8 is the RFC 4648 table 1 alphabet (64 distinct ASCII bytes)", a == RFC4648 and len(set(a)) == 64 and max(a) < 0x80,
           "table = %r" % a)
    ctx.ob(R, "BASE64_INVALID == 64 (one past the largest symbol)", inv == 64, "value %d" % inv)
    bad = []
    if rv is None or len(rv) != 256:
        bad.append("length %s" % (len(rv) if rv else None))
    else:
        for b in range(256):
            want = a.index(bytes([b])) if bytes([b]) in a else inv
            if rv[b] != want:
                bad.append("rev[%d]=%d want %d" % (b, rv[b], want))
    ctx.ob(R, "BASE64_REV_TABLE_U8 is the exact inverse of the alphabet on all 256 bytes (others -> BASE64_INVALID)", not bad, "; ".join(bad[:5]) or "256 entries checked")
    # shape: base64_index(ch) = REV[ch as usize]
    f = prog.fn("base64::base64_index")
    ctx.visit(f)
    e = Sym(f).local(0)
    ok = e[0] == "index" and const_named(e[1], "base64::BASE64_REV_TABLE_U8") and is_param(e[2], "ch")
    ctx.ob(R, "base64_index(ch) returns BASE64_REV_TABLE_U8[ch]", ok, show(e), f.loc())


def decode_str_table(c):
    b = bytes_of(c)
    out = []
    rel = {r["at"]: bytes.fromhex(r["bytes"]) for r in c.get("relocs", [])}
    n = len(b) // 16
    for i in range(n):
        off, ln = struct.unpack_from("<QQ", b, i * 16)
        tgt = rel.get(i * 16)
        if tgt is None:
            raise AnchorError("string table entry %d has no relocation" % i)
        out.append(tgt[off:off + ln])
    return out


def block_size_tables(ctx, prog):
    doc(ctx)
    mn = scalar(prog, "block_size::MIN")
    nv = scalar(prog, "block_size::NUM_VALID")
    ctx.ob(R, "block_size::MIN == 3 and NUM_VALID == 31 (3*2^30 < 2^32 <= 3*2^31)", mn == 3 and nv == 31 and (mn << (nv - 1)) < 2 ** 32 <= (mn << nv), "MIN=%d NUM_VALID=%d" % (mn, nv))
    strs = decode_str_table(prog.const("block_size::BLOCK_SIZES_STR"))
    bad = [i for i in range(max(nv, len(strs))) if i >= len(strs) or strs[i] != str(mn << i).encode()]
    ctx.ob(R, "BLOCK_SIZES_STR[i] == decimal(MIN << i) for all 31 valid sizes", len(strs) == nv and not bad, "mismatch at %s" % bad[:4] if bad else "%d strings checked, e.g. %r" % (len(strs), strs[-1]))
    ml = scalar(prog, "block_size::MAX_BLOCK_SIZE_LEN_IN_CHARS")
    ctx.ob(R, "MAX_BLOCK_SIZE_LEN_IN_CHARS == longest block size string", strs and ml == max(len(s) for s in strs), "const %d, longest %d" % (ml, max(len(s) for s in strs) if strs else -1))
    # de Bruijn pair
    C = scalar(prog, "block_size::LOG_DEBRUIJN_CONSTANT")
    T = bytes_of(prog.const("block_size::LOG_DEBRUIJN_TABLE"))
    bad = []
    used = set()
    for i in range(nv):
        idx = (((mn << i) * C) & 0xffffffff) >> 27
        used.add(idx)
        if idx >= len(T) or T[idx] != i:
            bad.append("size 3<<%d -> slot %d holds %s" % (i, idx, T[idx] if idx < len(T) else None))
    unused = [j for j in range(len(T)) if j not in used]
    ctx.ob(R, "LOG_DEBRUIJN_TABLE[((MIN<<i)*C mod 2^32)>>27] == i for all 31 valid sizes; the unused slot holds 0xff", not bad and len(T) == 32 and all(T[j] == 0xff for j in unused),
           "; ".join(bad[:3]) or "31 sizes map to 31 distinct slots, unused %s" % unused)
    def is_formula(e):
        e = strip(e)
        while e[0] == "cast":
            e = strip(e[1])
        return e[0] == "bin" and e[1] == "Shr" and const_value(e[3]) == 27 and strip(e[2])[0] == "call" and strip(e[2])[1].endswith("wrapping_mul") \
            and is_param(strip(e[2])[2][0], "block_size") and const_named(strip(e[2])[2][1], "block_size::LOG_DEBRUIJN_CONSTANT")
    g = prog.fn("block_size::log_from_valid_internal")
    ctx.visit(g)
    e = Sym(g).local(0)
    idx = strip(e[2]) if e[0] == "index" else None
    while idx is not None and idx[0] == "cast":
        idx = strip(idx[1])
    helper = None
    if idx is not None and idx[0] == "call" and is_param(idx[2][0], "block_size") and len(idx[2]) == 1:
        helper = prog.get(idx[1])
    if helper is not None:
        # the index is computed by a one-expression helper (`debruijn_index`)
        ctx.visit(helper)
        he = strip(Sym(helper).local(0))
        ctx.ob(R, "debruijn_index(bs) = (bs.wrapping_mul(LOG_DEBRUIJN_CONSTANT)) >> 27", is_formula(he), show(he), helper.loc())
        ok = e[0] == "index" and const_named(e[1], "block_size::LOG_DEBRUIJN_TABLE")
    else:
        ok = e[0] == "index" and const_named(e[1], "block_size::LOG_DEBRUIJN_TABLE") and idx is not None and is_formula(idx)
    ctx.ob(R, "log_from_valid_internal(bs) = LOG_DEBRUIJN_TABLE[(bs.wrapping_mul(LOG_DEBRUIJN_CONSTANT)) >> 27] (directly or through the index helper)", ok, show(e), g.loc())


def fnv_table(ctx, prog):
    doc(ctx)
    prime = scalar(prog, "PartialFNVHash::FNV_HASH_PRIME")
    old = scalar(prog, "PartialFNVHash::OLD_HASH_INIT")
    init = scalar(prog, "PartialFNVHash::FNV_HASH_INIT")
    ctx.ob(R, "FNV constants: prime 0x01000193, initial value 0x28021967, FNV_HASH_INIT == init mod 64", prime == 0x01000193 and old == 0x28021967 and init == old % 64,
           "prime=%#x init=%#x masked=%d" % (prime, old, init))
    has_table = any(p.endswith("PartialFNVHash::FNV_TABLE") for p in prog.consts)
    if has_table:
        t = bytes_of(prog.const("PartialFNVHash::FNV_TABLE"))
        bad = []
        if len(t) != 64 * 64:
            bad.append("size %d" % len(t))
        else:
            for s in range(64):
                for c in range(64):
                    want = (((s * prime) & 0xff) ^ c) % 64
                    # equals the low 6 bits of the 32-bit FNV-1 step (state*prime) xor byte for any byte == c mod 64
                    want2 = (((s * prime) & 0xffffffff) ^ c) & 63
                    if t[s * 64 + c] != want or want != want2:
                        bad.append("T[%d][%d]=%d want %d" % (s, c, t[s * 64 + c], want2))
        ctx.ob(R, "FNV_TABLE[s][c] == low 6 bits of ((s*PRIME) xor c) for all 64x64; every entry < 64", not bad, "; ".join(bad[:4]) or "4096 entries checked")
    f = prog.fn("PartialFNVHash::update_by_byte")
    ctx.visit(f)
    sy = Sym(f)
    st = [(i, j, s) for i, j, s in f.stmts() if s["s"] == "assign" and s["lhs"]["l"] == 1 and "*" in s["lhs"]["p"]]
    ok = len(st) == 1
    why = "stores to *self: %d" % len(st)
    if ok:
        e = sy.rvalue(st[0][2]["rv"])
        why = show(e)
        if has_table:
            # FNV_TABLE[self.value()][ch % ALPHABET_SIZE]
            ok = e[0] == "index" and e[1][0] == "index" and const_named(e[1][1], "PartialFNVHash::FNV_TABLE")
            if ok:
                i0, i1 = strip(e[1][2]), strip(e[2])
                ok = i0[0] == "call" and i0[1].endswith("PartialFNVHash::value") and \
                    i1[0] == "bin" and i1[1] == "Rem" and is_param(i1[2], "ch") and const_value(i1[3]) == 64
        else:
            # ((self.0 as u32).wrapping_mul(PRIME) ^ (ch as u32)) as u8
            e = strip(e)
            ok = e[0] == "bin" and e[1] == "BitXor"
            if ok:
                a, b = strip(e[2]), strip(e[3])
                if is_param(b, "ch"):
                    pass
                elif is_param(a, "ch"):
                    a, b = b, a
                ok = is_param(b, "ch") and a[0] == "call" and a[1].endswith("wrapping_mul") and const_named(a[2][1], "PartialFNVHash::FNV_HASH_PRIME") \
                    and canon(strip(a[2][0])).endswith("param:self.0")
    ctx.ob(R, "PartialFNVHash::update_by_byte: the only store to the state is the FNV-1 step on (state, ch)" + (" via FNV_TABLE[value()][ch % 64]" if has_table else " (arithmetic variant)"), ok, why, f.loc())
    g = prog.fn("PartialFNVHash::value")
    ctx.visit(g)
    e = Sym(g).local(0)
    if has_table:
        ok = canon(e) == "param:self.0"
    else:
        s_ = strip(e)
        ok = s_[0] == "bin" and s_[1] == "BitAnd" and canon(strip(s_[2])) == "param:self.0"
        if ok:
            m = strip(s_[3])
            ok = m[0] == "call" and m[1].endswith("wrapping_sub") and const_value(m[2][0]) == 64 and const_value(m[2][1]) == 1
    ctx.ob(R, "PartialFNVHash::value returns the state" + ("" if has_table else " masked to 6 bits"), ok, show(e), g.loc())
    n = prog.fn("PartialFNVHash::new")
    e = Sym(n).local(0)
    ok = e[0] == "agg" and len(e[2]) == 1 and const_named(e[2][0], "PartialFNVHash::FNV_HASH_INIT")
    ctx.ob(R, "PartialFNVHash::new() starts from FNV_HASH_INIT", ok, show(e), n.loc())
    # state only ever holds table/initial values: all stores into PartialFNVHash.0 in the crate
    n_st = 0
    for fn_ in prog.fns:
        for i, j, s in fn_.stmts():
            if s["s"] != "assign":
                continue
            p = s["lhs"]["p"]
            if p and isinstance(p[-1], dict) and p[-1].get("of", "").endswith("partial_fnv::PartialFNVHash") and p[-1].get("n") == "0":
                n_st += 1
                ctx.ob(R, "only PartialFNVHash::update_by_byte writes the FNV state field", fn_.path.endswith("PartialFNVHash::update_by_byte"),
                       "store in %s" % fn_.short, fn_.loc(s["sp"]))
    ctx.floor(R, n_st, 1, "stores into PartialFNVHash.0")


def window_constants(ctx, prog):
    doc(ctx)
    asz = scalar(prog, "block_hash::ALPHABET_SIZE")
    il = scalar(prog, "NumericWindows::<'a>::ILOG2_OF_ALPHABETS")
    bits = scalar(prog, "NumericWindows::<'a>::BITS")
    mask = scalar(prog, "NumericWindows::<'a>::MASK")
    minlcs = scalar(prog, "block_hash::MIN_LCS_FOR_COMPARISON")
    ib = scalar(prog, "IndexWindows::<'a>::BITS")
    ibs = scalar(prog, "IndexWindows::<'a>::BLOCK_SIZE_BITS")
    im = scalar(prog, "IndexWindows::<'a>::MASK")
    nv = scalar(prog, "block_size::NUM_VALID")
    ctx.ob(R, "window constants: 1<<ILOG2 == ALPHABET_SIZE(64), MIN_LCS == 7, BITS == 7*6, MASK == 2^BITS-1", (1 << il) == asz == 64 and minlcs == 7 and bits == minlcs * il and mask == (1 << bits) - 1,
           "ILOG2=%d BITS=%d MASK=%#x" % (il, bits, mask))
    ctx.ob(R, "index window constants: BLOCK_SIZE_BITS holds 0..=NUM_VALID (effective index 31), BITS == 42+5, MASK == 2^BITS-1", (1 << ibs) > nv and ib == bits + ibs and im == (1 << ib) - 1 and ib <= 64,
           "BLOCK_SIZE_BITS=%d BITS=%d" % (ibs, ib))


def len_constants(ctx, prog):
    doc(ctx)
    m = scalar(prog, "MAX_LEN_IN_STR")
    ml = scalar(prog, "block_size::MAX_BLOCK_SIZE_LEN_IN_CHARS")
    full = scalar(prog, "block_hash::FULL_SIZE")
    half = scalar(prog, "block_hash::HALF_SIZE")
    ctx.ob(R, "crate::MAX_LEN_IN_STR == 10 + 64 + 64 + 2 (longest block size string, two full block hashes, two colons)", m == ml + full + full + 2 == 140 and half * 2 == full == 64,
           "MAX_LEN_IN_STR=%d" % m)
    seq = scalar(prog, "block_hash::MAX_SEQUENCE_SIZE")
    ctx.ob(R, "MAX_SEQUENCE_SIZE == 3", seq == 3, "value %d" % seq)


_REFC = None
# which constants a property's behaviour rests on (floors = half of what was counted, as for beliefs)
_COMMON = r"internals::hash::block::|internals::base64::|^MAX_LEN_IN_STR$"
CONST_SCOPES = {
    "C01": r"internals::generate::|internals::hash::block::", "C03": r"internals::generate", "C12": r"internals::generate::Generator::", "C13": r"internals::generate::|internals::hash::block::block_size::",
    "C18": r"internals::generate_easy_std::|internals::generate::Generator::", "C19": r"internals::generate::hashes::",
    "C02": r"internals::compare::|" + _COMMON, "C10": r"internals::compare::|" + _COMMON, "C17": r"internals::compare::|internals::hash::block::block_hash::",
    "C20": r"internals::hash::block::block_size::|internals::compare::|internals::hash::block::block_hash::MIN_LCS",
    "C04": _COMMON, "C05": _COMMON, "C06": r"internals::hash::block::block_hash::", "C07": r"internals::hash_dual::|internals::hash::block::block_hash::",
    "C11": r"internals::hash_dual::|internals::compare::|" + _COMMON, "C14": None, "C15": r"internals::hash_dual::|internals::hash::block::block_hash::", "C16": r"internals::hash::block::block_hash::",
}


def _const_value(c):
    import hashlib
    v = c.get("v")
    if v is None and c.get("bytes") is not None:
        v = "bytes:" + hashlib.sha256((str(c.get("ptr_off")) + str(c.get("slice_len")) + c["bytes"]).encode()).hexdigest()[:16]
    if v is None and c.get("zst"):
        v = "zst"
    return v


def const_census(ctx, prog, scope=None, floor=10):
    """every constant the compiler can evaluate (tables, sizes, borders, initial values, masks) keeps the VALUE recorded on the reviewed
    tree - whatever its initialiser looks like.  Values are read from rustc's const evaluation, so this is form-free; constants that did not
    exist on the reviewed tree are not judged (generic constants are read as polynomials by SA-SUMMARY)."""
    global _REFC
    import json, os, re
    if _REFC is None:
        try:
            with open(os.path.join(os.path.dirname(os.path.dirname(os.path.abspath(__file__))), "ref_consts.json")) as fh:
                _REFC = json.load(fh)
        except OSError:
            _REFC = {}
    RC = "SA-CONST"
    ctx.rule(RC, "compile-time constants (tables, sizes, borders, masks, initial values) have the values rustc evaluated on the reviewed tree (byte tables by digest); the spelling of the initialiser is free")
    rx = re.compile(scope) if scope else None
    n = 0
    for path, want in sorted(_REFC.items()):
        if rx is not None and not rx.search(path):
            continue
        c = prog.consts.get(path)
        if c is None or c.get("generic"):
            continue
        n += 1
        got = _const_value(c)
        ctx.ob(RC, "constant %s keeps its reviewed value" % re.sub(r"^internals::", "", path), got == want, "value %s%s" % (str(got)[:40], "" if got == want else " (reviewed: %s)" % str(want)[:40]))
    ctx.floor(RC, n, floor, "evaluated constants%s" % ("" if scope is None else " in scope"))
