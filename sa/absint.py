"""A small abstract interpreter for integer-controlled bit tricks.

`has_sequences(pa, len)` decides "does pa contain a run of `len` one bits" by a decision tree over `len` that combines pre-computed
doublings (pa & pa>>1, that & that>>2, ...).  For a CONCRETE `len` the control flow is decided by constants; what remains is a word built
from `pa` by `>> k` and `&` only, i.e. an AND of shifted copies of pa.  The interpreter propagates concrete integers and, for the word,
the SET of shifts {s : pa >> s is a conjunct}.  A run of `len` ones starting at bit i exists iff bit i of AND_{s in 0..len} (pa >> s) is
set, so the answer is right for every pa exactly when the set is {0, .., len-1} and the result is `word != 0`.  No input value of `pa` is
ever enumerated: this is constant propagation over the finite domain of `len` with a symbolic AND-set for the word."""


class NotInterpretable(Exception):
    pass


BITS = {"u8": 8, "u16": 16, "u32": 32, "u64": 64, "usize": 64, "i8": 8, "i16": 16, "i32": 32, "i64": 64, "isize": 64, "bool": 1}


def _const(o, tyconsts=None):
    if tyconsts and o.get("tyconst") in tyconsts:
        return ("int", tyconsts[o["tyconst"]], BITS.get(o.get("ty"), 64))
    if o.get("v") is not None:
        return ("int", int(o["v"]), BITS.get(o.get("ty"), 64))
    if o.get("ty") == "()":
        return ("unit",)
    raise NotInterpretable("constant without a value: %s" % o.get("txt"))


def run(f, args, max_steps=4000, tyconsts=None, prog=None, depth=0):
    """f: mir.Fn; args: {local index: abstract value}.  Returns the abstract value of _0 at `return`."""
    env = dict(args)
    blocks = f.blocks
    b = 0
    steps = 0

    def rd(pl):
        if pl["l"] not in env:
            raise NotInterpretable("read of undefined _%d" % pl["l"])
        v = env[pl["l"]]
        for el in pl["p"]:
            if isinstance(el, dict) and "f" in el and v[0] == "tuple":
                v = v[1][int(el["f"])]
            else:
                raise NotInterpretable("projection %s" % (el,))
        return v

    def operand(o):
        if o["k"] in ("copy", "move"):
            return rd(o["pl"])
        if o["k"] == "const":
            return _const(o, tyconsts)
        raise NotInterpretable("operand %s" % o.get("k"))

    def binop(op, a, b_):
        ovf = op.endswith("WithOverflow")
        op0 = op.replace("WithOverflow", "").replace("Unchecked", "")
        if a[0] == "int" and b_[0] == "int":
            w = a[2]
            m = (1 << w) - 1
            x, y = a[1], b_[1]
            if op0 in ("Lt", "Le", "Gt", "Ge", "Eq", "Ne"):
                return ("bool", {"Lt": x < y, "Le": x <= y, "Gt": x > y, "Ge": x >= y, "Eq": x == y, "Ne": x != y}[op0])
            r = {"Add": x + y, "Sub": x - y, "Mul": x * y, "BitAnd": x & y, "BitOr": x | y, "BitXor": x ^ y,
                 "Shl": x << y if y < 256 else None, "Shr": x >> y if y < 256 else None}.get(op0)
            if r is None:
                raise NotInterpretable("operator %s" % op)
            res = ("int", r & m, w)
            return ("tuple", (res, ("bool", r != (r & m) or r < 0))) if ovf else res
        if a[0] == "runs" and b_[0] == "int" and op0 == "Shr":
            return ("runs", frozenset(s + b_[1] for s in a[1]))
        if a[0] == "runs" and b_[0] == "runs" and op0 == "BitAnd":
            return ("runs", a[1] | b_[1])
        if a[0] == "runs" and b_[0] == "int" and op0 in ("Ne", "Eq"):
            if b_[1] == 0:
                return ("nonzero", a[1]) if op0 == "Ne" else ("zero", a[1])
            if b_[1] == (1 << 64) - 1:
                return ("allones", a[1]) if op0 == "Eq" else ("notallones", a[1])
        raise NotInterpretable("%s on %s, %s" % (op, a[0], b_[0]))

    while True:
        steps += 1
        if steps > max_steps:
            raise NotInterpretable("step limit")
        blk = blocks[b]
        for s in blk["stmts"]:
            if s["s"] != "assign":
                continue
            if s["lhs"]["p"]:
                raise NotInterpretable("store through a projection")
            rv = s["rv"]
            k = rv["r"]
            if k == "use":
                v = operand(rv["a"])
            elif k == "bin":
                v = binop(rv["op"], operand(rv["a"]), operand(rv["b"]))
            elif k == "un":
                a = operand(rv["a"])
                if rv["op"] == "Not" and a[0] == "int":
                    v = ("int", (~a[1]) & ((1 << a[2]) - 1), a[2])
                elif rv["op"] == "Not" and a[0] == "bool":
                    v = ("bool", not a[1])
                elif rv["op"] == "Not" and a[0] in ("nonzero", "zero"):
                    v = ("zero" if a[0] == "nonzero" else "nonzero", a[1])
                else:
                    raise NotInterpretable("unary %s on %s" % (rv["op"], a[0]))
            elif k == "cast":
                a = operand(rv["a"])
                if a[0] == "int":
                    w = BITS.get(rv.get("to"), a[2])
                    v = ("int", a[1] & ((1 << w) - 1), w)
                else:
                    v = a
            else:
                raise NotInterpretable("rvalue %s" % k)
            env[s["lhs"]["l"]] = v
        t = blk["term"]
        if t["t"] == "goto":
            b = t["to"]
        elif t["t"] == "switch":
            v = operand(t["on"])
            if v[0] == "bool":
                val = 1 if v[1] else 0
            elif v[0] == "int":
                val = v[1]
            else:
                raise NotInterpretable("branch on %s" % v[0])
            nxt = None
            for a_, tgt in t["arms"]:
                if int(a_) == val:
                    nxt = tgt
            b = nxt if nxt is not None else t["otherwise"]
            if b is None:
                raise NotInterpretable("no successor")
        elif t["t"] == "assert":
            c = operand(t["cond"])
            if c[0] != "bool" or c[1] != bool(t.get("expected", True)):
                raise NotInterpretable("assertion may fail")
            b = t["to"]
        elif t["t"] == "call" and prog is not None and depth < 4:
            from .mir import callee_of
            g = prog.get(callee_of(t))
            if g is None or t["dest"]["p"] or t.get("to") is None:
                raise NotInterpretable("call of %s" % callee_of(t))
            sub = {k + 1: operand(a) for k, a in enumerate(t["args"])}
            gsig = prog.sigs.get(g.path) or {}
            tc = dict(zip(gsig.get("generics") or [], [int(x) if str(x).lstrip("-").isdigit() else tyconsts.get(x) if tyconsts and x in tyconsts else None for x in (t.get("gargs") or [])]))
            tc = {k: v for k, v in tc.items() if v is not None}
            env[t["dest"]["l"]] = run(g, sub, max_steps, tc or tyconsts, prog, depth + 1)
            b = t["to"]
        elif t["t"] == "return":
            return env.get(0)
        else:
            raise NotInterpretable("terminator %s" % t["t"])
