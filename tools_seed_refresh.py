#!/usr/bin/env python3
"""dev helper: re-run every claimed check against stored seeded changes and refresh `detected_by` in their meta.json.
usage: tools_seed_refresh.py [ids...]   (scratch worktrees of /repo under /tmp, removed afterwards; checks run from VERIF_CHECK_DIR or /verif)"""
import glob, json, os, shutil, subprocess, sys, tempfile, time
V = "/verif"
CHK = os.environ.get("VERIF_CHECK_DIR", V)
want = sys.argv[1:]
claimed = [c["property_id"] for c in json.load(open(os.path.join(CHK, "MANIFEST.json")))["checks"]]
for d in sorted(glob.glob(V + "/seeded/*")):
    name = os.path.basename(d)
    if want and name not in want and name.split("-")[0] not in want:
        continue
    meta = json.load(open(d + "/meta.json"))
    pid = meta["property"]
    wt = tempfile.mkdtemp(prefix="ffz-refresh-", dir="/tmp")
    os.rmdir(wt)
    try:
        subprocess.run(["git", "-C", "/repo", "worktree", "add", "-q", "--detach", wt, "HEAD"], check=True)
        r = subprocess.run(["git", "-C", wt, "apply", d + "/patch.diff"], capture_output=True, text=True)
        if r.returncode != 0:
            print(name, "patch does not apply")
            continue
        env = dict(os.environ, VERIF_REPO=wt, VERIF_EVIDENCE_DIR=os.path.join(wt, "_evidence"), VERIF_FACT_CACHE="1")
        det, first = [], {}
        for c in claimed:
            tiers = ["quick", "thorough"] if c == pid else ["quick"]
            for tier in tiers:
                p = subprocess.run([os.path.join(CHK, "check"), c, "--tier", tier], capture_output=True, text=True, env=env, cwd=CHK)
                if p.returncode == 1:
                    det.append(c)
                    ls = [l for l in p.stdout.splitlines() if ": SA-" in l or "FLOOR" in l or "ANCHOR" in l or "SHAPE" in l]
                    first[c] = [l[:300] for l in ls[:3]]
                    break
        meta["detected_by"] = det
        meta["first_reports"] = first
        meta["when"] = time.strftime("%Y-%m-%d %H:%M")
        json.dump(meta, open(d + "/meta.json", "w"), indent=1)
        print(name, pid, "target" if pid in det else "MISSED-BY-TARGET", det, flush=True)
    finally:
        subprocess.run(["git", "-C", "/repo", "worktree", "remove", "--force", wt], capture_output=True)
        shutil.rmtree(wt, ignore_errors=True)
        # drop cached facts of this scratch tree (keyed by its digest) to bound disk use
subprocess.run("find /verif/.work/cache -name '*.json' -mmin +90 -delete", shell=True)
