"""A private function that was only RENAMED is read under the name the rules know.

The rules anchor on the function names of the reviewed tree.  Public names cannot change without breaking the API, private ones can
(`foo_internal` -> `foo_impl`).  When a function of the reviewed tree (sa/ref_sigs.json: path -> signature, per configuration set) is
missing, and exactly one function that the reviewed tree did not have sits in the same module / impl with the same signature, generics
and safety - and the pairing is one-to-one - the new function is the old one under a new name: its path (and the paths of its closures,
and every call of it) is rewritten to the reviewed name before any rule runs.  Anything less clear-cut is left alone; the rules then fail
closed on the missing anchor, as before.  Functions that moved to another module are not followed."""
import json
import os
import re

_REF = None


def ref_sigs():
    global _REF
    if _REF is None:
        try:
            with open(os.path.join(os.path.dirname(os.path.abspath(__file__)), "ref_sigs.json")) as fh:
                _REF = json.load(fh)
        except OSError:
            _REF = {}
    return _REF


def sig_key(s):
    return "%s|%s|%s|%s" % (",".join(s.get("generics") or []), ",".join(s.get("inputs") or []), s.get("output"), s.get("unsafe"))


def _parent(path):
    # `a::b::c` -> `a::b`; `<T as Tr>::m` -> `<T as Tr>`
    depth = 0
    for i in range(len(path) - 1, 0, -1):
        ch = path[i]
        if ch == ">":
            depth += 1
        elif ch == "<":
            depth -= 1
        elif ch == ":" and path[i - 1] == ":" and depth == 0:
            return path[:i - 1]
    return ""


def run(d):
    ref = ref_sigs()
    if not ref:
        return []
    have = {f["path"] for f in d["fns"]}
    sigs = {s["path"]: s for s in d.get("sigs", [])} if isinstance(d.get("sigs"), list) else dict(d.get("sigs") or {})
    missing = [p for p in ref if p not in have and p not in sigs and "{closure" not in p]
    new = [p for p in have if p not in ref and "{closure" not in p and p in sigs and not sigs[p].get("exported")]
    if not missing or not new:
        return []
    pairs = []
    for n in new:
        cands = [m for m in missing if _parent(m) == _parent(n) and ref[m] == sig_key(sigs[n])]
        if len(cands) == 1:
            pairs.append((n, cands[0]))
    out = []
    for n, m in pairs:
        if sum(1 for a, b in pairs if b == m) != 1:
            continue
        out.append((n, m))
    if not out:
        return []
    ren = dict(out)

    def fix(path):
        if path in ren:
            return ren[path]
        for n, m in ren.items():
            if path.startswith(n + "::{closure"):
                return m + path[len(n):]
        return path
    for f in d["fns"]:
        f["path"] = fix(f["path"])
        for b in f["blocks"]:
            t = b["term"]
            if t.get("t") == "call":
                for k in ("callee", "resolved"):
                    if t.get(k):
                        t[k] = fix(t[k])
            for s in b["stmts"]:
                if s.get("s") == "assign" and s["rv"].get("r") == "agg" and isinstance(s["rv"].get("kind"), dict) and s["rv"]["kind"].get("def"):
                    s["rv"]["kind"]["def"] = fix(s["rv"]["kind"]["def"])
    if isinstance(d.get("sigs"), list):
        for s in d["sigs"]:
            s["path"] = fix(s["path"])
    else:
        for k in list(d.get("sigs") or {}):
            nk = fix(k)
            if nk != k:
                d["sigs"][nk] = d["sigs"].pop(k)
                d["sigs"][nk]["path"] = nk
    return out
