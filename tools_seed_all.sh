#!/bin/sh
# evaluate all delivered seeds of the given property ids sequentially (background friendly)
for id in "$@"; do
  for n in 1 2; do
    if [ -f ${SEED_ROOT:-/tmp/seed}/$id/OUT/patch$n.diff ] && [ -f ${SEED_ROOT:-/tmp/seed}/$id/OUT/meta$n.json ]; then
      /verif/tools_seed.py $id $n > ${SEED_ROOT:-/tmp/seed}/$id.eval$n.log 2>&1
    fi
  done
done
echo finished > ${SEED_ROOT:-/tmp/seed}/evalall.$$.done
