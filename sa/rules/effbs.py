"""SA-EFFBS: effective-block-size typing of every block-hash pairing (C02, C10).

Abstract values (derived from bodies, not names): BH(o,k) = block hash k of object o; LOG(o,c) = o.log_blocksize + c.
eff(BH(o,k)) = log(o) + (k-1).  The relation between s = log(self) and o = log(other) at a program point comes from a
dominating (debug_)assert!(is_near_X(a,b)) or from the arm of `match compare_sizes(a,b)`."""
import re
from ..sym import Sym, strip, show, canon, fpath, const_value, path_conds, bool_atom, walk
from ..mir import callee_of, pl
from . import guard as G

R = "SA-EFFBS"
SCORERS = ("score_strings_internal", "has_common_substring_internal", "is_equiv_internal")


def doc(ctx):
    ctx.rule(R, "dimension analysis over the resolved MIR: every pairing of two block hashes (scoring, common-substring test, equivalence test) compares strings of equal effective block size log(o)+(k-1) under the block-size relation established at that point, the block size handed to the scorer is that effective block size, and scorer and candidate pre-filter use the same (k_self,k_other) pairs per relation")


def accessor_k(prog, path, cache={}):
    """K if the function returns (a view of) blockhashK[/len_blockhashK] of its first argument, decided from its body"""
    key = (prog.cfg, path)
    if key in cache:
        return cache[key]
    g = prog.get(path)
    k = None
    if g is not None and g.argc >= 1:
        sy = Sym(g)
        e = sy.local(0)
        flds = set()
        for x in walk(e):
            if x[0] == "field":
                b = x[1]
                while b[0] in ("ref", "deref"):
                    b = b[1]
                if b[0] == "param" and b[1] == 1:
                    flds.add(x[2])
            if x[0] == "call" and x is not e:
                kk = accessor_k(prog, x[1])
                if kk and x[2] and strip(x[2][0])[0] == "param" and strip(x[2][0])[1] == 1:
                    flds.add("blockhash%d" % kk)
        ks = {f[-1] for f in flds if re.fullmatch(r"(len_)?blockhash[12]", f)}
        if len(ks) == 1 and all(re.fullmatch(r"(len_)?blockhash[12]", f) for f in flds):
            k = int(ks.pop())
    cache[key] = k
    return k


def who(e):
    """'self' / 'other' / 'lhs' / 'rhs' for an object expression"""
    e = strip(e)
    if e[0] == "param":
        if e[1] == 1:
            return "self"
        return "other" if e[1] == 2 else e[2]
    if e[0] == "local":
        return "local:%d" % e[1]
    if e[0] == "call" and e[1].endswith("::from") and "FuzzyHashCompareTarget" in e[1] and e[2] and strip(e[2][0])[0] == "param" and strip(e[2][0])[1] == 1:
        return "self"  # a comparison target built from self stands for self
    return None


def absval(prog, f, sy, e, blk, depth=0):
    e = strip(e)
    if depth > 6:
        return None
    if e[0] == "field" and e[2] == "log_blocksize":
        w = who(e[1])
        return ("LOG", w, 0) if w else None
    if e[0] == "bin" and e[1] == "Add" and const_value(e[3]) == 1:
        a = absval(prog, f, sy, e[2], blk, depth + 1)
        return ("LOG", a[1], a[2] + 1) if a and a[0] == "LOG" else None
    if e[0] == "call":
        nm = e[1].split("::")[-1]
        if nm == "wrapping_add" and len(e[2]) == 2 and const_value(e[2][1]) == 1:
            a = absval(prog, f, sy, e[2][0], blk, depth + 1)
            return ("LOG", a[1], a[2] + 1) if a and a[0] == "LOG" else None
        k = accessor_k(prog, e[1])
        if k and e[2]:
            w = who(e[2][0])
            return ("BH", w, k) if w else None
    if e[0] == "local":
        # a position array filled by init_from_partial(local, X) that dominates this point
        for i, t in f.calls():
            if callee_of(t).endswith("init_from_partial") and t["args"] and f.dominates(i, blk):
                r = strip(sy.operand(t["args"][0]))
                if r == e:
                    return absval(prog, f, sy, sy.operand(t["args"][1]), i, depth + 1)
    return None


def relation_at(prog, f, sy, blk):
    """offset d with log(other) = log(self) + d established on the way to blk, or None; plus description"""
    variants = [v["name"] for v in prog.adt("block::BlockSizeRelation")["variants"]]
    for c in path_conds(f, sy, blk):
        e = c[0]
        if e[0] == "discr":
            ce = strip(e[1])
            if ce[0] == "call" and ce[1].endswith("block_size::compare_sizes") and c[1] == "in" and len(c[2]) == 1:
                a, b = absval(prog, f, sy, ce[2][0], blk), absval(prog, f, sy, ce[2][1], blk)
                rel = variants[c[2][0]]
                d = _d(rel, a, b)
                if d is not None:
                    return d, "match compare_sizes(%s,%s) arm %s" % (a, b, rel)
            continue
        a = bool_atom(c)
        if a and a[0] == "truth" and a[2] is True:
            ce = strip(a[1])
            if ce[0] == "call" and re.search(r"block_size::is_near_(eq|lt|gt)$", ce[1]):
                rel = {"eq": "NearEq", "lt": "NearLt", "gt": "NearGt"}[ce[1].rsplit("_", 1)[1]]
                x, y = absval(prog, f, sy, ce[2][0], blk), absval(prog, f, sy, ce[2][1], blk)
                d = _d(rel, x, y)
                if d is not None:
                    return d, "%s(%s,%s)" % (ce[1].split("::")[-1], x, y)
    return None, "no relation established"


def _d(rel, a, b):
    """relation rel(a,b) over LOG values -> d = log(other) - log(self)"""
    if not a or not b or a[0] != "LOG" or b[0] != "LOG" or a[2] != 0 or b[2] != 0:
        return None
    diff = {"NearEq": 0, "NearLt": 1, "NearGt": -1}.get(rel)  # b - a
    if diff is None:
        return None
    if (a[1], b[1]) == ("self", "other"):
        return diff
    if (a[1], b[1]) == ("other", "self"):
        return -diff
    return None


def eff(v, d):
    """effective log block size relative to log(self)"""
    base = 0 if v[1] == "self" else (d if v[1] == "other" else None)
    if base is None:
        return None
    if v[0] == "BH":
        return base + (v[2] - 1)
    return base + v[2]


def pairings(ctx, prog):
    """O1-O3: type every scorer call site"""
    doc(ctx)
    n_typed = 0
    pair_sets = {}
    per_fn = {}
    for f in prog.fns:
        sy = None
        for i, t in f.calls():
            c = callee_of(t)
            nm = c.split("::")[-1]
            if nm not in SCORERS:
                continue
            if sy is None:
                sy = Sym(f)
            A = absval(prog, f, sy, sy.operand(t["args"][0]), i)
            B = absval(prog, f, sy, sy.operand(t["args"][1]), i)
            L = absval(prog, f, sy, sy.operand(t["args"][2]), i) if nm == "score_strings_internal" and len(t["args"]) > 2 else None
            if not (A and B and A[0] == "BH" and B[0] == "BH" and A[1] in ("self", "other") or A and A[1] and str(A[1]).startswith("local")):
                # generic wrappers whose operands are not block hashes of hash objects (public wrapper, trait plumbing)
                if A is None and B is None:
                    continue
            if not (A and B and A[0] == "BH" and B[0] == "BH"):
                continue
            ctx.visit(f)
            n_typed += 1
            d, why = relation_at(prog, f, sy, i)
            key = "%s: %s(%s, %s%s) compares equal effective block sizes" % (f.short, nm, A[1:], B[1:], ", %s" % (L[1:],) if L else "")
            if nm == "is_equiv_internal" and d is None:
                d = 0 if A[2] == B[2] else None  # equivalence is only meaningful for like block hashes at equal sizes (checked by caller)
                why = "is_equiv compares like block hashes; block size compared separately"
            if d is None:
                ctx.ob(R, key, False, "no block-size relation is established on the way to this pairing", f.loc(t["sp"]))
                continue
            ea, eb = eff(A, d), eff(B, d)
            ok = ea is not None and ea == eb
            msg = "under %s: eff(A)=s%+d eff(B)=s%+d" % (why, ea if ea is not None else 99, eb if eb is not None else 99)
            if L is not None:
                el = eff(L, d) if L[0] == "LOG" else None
                ok = ok and el == ea
                msg += " L=s%+d" % (el if el is not None else 99)
            elif nm == "score_strings_internal":
                ok = False
                msg += " but the block-size argument is not derived from a log_blocksize"
            ctx.ob(R, key, ok, msg, f.loc(t["sp"]))
            kind = "score" if nm == "score_strings_internal" else ("cand" if nm == "has_common_substring_internal" else "equiv")
            ks = (A[2], B[2]) if A[1] != "other" else (B[2], A[2])
            pair_sets.setdefault((kind, d), set()).add(ks)
            per_fn.setdefault(f.path, (f, set(), set()))
            for v in (A, B):
                per_fn[f.path][1 if v[1] == "self" else 2].add(v[2])
    ctx.floor(R, n_typed, 10, "typed block-hash pairings")
    # index discipline: a function that pairs block hash k of self with block hash j of other touches no other indexed
    # field (blockhashN / len_blockhashN, directly or through an accessor) of self / other
    for path, (f, ks_self, ks_other) in per_fn.items():
        if "compare_optimized_internal" in path:
            continue  # handles all relations in one body: covered per arm by the typed pairings above
        sy = Sym(f)
        used = {1: set(), 2: set()}
        exprs = []
        for i, j, s_ in f.stmts(live_only=False):
            if s_["s"] == "assign":
                exprs.append(sy.rvalue(s_["rv"]))
        for i, t in f.calls(live_only=False):
            exprs.append(sy.call(t, i))
        for e in exprs:
            for x in walk(e):
                if x[0] == "field" and re.fullmatch(r"(len_)?blockhash[12]", x[2]):
                    w = who(x[1])
                    if w in ("self", "other"):
                        used[1 if w == "self" else 2].add(int(x[2][-1]))
                elif x[0] == "call" and x[2]:
                    k = accessor_k(prog, x[1])
                    w = who(x[2][0])
                    if k and w in ("self", "other"):
                        used[1 if w == "self" else 2].add(k)
        ok = used[1] <= ks_self and used[2] <= ks_other
        ctx.ob(R, "%s touches only the block hashes it pairs (self: %s, other: %s)" % (f.short, sorted(ks_self), sorted(ks_other)), ok,
               "indexed fields used - self: %s, other: %s" % (sorted(used[1]), sorted(used[2])), f.loc())
    # O4: pair-set agreement per relation (d = log(other) - log(self))
    want = {0: {(1, 1), (2, 2)}, 1: {(2, 1)}, -1: {(1, 2)}}
    for d, w in want.items():
        for kind in ("score", "cand"):
            got = pair_sets.get((kind, d), set())
            ctx.ob(R, "pairs used by %s under log(other)-log(self)=%+d are %s" % ("the scorer" if kind == "score" else "the candidate test", d, sorted(w)), got == w, "found %s" % sorted(got))


def dispatchers(ctx, prog):
    """O5-O7: dispatch on compare_sizes: arms call the matching relation-specific callee with (self, other) in order;
    Far returns the constant 0/false; NearEq of the public entry points tests equality (-> 100) before scoring"""
    doc(ctx)
    variants = [v["name"] for v in prog.adt("block::BlockSizeRelation")["variants"]]
    n = 0
    for f in prog.fns:
        sw = None
        sy = None
        for i in sorted(f.live):
            t = f.blocks[i]["term"]
            if t["t"] != "switch":
                continue
            if sy is None:
                sy = Sym(f)
            e = sy.operand(t["on"])
            if e[0] == "discr" and strip(e[1])[0] == "call" and strip(e[1])[1].endswith("block_size::compare_sizes"):
                sw = (i, t, strip(e[1]))
        if sw is None:
            continue
        i, t, ce = sw
        a, b = absval(prog, f, sy, ce[2][0], i), absval(prog, f, sy, ce[2][1], i)
        if not (a and b and a[0] == "LOG" and b[0] == "LOG"):
            continue
        n += 1
        ctx.visit(f)
        ordered = (a[1], b[1]) == ("self", "other")
        ctx.ob(R, "%s dispatches on compare_sizes(self.log, other.log) in that order" % f.short, ordered and a[2] == 0 and b[2] == 0, "compare_sizes(%s, %s)" % (a, b), f.loc())
        arms = {variants[int(v)]: tgt for v, tgt in t["arms"]}
        covered = set(arms)
        other_v = [v for v in variants if v not in covered]
        if len(other_v) == 1:
            arms[other_v[0]] = t["otherwise"]
        is_bool = f.locals[0]["ty"] == "bool"
        # Far arm: constant
        far = arms.get("Far")
        if far is not None and f.locals[0]["ty"] in ("u32", "bool"):
            consts = []
            reach = f.reach_from(far, avoid={x for k, x in arms.items() if k != "Far"})
            calls_in = [callee_of(f.blocks[b]["term"]) for b in reach if f.blocks[b]["term"]["t"] == "call"]
            for b in reach:
                for s in f.blocks[b]["stmts"]:
                    if s["s"] == "assign" and s["lhs"]["l"] == 0:
                        consts.append(const_value(sy.rvalue(s["rv"])))
            ctx.ob(R, "%s: Far arm returns the constant %s without scoring" % (f.short, "false" if is_bool else "0"), consts == [0] and not calls_in,
                   "returns %s, calls %s" % (consts, [c.split("::")[-1] for c in calls_in]), f.loc())
        # near arms: callee named for the same relation, args (self, other)
        for rel, suf in (("NearEq", "near_eq"), ("NearLt", "near_lt"), ("NearGt", "near_gt")):
            tgt = arms.get(rel)
            if tgt is None:
                continue
            reach = f.reach_from(tgt, avoid={x for k, x in arms.items() if k != rel})
            for bb in sorted(reach):
                tt = f.blocks[bb]["term"]
                if tt["t"] != "call":
                    continue
                c = callee_of(tt)
                m = re.search(r"(compare[a-z_]*|is_comparison_candidate)_near_(eq|lt|gt)(_internal)?$", c)
                if m:
                    args_ok = strip(sy.operand(tt["args"][0]))[0] in ("param", "local") and len(tt["args"]) == 2
                    w0 = who(sy.operand(tt["args"][0]))
                    w1 = who(sy.operand(tt["args"][1]))
                    order_ok = (w0 == "self" or (w0 or "").startswith("local")) and w1 == "other"
                    ctx.ob(R, "%s: arm %s calls the %s variant with (self, other)" % (f.short, rel, suf), m.group(2) == suf.split("_")[1] and order_ok,
                           "calls %s(%s, %s)" % (c.split("::")[-1], w0, w1), f.loc(tt["sp"]))
        # near arms produce only scorer / candidate results: no constant is returned there (except 100 for identical, NearEq)
        if f.locals[0]["ty"] in ("u32", "bool"):
            for rel in ("NearEq", "NearLt", "NearGt"):
                tgt = arms.get(rel)
                if tgt is None:
                    continue
                reach = f.reach_from(tgt, avoid={x for k, x in arms.items() if k != rel})
                consts = []
                for bb in reach:
                    for s_ in f.blocks[bb]["stmts"]:
                        if s_["s"] == "assign" and s_["lhs"]["l"] == 0 and not s_["lhs"]["p"]:
                            cv = const_value(sy.rvalue(s_["rv"]))
                            if cv is not None:
                                consts.append(cv)
                allowed = {100} if rel == "NearEq" and f.locals[0]["ty"] == "u32" else set()
                ctx.ob(R, "%s: arm %s returns no constant result%s" % (f.short, rel, " other than 100 for identical hashes" if allowed else ""), set(consts) <= allowed,
                       "constants returned in the arm: %s" % consts, f.loc())
        # NearEq of public compare entry points: equality test returning 100 before scoring
        if f.exported and f.locals[0]["ty"] == "u32" and f.path.endswith("::compare") or f.path.endswith("compare_optimized_internal"):
            tgt = arms.get("NearEq")
            if tgt is not None:
                reach = f.reach_from(tgt, avoid={x for k, x in arms.items() if k != "NearEq"})
                has100 = False
                for bb in reach:
                    for s in f.blocks[bb]["stmts"]:
                        if s["s"] == "assign" and s["lhs"]["l"] == 0 and const_value(sy.rvalue(s["rv"])) == 100:
                            # ... and only for identical hashes: the constant is reached under `self == other` (never under `!=`)
                            eqs = []
                            for c in path_conds(f, sy, bb):
                                a = bool_atom(c)
                                if a and a[0] == "truth" and strip(a[1])[0] == "call" and len(strip(a[1])[2]) == 2:
                                    cal = strip(a[1])[1]
                                    ops_ = sorted(re.sub(r"^[\w:<>, ]*::as_ref\((.*)\)$", r"\1", canon(strip(x))) for x in strip(a[1])[2])
                                    if ops_ != ["param:other", "param:self"]:
                                        continue   # an equality of parts (two arrays, two lengths) is not `self == other`
                                    if re.search(r"::eq(::<[^()]*>)?$", cal):
                                        eqs.append(a[2] is True)
                                    elif re.search(r"::ne(::<[^()]*>)?$", cal):
                                        eqs.append(a[2] is False)
                            has100 = bool(eqs) and all(eqs)
                            if not has100:
                                ctx.ob(R, "%s: the constant 100 of the NearEq arm is returned only under `self == other`" % f.short, False,
                                       "equality tests on the path: %s" % eqs, f.loc(s["sp"]))
                deleg = [callee_of(f.blocks[bb]["term"]) for bb in reach if f.blocks[bb]["term"]["t"] == "call"]
                via = any(c.endswith("compare_near_eq_internal") for c in deleg)
                ctx.ob(R, "%s: NearEq arm returns 100 for identical hashes before any scoring" % f.short, has100 or via,
                       "constant 100 in arm: %s; delegates to compare_near_eq_internal: %s" % (has100, via), f.loc())
    ctx.floor(R, n, 4, "dispatchers on compare_sizes")
    # compare_near_eq_internal: is_equiv_except_block_size -> 100 dominates the scorer
    g = prog.fn("FuzzyHashCompareTarget::compare_near_eq_internal")
    ctx.visit(g)
    gs = Sym(g)
    hundred = G.blocks_assigning_ret(g, gs, lambda e: const_value(e) == 100)
    ok = False
    why = ""
    if hundred:
        ats = G.atoms(path_conds(g, gs, hundred[0]))
        ok = any(a[0] == "truth" and a[2] is True and strip(a[1])[0] == "call" and strip(a[1])[1].endswith("is_equiv_except_block_size") for a in ats)
        sc = [i for i, t in g.calls() if callee_of(t).endswith("compare_unequal_near_eq_internal")]
        ok = ok and len(sc) == 1
        if ok:
            ats2 = G.atoms(path_conds(g, gs, sc[0]))
            ok = any(a[0] == "truth" and a[2] is False and strip(a[1])[0] == "call" and strip(a[1])[1].endswith("is_equiv_except_block_size") for a in ats2)
        why = "; ".join(G.show_atom(a) for a in ats)[:200]
    ctx.ob(R, "compare_near_eq_internal: 100 iff is_equiv_except_block_size(other), scoring only otherwise", ok, why, g.loc())
    # NearEq combination is max of the two pair scores
    h = prog.fn("FuzzyHashCompareTarget::compare_unequal_near_eq_internal")
    hs = Sym(h)
    e = strip(hs.local(0))
    ok = e[0] == "call" and e[1].endswith("Ord::max") and all(strip(x)[0] == "call" and strip(x)[1].endswith("score_strings_internal") for x in e[2])
    ctx.ob(R, "compare_unequal_near_eq_internal = max(score(bh1,bh1), score(bh2,bh2))", ok, show(e)[:200], h.loc())


def scorer_pipeline(ctx, prog):
    """score = 0 exactly on the no-common-substring arm, else raw score, capped as min(score, cap) below the border"""
    doc(ctx)
    f = prog.fn("BlockHashPositionArrayImplInternal::score_strings_raw_internal")
    ctx.visit(f)
    sy = Sym(f)
    zero = G.blocks_assigning_ret(f, sy, lambda e: e[0] == "const" and e[1] == 0)

    def spec(a):
        return a[0] == "truth" and a[2] is False and strip(a[1])[0] == "call" and strip(a[1])[1].endswith("has_common_substring_internal") and \
            who(strip(a[1])[2][0]) == "self" and who(strip(a[1])[2][1]) == "other"
    G.check_exact(ctx, "SA-GUARD", "score_strings_raw_internal returns 0 iff !has_common_substring_internal(self, other)", f, sy, zero, [("no common substring", spec)])
    ok = False
    why = ""
    for i, t in f.calls():
        if t["dest"]["l"] == 0 and callee_of(t).endswith("raw_score_by_edit_distance_internal"):
            a = [strip(sy.operand(x)) for x in t["args"]]
            why = ", ".join(show(x)[:60] for x in a)
            ok = a[0][0] == "call" and a[0][1].endswith("::len") and who(a[0][2][0]) == "self" and \
                ((a[1][0] == "call" and a[1][1].endswith("::len") and who(a[1][2][0]) == "other") or (a[1][0] == "len" and who(a[1][1]) == "other")) and \
                a[2][0] == "call" and a[2][1].endswith("edit_distance_internal") and who(a[2][2][0]) == "self" and who(a[2][2][1]) == "other"
    ctx.ob(R, "score_strings_raw_internal otherwise = raw_score(len(self), len(other), edit_distance(self, other))", ok, why, f.loc())
    g = prog.fn("BlockHashPositionArrayImplInternal::score_strings_internal")
    ctx.visit(g)
    gs = Sym(g)
    border = int(prog.const("FuzzyHashCompareTarget::LOG_BLOCK_SIZE_CAPPING_BORDER")["v"])
    unc = G.blocks_assigning_ret(g, gs, lambda e: strip(e)[0] == "call" and strip(e)[1].endswith("score_strings_raw_internal"))
    from ..sym import is_param
    G.check_exact(ctx, "SA-GUARD", "score_strings_internal returns the raw score uncapped iff log_block_size in [BORDER, 255]", g, gs, unc,
                  [("log_block_size >= BORDER", G.iv_spec(lambda e: is_param(e, "log_block_size"), (border, 255), maxv=255))])
    ok = False
    why = ""
    for i, t in g.calls():
        if t["dest"]["l"] == 0 and callee_of(t).endswith("Ord::min"):
            a = [strip(gs.operand(x)) for x in t["args"]]
            why = "min(%s, %s)" % (show(a[0])[:80], show(a[1])[:120])
            sc = [x for x in a if x[0] == "call" and x[1].endswith("score_strings_raw_internal")]
            cap = [x for x in a if x[0] == "call" and x[1].endswith("score_cap_on_block_hash_comparison_internal")]
            ok = len(sc) == 1 and len(cap) == 1
            if ok:
                c = cap[0]
                l2 = strip(c[2][2])
                ok = is_param(c[2][0], "log_block_size") and strip(c[2][1])[0] == "call" and strip(c[2][1])[1].endswith("::len") and who(strip(c[2][1])[2][0]) == "self" and \
                    ((l2[0] == "call" and l2[1].endswith("::len") and who(l2[2][0]) == "other") or (l2[0] == "len" and who(l2[1]) == "other"))
                # the raw score being capped is that of the same two strings
                r = sc[0]
                ok = ok and who(strip(r[2][0])) == "self" and who(strip(r[2][1])) == "other"
    ctx.ob(R, "score_strings_internal below the border = min(raw score, cap(log_block_size, len(self), len(other)))", ok, why, g.loc())


def windows(ctx, prog):
    """O8: index windows carry the effective block size of their block hash"""
    doc(ctx)
    n = 0
    for k in (1, 2):
        f = prog.fn("FuzzyHashData::<S1, S2, true>::block_hash_%d_index_windows" % k)
        ctx.visit(f)
        sy = Sym(f)
        e = strip(sy.local(0))
        ok = e[0] == "call" and e[1].endswith("IndexWindows::<'a>::new")
        why = show(e)[:200]
        if ok:
            A = absval(prog, f, sy, e[2][0], 0)
            L = absval(prog, f, sy, e[2][1], 0)
            ok = A == ("BH", "self", k) and L == ("LOG", "self", k - 1)
            why = "IndexWindows::new(%s, %s)" % (A, L)
        n += 1
        ctx.ob(R, "block_hash_%d_index_windows uses block hash %d with effective block size log+%d" % (k, k, k - 1), ok, why, f.loc())
        g = prog.fn("FuzzyHashData::<S1, S2, true>::block_hash_%d_numeric_windows" % k)
        gs = Sym(g)
        e = strip(gs.local(0))
        ok = e[0] == "call" and e[1].endswith("NumericWindows::<'a>::new") and absval(prog, g, gs, e[2][0], 0) == ("BH", "self", k)
        n += 1
        ctx.ob(R, "block_hash_%d_numeric_windows iterates block hash %d" % (k, k), ok, show(e)[:120], g.loc())
    ctx.floor(R, n, 4, "window accessors")


def string_front_end(ctx, prog):
    """ssdeep::compare(&str,&str): parse lhs, parse rhs (errors tagged Left/Right), Ok(lhs.compare(rhs))"""
    doc(ctx)
    f = prog.fn("compare_easy::compare")
    ctx.visit(f)
    sy = Sym(f)
    parses = [(i, t) for i, t in f.calls() if callee_of(t).endswith("str>::parse")]
    cmps = [(i, t) for i, t in f.calls() if callee_of(t).endswith("FuzzyHashData<S1, S2, true>>::compare")]
    ok = len(parses) == 2 and len(cmps) == 1
    why = "%d parse calls, %d compare calls" % (len(parses), len(cmps))
    if ok:
        from ..sym import is_param
        p0 = [strip(sy.operand(t["args"][0])) for i, t in parses]
        names = sorted((x[2] if x[0] == "param" else "?") for x in p0)
        ok = names == ["lhs", "rhs"] and all("FuzzyHashData<64, 64, true>" in f.locals[t["dest"]["l"]]["ty"] for i, t in parses)
        i, t = cmps[0]
        a0, a1 = sy.operand(t["args"][0]), sy.operand(t["args"][1])
        r0, n0 = fpath(a0)
        r1, n1 = fpath(a1)
        # operands are the Ok payloads of the two parses, lhs first
        tagged = []   # (side, source parameter) found in `map_err` closures

        def src(r):
            # `parse(x)` itself, or `parse(x).map_err(|err| ParseErrorEither(side, err))` behind `?`
            r = strip(r)
            if r[0] == "call" and r[1].endswith("Try>::branch") and r[2]:
                r = strip(r[2][0])
            if r[0] == "call" and r[1].endswith("::map_err") and len(r[2]) == 2:
                cl = strip(r[2][1])
                inner = strip(r[2][0])
                if cl[0] == "agg" and cl[1].startswith("Closure:") and not cl[2]:
                    c = prog.get(cl[1][len("Closure:"):])
                    if c is not None and not list(c.calls()):
                        ctx.visit(c)
                        ce = strip(Sym(c).local(0))
                        if ce[0] == "agg" and "compare_easy::ParseErrorEither" in ce[1] and len(ce[2]) == 2 and strip(ce[2][1])[0] == "param" and strip(ce[2][1])[1] == 2 \
                                and strip(ce[2][0])[0] == "agg":
                            who = strip(inner[2][0])[2] if inner[0] == "call" and inner[1].endswith("str>::parse") and strip(inner[2][0])[0] == "param" else None
                            tagged.append((strip(ce[2][0])[1].split("::")[-1], who, ("<Err>", "0")))
                r = inner
            return strip(r[2][0])[2] if r[0] == "call" and r[1].endswith("str>::parse") and strip(r[2][0])[0] == "param" else None
        pay = (("<Ok>", "0"), ("<Continue>", "0"))
        ok = ok and n0 in pay and n1 in pay and src(r0) == "lhs" and src(r1) == "rhs"
        why = "compare(parse(%s).Ok, parse(%s).Ok), both LongFuzzyHash" % (src(r0), src(r1))
        # error sides
        sides = []
        for bi, bj, s in f.stmts():
            if s["s"] == "assign" and s["rv"]["r"] == "agg" and s["rv"]["kind"].get("adt", "").endswith("compare_easy::ParseErrorEither"):
                e = sy.rvalue(s["rv"])
                side = e[2][0][1].split("::")[-1] if e[2][0][0] == "agg" else "?"
                r, n = fpath(e[2][1])
                sides.append((side, src(r), n))
        sides += sorted(set(tagged))
        ok = ok and sorted(sides) == [("Left", "lhs", ("<Err>", "0")), ("Right", "rhs", ("<Err>", "0"))]
        why += "; error sides %s" % sorted((a, b) for a, b, c in sides)
        # every Ok payload is the result of that one comparison (no constant / pre-filtered answer)
        oks = []
        for bi, bj, s in f.stmts():
            if s["s"] == "assign" and s["rv"]["r"] == "agg" and s["rv"]["kind"].get("variant") == "Ok" and f.locals[s["lhs"]["l"]]["ty"].startswith("core::result::Result<u32"):
                oks.append(strip(sy.operand(s["rv"]["ops"][0])))
        good = [e for e in oks if e[0] == "call" and e[1].endswith("FuzzyHashData<S1, S2, true>>::compare") and e[3] == cmps[0][0]]
        if len(oks) != 1 or len(good) != 1:
            ok = False
            why += "; Ok payloads: %s" % [show(e)[:60] for e in oks]
    ctx.ob(R, "ssdeep::compare(lhs, rhs) = Ok(parse::<LongFuzzyHash>(lhs)?.compare(parse::<LongFuzzyHash>(rhs)?)) with Left/Right error tags", ok, why, f.loc())


def scan_guards_tight(ctx, prog):
    """has_common_substring_internal: each unsigned subtraction `a - K` that positions the scan is guarded by exactly
    `a >= K` on the same operands (the scan stops iff the next position would be negative) - a `>` here would silently
    skip the window at position 0.  A necessary condition for the pre-filter's exactness, not a proof of it."""
    f = prog.fn("BlockHashPositionArrayImplInternal::has_common_substring_internal")
    ctx.visit(f)
    sy = Sym(f)
    n = 0
    for i, j, s in f.stmts():
        if s["s"] != "assign":
            continue
        if s["rv"]["r"] == "bin" and s["rv"]["op"] in ("Sub", "SubWithOverflow", "SubUnchecked"):
            a, b = sy.operand(s["rv"]["a"]), sy.operand(s["rv"]["b"])
        elif s["rv"]["r"] == "use" and s["rv"]["a"].get("k") in ("copy", "move") and any(isinstance(x, dict) and "dc" in x for x in s["rv"]["a"]["pl"]["p"]):
            # `match a.checked_sub(K) { Some(next) => .. }`: the payload is `a - K` (Sym), present exactly when a >= K
            e = strip(sy.operand(s["rv"]["a"]))
            if not (e[0] == "bin" and e[1] == "Sub"):
                continue
            a, b = e[2], e[3]
        else:
            continue
        ca, cb = canon(strip(a)), canon(strip(b))
        if not (strip(b)[0] == "const" and (strip(b)[2] or "").endswith("MIN_LCS_FOR_COMPARISON")) or strip(a)[0] == "const":
            continue
        n += 1
        rel = None
        for c in path_conds(f, sy, i):
            at = bool_atom(c)
            if at and at[0] in ("Lt", "Le", "Gt", "Ge") and {canon(strip(at[1])), canon(strip(at[2]))} == {ca, cb}:
                op = at[0]
                if canon(strip(at[1])) == cb:  # K op a  -> flip
                    op = {"Lt": "Gt", "Le": "Ge", "Gt": "Lt", "Ge": "Le"}[op]
                rel = op
        ctx.ob("SA-GUARD", "has_common_substring_internal: `%s - MIN_LCS` is guarded by exactly `%s >= MIN_LCS`" % (show(a)[:40], show(a)[:40]), rel == "Ge",
               "guard found: %s" % rel, f.loc(s["sp"]))
    ctx.floor("SA-GUARD", n, 2, "scan-position subtractions in has_common_substring_internal")


def scan_exits(ctx, prog):
    """has_common_substring_internal: the only results are the constants true / false; `true` is returned exactly at the end of a
    window (`l == r`) whose running match is still alive (`d != 0`); `false` is returned only (a) before scanning, by the length
    tests, or (b) when no window is left (`l < MIN_LCS_FOR_COMPARISON` at the skip).  In particular a window that fails is never a
    reason to give up: the scan moves on.  A necessary condition of the pre-filter's exactness (the scan arithmetic itself is C09)."""
    from ..sym import path_conds, bool_atom, const_named
    f = prog.fn("BlockHashPositionArrayImplInternal::has_common_substring_internal")
    ctx.visit(f)
    sy = Sym(f)
    sites = []
    for i, j, s in f.stmts():
        if s["s"] == "assign" and s["lhs"]["l"] == 0 and not s["lhs"]["p"]:
            sites.append((i, strip(sy.rvalue(s["rv"]))))
    for i, t in f.calls():
        if t["dest"]["l"] == 0 and not t["dest"]["p"]:
            sites.append((i, strip(sy.call(t, i))))
    bad = []
    n_true = n_short = n_exh = 0
    for blk, e in sites:
        v = const_value(e) if e[0] == "const" else None
        if v is None:
            bad.append("non-constant result %s at bb%d" % (show(e)[:60], blk))
            continue
        pcs = path_conds(f, sy, blk)
        ats = [a for a in (bool_atom(c) for c in pcs) if a]
        scan = [a for a in ats if a[0] in ("Eq", "Ne", "Lt", "Le", "Gt", "Ge") and strip(a[1])[0] == "local"]
        if v == 1:
            n_true += 1
            # the running match is tested several times on the way (loop condition, window-end test): the LAST test before the exit - the one
            # whose branch is dominated by all the others - is the one that speaks about the value the exit sees
            dtests = [(c[3][0], a) for c, a in ((c, bool_atom(c)) for c in pcs) if a and a[0] in ("Eq", "Ne", "Lt", "Le", "Gt", "Ge") and strip(a[1])[0] == "local" and
                      f.locals[strip(a[1])[1]]["ty"] == "u64" and const_value(strip(a[2])) is not None and len(c) > 3]
            last = [x for x in dtests if all(f.dominates(y[0], x[0]) for y in dtests)]
            ok = any(a[0] == "Eq" and strip(a[1])[0] == "local" and strip(a[2])[0] == "local" for a in ats) and \
                bool(last) and all(x[1][0] == "Ne" and const_value(strip(x[1][2])) == 0 for x in last)
            if not ok:
                bad.append("true at bb%d not under `l == r && d != 0`: %s" % (blk, [G.show_atom(a) for a in scan][:4]))
        else:
            if not scan:
                n_short += 1   # the early exit of the length tests (checked by the short-input rule)
                continue
            exhausted = any(a[0] == "Lt" and strip(a[1])[0] == "local" and const_named(strip(a[2]), "block_hash::MIN_LCS_FOR_COMPARISON") for a in ats)
            window_end = any(a[0] == "Eq" and strip(a[1])[0] == "local" and strip(a[2])[0] == "local" for a in ats)
            if exhausted and not window_end:
                n_exh += 1
            else:
                bad.append("false at bb%d while windows remain: %s" % (blk, [G.show_atom(a) for a in scan][:4]))
    ok = not bad and n_true == 1 and n_short == 1 and n_exh == 1
    ctx.ob("SA-GUARD", "has_common_substring_internal: true only at a live window end, false only before scanning or when no window is left (a failed window is never a reason to stop)",
           ok, "; ".join(bad) or "results: 1 true (window end, d != 0), 1 false (length tests), 1 false (l < MIN_LCS)", f.loc())


def window_steps(ctx, prog):
    """the window iterators as step formulas (forward value numbering of the loop-free `next` bodies): a numeric window is
    ((previous << 6) | symbol) & (2^42 - 1) over the next symbol of the remaining slice, which then loses that symbol; an index window
    is the numeric window with the effective block size in the bits above it (| log << 42); nothing else is stored or returned"""
    from .. import vn
    import re
    RF = "SA-FORMULA"
    f = prog.get("<internals::hash::block::block_hash::NumericWindows<'_> as core::iter::Iterator>::next")
    if f is None:
        return ctx.ob(RF, "NumericWindows::next exists", False, "not found")
    ctx.visit(f)
    fw = vn.Forward(f)
    stores = [(canon(strip(p)), canon(strip(v))) for (b, kind, p, v) in fw.events if kind == "store"]
    ITEM = "(core::slice::<impl [T]>::split_first(init:self.v) as Some).0"
    W = "BitAnd(BitOr(Shl(init:self.hash,internals::hash::block::block_hash::NumericWindows::<'a>::ILOG2_OF_ALPHABETS=6),(%s.0 as u64)),internals::hash::block::block_hash::NumericWindows::<'a>::MASK=4398046511103)" % ITEM
    want = sorted([("param:self.hash", W), ("param:self.v", ITEM + ".1")])
    ok = sorted(stores) == want
    ctx.ob(RF, "NumericWindows::next: hash := ((hash << 6) | next symbol) & MASK(42 bits), v := rest - and nothing else is stored", ok,
           "stores %s" % [(p, v[:90]) for p, v in stores], f.loc())
    try:
        M, L = fw.final_memory()
        ret = canon(strip(L.get(0, ("unknown", ""))))
    except ValueError as ex:
        ret = "?(%s)" % ex
    ok = ret.startswith("phi(") and ("core::option::Option::Some{%s}" % W) in ret and "core::option::Option::None{}" in ret and ret.count("Option::") == 2
    ctx.ob(RF, "NumericWindows::next returns Some(the new window) when a symbol is left and None otherwise", ok, ret[:200], f.loc())
    g = prog.get("<internals::hash::block::block_hash::IndexWindows<'_> as core::iter::Iterator>::next")
    if g is None:
        return ctx.ob(RF, "IndexWindows::next exists", False, "not found")
    ctx.visit(g)
    sy = Sym(g)
    e = strip(sy.local(0))
    ok = False
    why = show(e)[:160]
    if e[0] == "call" and e[1].endswith("Option::<T>::map") and len(e[2]) == 2:
        a0, cl = strip(e[2][0]), strip(e[2][1])
        ok = a0[0] == "call" and a0[1].endswith("NumericWindows<'_> as core::iter::Iterator>::next") and canon(strip(a0[2][0])) == "param:self.inner" and \
            cl[0] == "agg" and cl[1].startswith("Closure:") and [canon(strip(x)) for x in cl[2]] == ["param:self.log_block_size"]
        if ok:
            h = prog.get(cl[1][len("Closure:"):])
            ce = canon(strip(Sym(h).local(0))) if h else ""
            ok = re.match(r"^BitOr\(param:\w+,Shl\(\(param:\w*1\.0 as u64\),internals::hash::block::block_hash::NumericWindows::<'a>::BITS=42\)\)$", ce) is not None
            why += "; closure %s" % ce[:120]
    if not ok:
        # the same function with `map` written out as a match
        from ..sym import path_conds
        some, none, other = [], [], []
        for i, j, st in g.stmts():
            if st["s"] == "assign" and st["lhs"]["l"] == 0 and not st["lhs"]["p"]:
                v = canon(strip(sy.rvalue(st["rv"])))
                ds = [c for c in path_conds(g, sy, i) if strip(c[0])[0] == "discr"]
                is_some = any((c[1] == "in" and sorted(c[2]) == [1]) or (c[1] == "notin" and sorted(c[2]) == [0]) for c in ds)
                N = "<internals::hash::block::block_hash::NumericWindows<'_> as core::iter::Iterator>::next(param:self.inner)"
                if v == "core::option::Option::Some{BitOr((%s as Some).0,Shl((param:self.log_block_size as u64),internals::hash::block::block_hash::NumericWindows::<'a>::BITS=42))}" % N and is_some:
                    some.append(i)
                elif v == "core::option::Option::None{}" and ds and not is_some:
                    none.append(i)
                else:
                    other.append(v[:80])
        if len(some) == 1 and len(none) == 1 and not other:
            ok = True
            why = "match form: Some(w | log << 42) on Some, None on None"
    ctx.ob(RF, "IndexWindows::next = inner.next().map(|w| w | (log_block_size << 42))", ok, why, g.loc())


def distance_exits(ctx, prog):
    """edit_distance_internal: the frame around the bit-parallel recurrence - one result, `len(self) + len(other) - 2 * zeros(v)`, v
    starting as all ones and carried over EVERY symbol of `other` (no early result, no skipped prefix).  The recurrence itself is C08."""
    import re
    f = prog.fn("BlockHashPositionArrayImplInternal::edit_distance_internal")
    ctx.visit(f)
    sy = Sym(f)
    res = []
    for i, j, s in f.stmts():
        if s["s"] == "assign" and s["lhs"]["l"] == 0 and not s["lhs"]["p"]:
            res.append(re.sub(r"::<[^()]*>\(", "(", canon(strip(sy.rvalue(s["rv"])))))
    for i, t in f.calls():
        if t["dest"]["l"] == 0 and not t["dest"]["p"]:
            res.append("call " + callee_of(t))
    res = [re.sub(r"^\((\w+)WithOverflow\((.*)\)\)\.0$", r"\1(\2)", r) for r in res]
    m = None
    if len(res) == 1:
        Z = r"core::num::<impl u64>::count_zeros\(local:\w+_(\d+)\)"
        m = re.match(r"^Sub\(Add\(\(internals::compare::position_array::BlockHashPositionArrayData::len\(param:self\) as u32\),\(core::slice::<impl \[T\]>::len\(param:other\) as u32\)\),(?:Mul\(2,%s\)|Mul\(%s,2\)|Shl\(%s,1\))\)$" % (Z, Z, Z), res[0])
    ok = m is not None
    why = "results: %s" % [r[:140] for r in res]
    if ok:
        v = int([g for g in m.groups() if g is not None][0])
        ds = [canon(strip(sy.rvalue(x))) if k == "rv" else "call" for (b, _i, k, x) in f.defs.get(v, [])]
        inits = [d for d in ds if "local:%s_%d" % (f.locals[v]["name"], v) not in d]
        ok = len(inits) == 1 and (inits[0] == "Not(0)" or inits[0].endswith("=18446744073709551615") or inits[0] == "18446744073709551615") and len(ds) == 2
        why = "accumulator definitions %s" % [d[:60] for d in ds]
        srcs = [re.sub(r"^<I as core::iter::IntoIterator>::into_iter\((.*)\)$", r"\1", canon(strip(sy.origin(strip(sy.operand(t["args"][0])))))) for i, t in f.calls() if callee_of(t).endswith("::next")]
        # `for x in other` (IntoIterator for &[T]) is `for x in other.iter()`
        srcs = [re.sub(r"^core::slice::iter::<impl core::iter::IntoIterator for &'a \[T\]>::into_iter\(", "core::slice::<impl [T]>::iter(", x) for x in srcs]
        ok = ok and srcs == ["core::slice::<impl [T]>::iter(param:other)"]
        why += "; walks %s" % srcs
    ctx.ob("SA-FORMULA", "edit_distance_internal: single result len(self)+len(other)-2*zeros(v), v from all-ones over every symbol of `other`", ok, why, f.loc())


def _comm(e, op, pred_a, pred_b):
    """e is the commutative binary operation/call `op` over two operands satisfying pred_a / pred_b in either order"""
    e = strip(e)
    ops = None
    if e[0] == "bin" and e[1] == op:
        ops = (e[2], e[3])
    elif e[0] == "call" and e[1].endswith("::" + op) and len(e[2]) == 2:
        ops = (e[2][0], e[2][1])
    if ops is None:
        return False
    return (pred_a(ops[0]) and pred_b(ops[1])) or (pred_a(ops[1]) and pred_b(ops[0]))


def recurrence_steps(ctx, prog):
    """the two bit-parallel loops as STEP formulas (what one iteration does to the carried word), not as what they compute (C08/C09):
    edit distance: v' = (v + (E & v)) | (v - (E & v)) in wrapping arithmetic, E = mask of this symbol of `other`;
    substring scan: d starts as mask[other[l]], d' = (d << 1) & mask[other[l]] read AFTER l was advanced by exactly 1, the window end is
    l + (MIN_LCS - 1), the scan starts at len(other) - MIN_LCS and skips back by MIN_LCS."""
    import re
    R = "SA-FORMULA"
    # ---- edit distance
    f = prog.fn("BlockHashPositionArrayImplInternal::edit_distance_internal")
    ctx.visit(f)
    sy = Sym(f)
    ok = False
    why = "no carried u64 word"
    for l, ds in f.defs.items():
        if f.locals[l]["ty"] != "u64" or len(ds) != 2:
            continue
        upd = [strip(sy.rvalue(x)) for (b, _i, k, x) in ds if k == "rv" and const_value(strip(sy.rvalue(x))) is None and canon(strip(sy.rvalue(x))) != "Not(0)"]
        if len(upd) != 1:
            continue
        u = upd[0]

        def is_v(x, l=l):
            x = strip(x)
            return x[0] == "local" and x[1] == l

        def is_e(x):
            t = re.sub(r"::<[^()\[\]]*>\(", "(", canon(strip(x)))
            return re.match(r"^internals::compare::position_array::BlockHashPositionArrayData::representation\(param:self\)\[\(.*Iterator>::next\(local:\w+\) as Some\)\.0 as usize\)\]$", t) is not None

        def is_p(x):
            return _comm(x, "BitAnd", is_e, is_v)

        def is_add(x):
            return _comm(x, "wrapping_add", is_v, is_p)

        def is_sub(x):
            x = strip(x)
            return x[0] == "call" and x[1].endswith("::wrapping_sub") and len(x[2]) == 2 and is_v(x[2][0]) and is_p(x[2][1])
        def is_clear(x):
            # v - (E & v) clears exactly the bits of E in v: `v & !E` is the same word (the form of the published recurrence)
            def not_e(y):
                y = strip(y)
                return y[0] == "un" and y[1] == "Not" and is_e(y[2])
            return _comm(x, "BitAnd", is_v, not_e)
        ok = _comm(u, "BitOr", is_add, lambda x: is_sub(x) or is_clear(x))
        why = "v' = %s" % re.sub(r"internals::compare::position_array::BlockHashPositionArrayData::|core::num::<impl u64>::|<core::slice::Iter<'a, T> as core::iter::Iterator>::", "", canon(u))[:260]
        break
    ctx.ob(R, "edit_distance_internal step: v' = (v +w (E & v)) | (v -w (E & v)) [or | (v & !E), the same word], E = mask of the current symbol of `other`", ok, why, f.loc())
    # ---- substring scan
    g = prog.fn("BlockHashPositionArrayImplInternal::has_common_substring_internal")
    ctx.visit(g)
    sy = Sym(g)
    MIN = r"internals::hash::block::block_hash::MIN_LCS_FOR_COMPARISON=7"
    byname = {}
    for l, ds in g.defs.items():
        vals = []
        for (b, _i, k, x) in ds:
            vals.append((b, re.sub(r"::<[^()\[\]]*>\(", "(", canon(strip(sy.rvalue(x)))) if k == "rv" else "call"))
        byname[l] = vals
    # the position variable: three definitions (start, +1, -MIN)
    pos = [l for l, vs in byname.items() if g.locals[l]["ty"] == "usize" and len(vs) == 3]
    ok = False
    why = "position variable not found (usize with start / +1 / -MIN_LCS definitions): %s" % {g.locals[l]["name"]: [v for _, v in vs] for l, vs in byname.items() if len(vs) > 1}
    if len(pos) == 1:
        l = pos[0]
        me = "local:%s_%d" % (g.locals[l]["name"] or "", l)
        vs = byname[l]
        want = {"Sub(core::slice::<impl [T]>::len(param:other),%s)" % MIN: "start", "Add(%s,1)" % me: "inc", "Sub(%s,%s)" % (me, MIN): "skip"}
        roles = {want.get(v): b for b, v in vs}
        ok = set(roles) == {"start", "inc", "skip"}
        why = "position steps %s" % [v for _, v in vs]
        if ok:
            mask = "internals::compare::position_array::BlockHashPositionArrayData::representation(param:self)[(param:other[%s] as usize)]" % me
            dd = [ll for ll, vs2 in byname.items() if g.locals[ll]["ty"] == "u64" and len(vs2) == 2]
            ok = False
            why += "; no carried u64 word with two definitions"
            for d in dd:
                dme = "local:%s_%d" % (g.locals[d]["name"] or "", d)
                vs2 = byname[d]
                init = [b for b, v in vs2 if v == mask]
                step = [b for b, v in vs2 if v in ("BitAnd(Shl(%s,1),%s)" % (dme, mask), "BitAnd(%s,Shl(%s,1))" % (mask, dme))]
                if len(init) == 1 and len(step) == 1:
                    # the step reads other[l] after l was advanced: the +1 block dominates the step block, and no other definition of l
                    # lies between them
                    inc_b, step_b = roles["inc"], step[0]
                    after = g.dominates(inc_b, step_b)
                    # window end: l + (MIN - 1), defined in the block that (re)loads d
                    ends = [v for ll, vs3 in byname.items() for b, v in vs3 if v in ("Add(%s,Sub(%s,1))" % (me, MIN), "Add(%s,6)" % me, "Add(Sub(%s,1),%s)" % (MIN, me))]
                    # the inner loop runs exactly while the running match is alive: every test of d against a constant on the way to the step
                    # is `d != 0`
                    from ..sym import path_conds as _pc, bool_atom as _ba
                    dconds = []
                    for c in _pc(g, sy, step_b):
                        a = _ba(c)
                        if a and a[0] != "truth" and strip(a[1])[0] == "local" and strip(a[1])[1] == d and const_value(strip(a[2])) is not None:
                            dconds.append((a[0], const_value(strip(a[2]))))
                    alive = bool(dconds) and all(x == ("Ne", 0) for x in dconds)
                    ok = after and len(ends) == 1 and alive
                    why = "d: init mask[other[l]], step (d << 1) & mask[other[l]] %s the `l + 1` of the same round; window end %s; loop tests on d: %s" % ("after" if after else "NOT dominated by", ends, dconds)
                    break
                why += "; %s: %s" % (g.locals[d]["name"], [v[:90] for _, v in vs2])
    ctx.ob(R, "has_common_substring_internal steps: l = len(other) - MIN_LCS, l + 1, l - MIN_LCS; d = mask[other[l]], d' = (d << 1) & mask[other[l]] after the advance; window end l + (MIN_LCS - 1)", ok, why[:600], g.loc())
