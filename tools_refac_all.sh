#!/bin/sh
# evaluate refactoring corpora (directories under /verif, e.g. benign3) against a FROZEN snapshot of /verif's HEAD, six areas in parallel
# usage: tools_refac_all.sh <logdir> <corpus>... [-- extra args for tools_refac_eval.py]
LOG=$1; shift
SNAP=/tmp/verif-snap-$$
git -C /verif worktree add -q --detach $SNAP HEAD
export VERIF_CHECK_DIR=$SNAP VERIF_DRIVER=${VERIF_DRIVER:-/verif/driver/target/release/ffz-mir}
mkdir -p $LOG
for c in "$@"; do
  for a in gen parse hash dual cmp pos; do
    ( /verif/tools_refac_eval.py /verif/$c/$a > $LOG/$c.$a.log 2>&1 ) &
  done
  wait
done
git -C /verif worktree remove --force $SNAP
echo finished > $LOG/done
