"""C02 — the score: which strings are compared at which effective block size, on every entry point (not the score value)."""
from ..rules import effbs, blocksize, convert, typestate, casts, vis, summary, features, beliefs, eqord, data, validate

EXPL = ("Decides (SA-EFFBS, dimension analysis over MIR): at every scorer call site whose operands are block hashes of hash objects "
        "(FuzzyHashCompareTarget::compare* relation-specific variants, FuzzyHashData::compare via compare_optimized_internal) the two "
        "strings have the same effective block size log(o)+(k-1) under the relation established there (assert!/debug_assert! of "
        "is_near_X or the arm of match compare_sizes), and the block size handed to the scorer is that effective size (so bh2 is scored "
        "at log+1); per relation the scored pairs are exactly ssdeep's - equal sizes {(1,1),(2,2)} combined by max, double {(2,1)}, half "
        "{(1,2)}; dispatchers call the matching variant with (self, other) in order; far -> constant 0; identical -> 100 before any "
        "scoring; a missing common substring short-circuits to 0 before the edit distance; below the capping border (4) the result is "
        "min(raw, cap), from the border upward the raw score; raw-score and cap formula trees equal the documented formulas "
        "(SA-FORMULA); the string front end parses both sides as LongFuzzyHash and calls compare; the position arrays that the scorer reads "
        "are built on cleared masks at every call site (SA-TYPESTATE: a re-used comparison target or the temporary arrays of "
        "FuzzyHashData::compare never carry bits of another hash) and the views pair mask K with length K. NOT decided: the value of the edit "
        "distance (C08) and of the common-substring test (C09).")


def run(ctx):
    cfgs = ["dbg", "rel", "unchecked"] if ctx.tier == "quick" else ["dbg", "rel", "unsafe_dbg", "unsafe", "strict_dbg", "unchecked", "nodef"]
    ctx.progs(cfgs)  # build all configurations in parallel
    for c in cfgs:
        prog = ctx.prog(c)
        if c.endswith("dbg"):
            ctx.guard("C02", "pairings", lambda: effbs.pairings(ctx, prog))
        ctx.guard("C02", "dispatch", lambda: effbs.dispatchers(ctx, prog))
        ctx.guard("C02", "pipeline", lambda: effbs.scorer_pipeline(ctx, prog))
        ctx.guard("C02", "scan", lambda: effbs.scan_guards_tight(ctx, prog))
        ctx.guard("C02", "scan-exits", lambda: effbs.scan_exits(ctx, prog))
        ctx.guard("C02", "recurrences", lambda: effbs.recurrence_steps(ctx, prog))
        ctx.guard("C02", "cap", lambda: blocksize.score_cap(ctx, prog))
        ctx.guard("C02", "raw", lambda: blocksize.raw_score(ctx, prog))
        ctx.guard("C02", "relations", lambda: blocksize.relation_predicates(ctx, prog))
        ctx.guard("C02", "typestate", lambda: typestate.clear_before_accumulate(ctx, prog))
        ctx.guard("C02", "views", lambda: typestate.views_are_like_indexed(ctx, prog))
        ctx.guard("C02", "equiv", lambda: typestate.equiv_exact(ctx, prog))
        ctx.guard("C02", "accumulate", lambda: typestate.accumulate_exact(ctx, prog))
        if c == "unchecked":
            # the `_unchecked` forms of the comparison API are their `_internal` bodies (a re-implemented twin is a second, unchecked implementation)
            ctx.guard("C02", "twins", lambda: features.twins(ctx, prog, scope='internals::compare::|position_array::', floor=8))
        ctx.guard("C02", "distance-exits", lambda: effbs.distance_exits(ctx, prog))
        ctx.guard("C02", "full-eq", lambda: eqord.full_eq(ctx, prog))
        ctx.guard("C02", "traits", lambda: vis.trait_census(ctx, prog, scope='position_array::|FuzzyHashCompareTarget'))
        ctx.guard("C02", "casts", lambda: casts.census(ctx, prog, scope='internals::compare::', floor=3))
        if c not in ("nodef",):
            ctx.guard("C02", "easy", lambda: effbs.string_front_end(ctx, prog))
        ctx.guard("C02", "const values", lambda: data.const_census(ctx, prog, data.CONST_SCOPES["C02"], floor=1))
        ctx.guard("C02", "panic conditions", lambda: beliefs.live_census(ctx, prog, beliefs.SCOPES["C02"][0]))
        ctx.guard("C02", "element-asserts", lambda: validate.element_range_asserts(ctx, prog))
        ctx.guard("C02", "initialisers", lambda: typestate.initialisers_complete(ctx, prog))
        ctx.guard("C02", "summaries", lambda: summary.check(ctx, prog, 'internals::compare::|compare_easy::', floor=10))
        ctx.guard("C02", "path summaries", lambda: summary.check_paths(ctx, prog, 'internals::compare::|compare_easy::', floor=25))
        if c in ("dbg", "unsafe_dbg", "strict_dbg"):
            ctx.guard("C02", "beliefs", lambda: beliefs.census(ctx, prog, beliefs.SCOPES["C02"][0], floor=beliefs.SCOPES["C02"][1]))
    return ctx.finish(EXPL, ["relation beliefs are read from configurations with debug assertions on (they are pruned in release MIR)", "edit distance and common-substring kernels are exact (C08/C09, not decided here)"])
