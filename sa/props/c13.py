"""C13 — size limits and block-size choice: the borders (structural clauses only)."""
from ..rules import generator as gen, engine, piece, casts, summary, beliefs, data

EXPL = ("Decides the *borders* named in the property from the exact branch conditions in MIR with rustc-evaluated constants: "
        "set_fixed_input_size refuses exactly size > 192 GiB (206158430208); finalisation returns InputSizeTooLarge exactly for "
        "input_size > 192 GiB and that test lies on every path to Ok; may_warn_about_small_input_size is `declared-or-processed < 4097`; "
        "the initial block-size index keeps `start` exactly for size <= 64*3 and is max(start, ilog2((size-1)/192)+1) otherwise, with "
        "the unit being the same const fn that defines MAX_INPUT_SIZE at index 30 ((3<<n)*64); SA-STEP: block-size elimination in all three "
        "update forms requires two active contexts, the size border passed and the NEXT context holding >= HALF_SIZE pieces, and the final "
        "guess halves exactly while the candidate context has < HALF_SIZE pieces (same named constant), starting from "
        "min(size-based index, bhidx_end-1); the level walk starts only when roll+1 != 0, ((roll+1)/3)&roll_mask == 0 and (roll+1)%3 == 0, "
        "with h shifted by bhidx_start once and by 1 per level, continuing only while the level bit is clear; the digest takes block "
        "hash 1 from context L, block hash 2 from context L+1 (or the two single-piece sources) and the block size from L; the dedicated last-piece hash "
        "is started exactly at a first piece beyond the fork limit when that limit is the largest block size and not yet started, is fed "
        "every byte while active, and is what block hash 2 takes when there is no next context and L > 0 (step table / digest rows). NOT decided: the block-size choice "
        "and the last-piece hash as values at large indices (arithmetic over the input). Configuration msrv (the branches build.rs selects for rustc < 1.67): "
        "the hand-written u64_ilog2 is 63 - leading_zeros(value) (SA-FORMULA, linear form over the one call).")


def run(ctx):
    cfgs = ["rel", "unsafe"] if ctx.tier == "quick" else ["rel", "dbg", "unsafe", "nodef"]
    ctx.progs(cfgs + ["msrv"])  # build all configurations in parallel
    for c in cfgs:
        prog = ctx.prog(c)
        ctx.guard("C13", "set_fixed", lambda: gen.guards_set_fixed(ctx, prog))
        ctx.guard("C13", "finalize", lambda: gen.guards_finalize(ctx, prog, need=("toolarge",)))
        ctx.guard("C13", "delegate", lambda: gen.finalizers_delegate(ctx, prog))
        ctx.guard("C13", "small", lambda: gen.guard_small_input(ctx, prog))
        ctx.guard("C13", "initial", lambda: gen.guard_initial_block_size(ctx, prog))
        ctx.guard("C13", "step", lambda: engine.step_thresholds(ctx, prog))
        ctx.guard("C13", "trigger", lambda: engine.trigger_and_levels(ctx, prog))
        ctx.guard("C13", "digest", lambda: engine.digest_sources(ctx, prog))
        ctx.guard("C13", "digest-last", lambda: piece.digest_last_piece(ctx, prog))
        ctx.guard("C13", "init", lambda: piece.initial_state(ctx, prog))
        ctx.guard("C13", "reset", lambda: gen.reset_equals_new(ctx, prog))
        ctx.guard("C13", "reset-side", lambda: gen.reset_side_conditions(ctx, prog))
        ctx.guard("C13", "casts", lambda: casts.census(ctx, prog, scope='internals::generate::', floor=3))
        if not c.startswith("unsafe"):
            ctx.guard("C13", "piece", lambda: piece.piece_effects(ctx, prog))
        else:
            # the pointer engine of `unsafe` is tied to the index engine (SA-ENGINEMAP) and its caches to their fields (SA-MIRROR)
            base = ctx.prog("rel")
            ctx.guard("C13", "mirror", lambda: engine.mirror(ctx, prog))
            ctx.guard("C13", "cursor", lambda: engine.pointer_cursor(ctx, prog))
            ctx.guard("C13", "enginemap", lambda: engine.engine_correspondence(ctx, base, prog))
        ctx.guard("C13", "const values", lambda: data.const_census(ctx, prog, data.CONST_SCOPES["C13"], floor=1))
        ctx.guard("C13", "panic conditions", lambda: beliefs.live_census(ctx, prog, beliefs.SCOPES["C13"][0]))
        ctx.guard("C13", "overflow-borders", lambda: gen.overflow_borders(ctx, prog))
        ctx.guard("C13", "summaries", lambda: summary.check(ctx, prog, 'internals::generate::Generator', floor=5))
        ctx.guard("C13", "path summaries", lambda: summary.check_paths(ctx, prog, 'internals::generate::Generator', floor=2))
        if c in ("dbg", "unsafe_dbg", "strict_dbg"):
            ctx.guard("C13", "beliefs", lambda: beliefs.census(ctx, prog, beliefs.SCOPES["C13"][0], floor=beliefs.SCOPES["C13"][1]))
    # the version-gated twin of the logarithm behind the size-based block-size index (selected by build.rs, not by a cargo feature)
    msrv = ctx.prog("msrv")
    ctx.guard("C13", "ilog2 fallback", lambda: gen.ilog2_fallback(ctx, msrv))
    return ctx.finish(EXPL, ["rustc's compile-time evaluation of MAX_INPUT_SIZE / MIN_RECOMMENDED_INPUT_SIZE", "core's u64::ilog2 / leading_zeros compute what their documentation says"])
