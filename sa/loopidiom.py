"""Loop idioms written out by hand are read as the library call they spell.

`for x in &mut s { *x = C }` / `for x in s.iter_mut() { *x = C }` is `s.fill(C)`: every element the iterator yields is overwritten
with the same constant before the next one is taken, nothing else happens in the loop, and the loop ends only when the iterator is
exhausted.  The rules that classify writers (typestate `clear`, tail rules, summaries) are written against `fill`; the loop is rewritten
into that call at the MIR level (the blocks of the loop become unreachable), so the two spellings are one thing for every rule.
Only this exact shape is rewritten: anything else in the loop body, a non-constant value, or another use of the iterator keeps the loop."""


def _res(t):
    return t.get("resolved") or t.get("callee") or ""


def _plain(o, l=None):
    return o and o.get("k") in ("copy", "move") and not o["pl"]["p"] and (l is None or o["pl"]["l"] == l)


def _fill_loops(fn):
    blocks = fn["blocks"]
    n = 0
    preds = {}
    for i, b in enumerate(blocks):
        t = b["term"]
        tos = []
        if t["t"] == "goto":
            tos = [t["to"]]
        elif t["t"] == "switch":
            tos = [a[1] for a in t["arms"]] + ([t["otherwise"]] if t.get("otherwise") is not None else [])
        elif t["t"] in ("call", "drop", "assert"):
            tos = [t.get("to")] + ([t.get("unwind")] if t.get("unwind") is not None else [])
        for x in tos:
            if x is not None:
                preds.setdefault(x, []).append(i)
    for h, hb in enumerate(blocks):
        ht = hb["term"]
        if ht["t"] != "call" or not _res(ht).endswith("IterMut<'a, T> as core::iter::Iterator>::next") or ht.get("to") is None:
            continue
        # header: only reborrows of the iterator local
        it = None
        ok = True
        refs = {}
        for s in hb["stmts"]:
            if s["s"] == "assign" and not s["lhs"]["p"] and s["rv"]["r"] == "ref" and s["rv"].get("mut"):
                src = s["rv"]["pl"]
                if not src["p"]:
                    refs[s["lhs"]["l"]] = src["l"]
                elif src["p"] == ["*"] and src["l"] in refs:
                    refs[s["lhs"]["l"]] = refs[src["l"]]
                else:
                    ok = False
            elif s["s"] in ("storage_live", "storage_dead", "nop"):
                continue
            else:
                ok = False
        a0 = ht["args"][0] if ht["args"] else None
        if not ok or not _plain(a0) or a0["pl"]["l"] not in refs:
            continue
        it = refs[a0["pl"]["l"]]
        opt = ht["dest"]
        if opt["p"]:
            continue
        sb = blocks[ht["to"]]
        st = sb["term"]
        if st["t"] != "switch" or len(sb["stmts"]) != 1:
            continue
        ds = sb["stmts"][0]
        if not (ds["s"] == "assign" and ds["rv"]["r"] == "discr" and ds["rv"]["pl"]["l"] == opt["l"] and not ds["rv"]["pl"]["p"] and _plain(st["on"], ds["lhs"]["l"])):
            continue
        arms = dict((a[0], a[1]) for a in st["arms"])
        if set(arms) != {"0", "1"}:
            continue
        exit_b, body_b = arms["0"], arms["1"]
        bb = blocks[body_b]
        if bb["term"]["t"] != "goto" or bb["term"]["to"] != h:
            continue
        x = None
        val = None
        bad = False
        for s in bb["stmts"]:
            if s["s"] != "assign":
                continue
            lhs, rv = s["lhs"], s["rv"]
            if not lhs["p"] and rv["r"] == "use" and rv["a"].get("k") in ("move", "copy") and rv["a"]["pl"]["l"] == opt["l"] and len(rv["a"]["pl"]["p"]) == 2 and x is None:
                x = lhs["l"]
            elif x is not None and lhs["l"] == x and lhs["p"] == ["*"] and rv["r"] == "use" and rv["a"].get("k") == "const" and val is None:
                val = rv["a"]
            elif not lhs["p"] and lhs.get("ty") == "()" and rv["r"] == "use" and rv["a"].get("k") == "const":
                continue
            else:
                bad = True
        if bad or x is None or val is None:
            continue
        entry = [p for p in set(preds.get(h, [])) if p != body_b]
        if len(entry) != 1:
            continue
        pb = blocks[entry[0]]
        # entry block: `IT = move T; goto H` preceded by a block ending in `T = into_iter(SRC)` / `iter_mut(SRC)`; or that call directly
        call_b = None
        if pb["term"]["t"] == "goto":
            mv = [s for s in pb["stmts"] if s["s"] == "assign"]
            if len(mv) != 1 or mv[0]["lhs"]["l"] != it or mv[0]["lhs"]["p"] or mv[0]["rv"]["r"] != "use" or not _plain(mv[0]["rv"]["a"]):
                continue
            tmp = mv[0]["rv"]["a"]["pl"]["l"]
            cands = [i for i, b in enumerate(blocks) if b["term"]["t"] == "call" and b["term"].get("to") == entry[0] and not b["term"]["dest"]["p"] and b["term"]["dest"]["l"] == tmp]
            if len(cands) != 1 or set(preds.get(entry[0], [])) != {cands[0]}:
                continue
            call_b = cands[0]
        elif pb["term"]["t"] == "call" and pb["term"].get("to") == h and not pb["term"]["dest"]["p"] and pb["term"]["dest"]["l"] == it:
            call_b = entry[0]
        else:
            continue
        ct = blocks[call_b]["term"]
        r = _res(ct)
        if not (r.endswith("IntoIterator for &'a mut [T]>::into_iter") or r.endswith("core::slice::<impl [T]>::iter_mut")) or len(ct["args"]) != 1:
            continue
        # the iterator and the yielded reference are used nowhere else
        uses = 0
        txt_it = '"l": %d,' % it
        import json
        for i, b in enumerate(blocks):
            if i in (h, entry[0], call_b):
                continue
            if txt_it in json.dumps(b):
                uses += 1
        if uses:
            continue
        unit = len(fn["locals"])
        fn["locals"].append({"ty": "()", "name": None, "mut": True})
        blocks[call_b]["term"] = {"t": "call", "callee": "core::slice::<impl [T]>::fill", "resolved": "core::slice::<impl [T]>::fill", "local": False,
                                  "gargs": ct.get("gargs", []), "args": [ct["args"][0], val], "dest": {"l": unit, "p": [], "ty": "()"},
                                  "to": exit_b, "fop": None, "sp": bb["stmts"][0]["sp"] if bb["stmts"] else ct["sp"], "loop_idiom": "fill"}
        n += 1
    return n


def _into_as_from(fn):
    """`x.into()` through the blanket `impl<T, U: From<T>> Into<U> for T` is `U::from(x)`: the call is renamed to the `From` impl it runs"""
    n = 0
    for b in fn["blocks"]:
        t = b["term"]
        if t.get("t") == "call" and _res(t) == "<T as core::convert::Into<U>>::into" and len(t.get("gargs") or []) == 2 and len(t["args"]) == 1:
            T, U = t["gargs"]
            t["callee"] = "core::convert::From::from"
            t["resolved"] = "<%s as core::convert::From<%s>>::from" % (U, T)
            t["gargs"] = [U, T]
            n += 1
    return n


def run(d):
    out = []
    for fn in d["fns"]:
        try:
            k = _fill_loops(fn)
        except Exception:
            k = 0
        if k:
            out.append((fn["path"], "fill", k))
        k = _into_as_from(fn)
        if k:
            out.append((fn["path"], "into() as From::from", k))
    return out
