"""RLE encoding formulas (C07): encode/decode are an inverse pair by shape; the encoder emits 4,4,..,remainder groups;
the compressor hands the encoder (position of the last kept symbol, run length)."""
from ..sym import Sym, strip, show, canon, match, const_value, is_param
from ..mir import callee_of
from .data import scalar

R = "SA-FORMULA"


def encoding(ctx, prog):
    ctx.rule(R, "the returned expression tree (single-assignment temporaries expanded, casts ignored, commutative operands unordered) equals the documented formula")
    bp, mp, br, mr, term = (scalar(prog, "rle_encoding::BITS_POSITION"), scalar(prog, "rle_encoding::MASK_POSITION"), scalar(prog, "rle_encoding::BITS_RUN_LENGTH"),
                            scalar(prog, "rle_encoding::MAX_RUN_LENGTH"), scalar(prog, "rle_encoding::TERMINATOR"))
    ctx.ob("SA-DATA", "RLE constants: 6 position bits + 2 length bits, mask 63, max run 4, terminator 0", (bp, mp, br, mr, term) == (6, 63, 2, 4, 0) and mp == (1 << bp) - 1 and mr == 1 << br and bp + br == 8,
           "BITS_POSITION=%d MASK=%d BITS_RUN_LENGTH=%d MAX_RUN_LENGTH=%d TERMINATOR=%d" % (bp, mp, br, mr, term))
    f = prog.fn("rle_encoding::encode")
    ctx.visit(f)
    e = Sym(f).local(0)
    BP = ("named", "rle_encoding::BITS_POSITION", 6)
    ok = match(e, ("bin", "BitOr", ("param", "pos"), ("bin", "Shl", ("bin", "Sub", ("param", "len"), ("v", 1)), BP)))
    ctx.ob(R, "rle_encoding::encode(pos, len) = pos | ((len - 1) << BITS_POSITION)", ok, show(e), f.loc())
    g = prog.fn("rle_encoding::decode")
    ctx.visit(g)
    e = strip(Sym(g).local(0))
    ok = e[0] == "agg" and len(e[2]) == 2 and match(e[2][0], ("bin", "BitAnd", ("param", "value"), ("named", "rle_encoding::MASK_POSITION", 63))) and \
        match(e[2][1], ("bin", "Add", ("bin", "Shr", ("param", "value"), BP), ("v", 1)))
    ctx.ob(R, "rle_encoding::decode(v) = (v & MASK_POSITION, (v >> BITS_POSITION) + 1)  (inverse of encode for 1<=pos<=63, 1<=len<=4)", ok, show(e), g.loc())
    # the encoder: groups of MAX_RUN_LENGTH then the remainder
    u = prog.fn("hash_dual::algorithms::update_rle_block")
    ctx.visit(u)
    sy = Sym(u)
    MS = ("named", "block_hash::MAX_SEQUENCE_SIZE", 3)
    MR = ("named", "rle_encoding::MAX_RUN_LENGTH", 4)
    ext = ("bin", "Sub", ("bin", "Sub", ("param", "len"), MS), ("v", 1))
    fill = ("bin", "Div", ext, MR)
    ret = sy.local(0)
    ok = match(ret, ("bin", "Add", ("bin", "Add", ("param", "rle_offset"), fill), ("v", 1)))
    ctx.ob(R, "update_rle_block returns rle_offset + (len - MAX_SEQ - 1)/4 + 1", ok, show(ret)[:160], u.loc())
    okf = oke = False
    whyf = whye = ""
    for i, t in u.calls():
        if callee_of(t).split("::")[-1] == "fill":
            dst = strip(sy.operand(t["args"][0]))
            val = sy.operand(t["args"][1])
            whyf = "%s <- %s" % (show(dst)[:140], show(val)[:80])
            if dst[0] == "call" and dst[1].split("::")[-1] == "index_mut":
                rg = strip(dst[2][1])
                okf = is_param(dst[2][0], "rle_block") and rg[0] == "agg" and rg[1].endswith("Range::Range") and match(rg[2][0], ("param", "rle_offset")) and \
                    match(rg[2][1], ("bin", "Add", ("param", "rle_offset"), fill)) and match(val, ("call", "rle_encoding::encode", [("param", "pos"), MR]))
    for i, j, s in u.stmts():
        if s["s"] == "assign" and s["lhs"]["l"] == 1 and any(isinstance(x, dict) and "ix" in x for x in s["lhs"]["p"]):
            ix = [x for x in s["lhs"]["p"] if isinstance(x, dict) and "ix" in x][0]["ix"]
            ie = sy.local(ix)
            v = sy.rvalue(s["rv"])
            whye = "rle_block[%s] = %s" % (show(ie)[:80], show(v)[:120])
            oke = match(ie, ("bin", "Add", ("param", "rle_offset"), fill)) and \
                match(v, ("call", "rle_encoding::encode", [("param", "pos"), ("bin", "Add", ("bin", "Rem", ext, MR), ("v", 1))]))
    ctx.ob(R, "update_rle_block fills [offset, offset + (len-4)/4) with encode(pos, 4)", okf, whyf, u.loc())
    ctx.ob(R, "update_rle_block stores encode(pos, (len-4) % 4 + 1) right after the filled groups", oke, whye, u.loc())
    # the compressor's calls: (position of the last kept symbol = len - 1, run length = seq + 1)
    c = prog.fn("hash_dual::algorithms::compress_block_hash_with_rle")
    ctx.visit(c)
    cs = Sym(c)
    n = 0
    for i, t in c.calls():
        if callee_of(t).endswith("update_rle_block"):
            n += 1
            a = [strip(cs.operand(x)) for x in t["args"]]
            ok = is_param(a[0], "rle_block_out") and a[1][0] == "local" and a[2][0] == "bin" and a[2][1] == "Sub" and const_value(a[2][3]) == 1 and a[2][2][0] == "local" and \
                a[3][0] == "bin" and a[3][1] == "Add" and const_value(a[3][3]) == 1 and a[3][2][0] == "local"
            names = (c.locals[a[2][2][1]]["name"], c.locals[a[3][2][1]]["name"]) if ok else None
            ctx.ob(R, "compress_block_hash_with_rle calls update_rle_block(rle_block_out, offset, <stored length> - 1, <repeat counter> + 1)", ok, "args %s" % ([show(x)[:40] for x in a],), c.loc(t["sp"]))
    ctx.floor(R, n, 2, "encoder calls in the compressor")


def validator_refusals(ctx, prog):
    """is_valid_rle_block_for_block_hash: the set of refusals (each `false` result with the conditions it is reached under) is
    exactly the reviewed one - the validator accepts what the compressor writes (a stricter validator makes correctly built
    dual hashes `invalid`, a laxer one lets non-canonical storage pass) """
    import re
    from ..sym import path_conds, bool_atom
    RV = "SA-VALIDATE"
    f = prog.fn("hash_dual::algorithms::is_valid_rle_block_for_block_hash")
    ctx.visit(f)
    sy = Sym(f)

    def defs_of(l):
        return [canon(strip(sy.rvalue(x) if k == "rv" else sy.call(x, b))) for (b, _i, k, x) in f.defs.get(l, [])]
    ITEM = None
    for i, t in f.calls():
        if callee_of(t).endswith("rle_encoding::decode"):
            ITEM = canon(strip(sy.operand(t["args"][0])))
    if ITEM is None:
        return ctx.ob(RV, "RLE validator decodes each entry with rle_encoding::decode", False, "no decode call", f.loc())
    DEC = "internals::hash_dual::rle_encoding::decode(%s)" % ITEM
    roles = {}
    for l in range(f.argc + 1, len(f.locals)):
        ds = sorted(set(re.sub(r"^\((\w+)WithOverflow\((.*)\)\)\.0$", r"\1(\2)", d) for d in defs_of(l)))
        me = "local:%s_%d" % (f.locals[l]["name"], l)
        if ds == sorted(["0", DEC + ".0"]):
            roles[me] = "PREVPOS"
        elif ds == sorted(["0", DEC + ".1"]):
            roles[me] = "PREVLEN"
        elif ds == ["0", "1"] and f.locals[l]["ty"] == "bool" and f.locals[l]["name"]:
            roles[me] = "TERMSEEN"
        elif len(ds) == 2 and ("(param:blockhash_len as u32)" in ds or "param:blockhash_len" in ds) and any(d.startswith("Add(%s," % me) and (DEC + ".1") in d for d in ds):
            roles[me] = "EXPANDED"

    def N(txt):
        txt = txt.replace(DEC + ".0", "POS").replace(DEC + ".1", "LEN").replace(ITEM, "ITEM")
        for k, v in roles.items():
            txt = txt.replace(k, v)
        txt = txt.replace("internals::hash_dual::rle_encoding::", "").replace("internals::hash::block::block_hash::", "")
        return txt

    def atom_txt(c):
        a = bool_atom(c)
        if a is None:
            return None
        if a[0] == "truth":
            return ("truth", N(canon(strip(a[1]))), a[2])
        return (a[0], N(canon(strip(a[1]))), N(canon(strip(a[2]))))

    def or_operands(l):
        """operands of a short-circuit `a || b || c` stored in the bool temporary l"""
        out = set()
        for (b, _i, k, x) in f.defs.get(l, []):
            if k != "rv":
                return None
            v = strip(sy.rvalue(x))
            if v[0] == "const" and const_value(v) == 1:
                # the shared `true` block of a short-circuit: one operand per incoming switch edge
                from ..sym import edge_cond
                for p in f.preds.get(b, []):
                    tgt = b
                    # look through empty forwarding blocks
                    while f.blocks[p]["term"]["t"] == "goto" and not f.blocks[p]["stmts"] and len(f.preds.get(p, [])) == 1:
                        tgt, p = p, f.preds[p][0]
                    c = edge_cond(f, sy, p, tgt)
                    a = atom_txt(c) if c else None
                    if a is None:
                        return None
                    out.add(a)
            elif v[0] == "const":
                continue
            elif v[0] == "bin":
                out.add((v[1], N(canon(strip(v[2]))), N(canon(strip(v[3])))))
            else:
                return None
        return out
    sites = []
    for i, j, s in f.stmts():
        if s["s"] == "assign" and s["lhs"]["l"] == 0 and not s["lhs"]["p"]:
            v = const_value(strip(sy.rvalue(s["rv"])))
            atoms = set()
            for c in path_conds(f, sy, i):
                a = atom_txt(c)
                if a is None or (a[0] == "truth" and a[1].startswith("discr(")):
                    continue
                m = re.match(r"^local:_(\d+)$", a[1]) if a[0] == "truth" else None
                if m:
                    ops = or_operands(int(m.group(1)))
                    if ops and a[2] is True:
                        atoms.add(("OR",) + tuple(sorted(ops)))
                    continue   # a False short-circuit temp is expanded by path_conds into its negated operands
                # beliefs of debug builds about slice bounds (invariant!(start < len) ...) are not refusal conditions
                if a[0] in ("Lt", "Le") and ("core::slice::<impl [T]>::len(" in a[2] or a[1].startswith("Add(Sub((POS as usize)") or a[1].startswith("Sub((POS as usize)")):
                    continue
                atoms.add(a)
            if v is None:
                # `if c { return false } true` written as the tail expression `!c` (or `c`): two outcomes, one per truth value of c
                from ..sym import is_identity_fn
                e = strip(sy.rvalue(s["rv"]))
                neg = False
                for _ in range(6):
                    if e[0] == "un" and e[1] == "Not":
                        e = strip(e[2])
                        neg = not neg
                    elif e[0] == "call" and len(e[2]) == 1 and is_identity_fn(prog, e[1]):
                        e = strip(e[2][0])
                    else:
                        break
                if e[0] == "bin" and e[1] in ("Lt", "Le", "Gt", "Ge", "Eq", "Ne"):
                    NEG = {"Lt": "Ge", "Le": "Gt", "Gt": "Le", "Ge": "Lt", "Eq": "Ne", "Ne": "Eq"}
                    pos = (e[1], N(canon(strip(e[2]))), N(canon(strip(e[3]))))
                    negd = (NEG[e[1]], pos[1], pos[2])
                    # value of the body when the comparison holds / does not hold
                    sites.append((0 if neg else 1, frozenset(atoms | {pos}), s["sp"]))
                    sites.append((1 if neg else 0, frozenset(atoms | {negd}), s["sp"]))
                    continue
            sites.append((v, frozenset(atoms), s["sp"]))
    nt = ("Ne", "ITEM", "TERMINATOR=0")
    seq1 = "Sub((MAX_SEQUENCE_SIZE=3 as u8),1)"
    inpos = {("Ge", "POS", seq1), ("Lt", "POS", "param:blockhash_len"), ("Ge", "POS", "PREVPOS")}
    want = {
        "data after the terminator": (0, {nt, ("truth", "TERMSEEN", True)}),
        "position out of range or going backwards": (0, {nt, ("OR", ("Ge", "POS", "param:blockhash_len"), ("Lt", "POS", "PREVPOS"), ("Lt", "POS", seq1))}),
        "extension of a run that was not full": (0, {nt} | inpos | {("Eq", "PREVPOS", "POS"), ("Ne", "PREVLEN", "MAX_RUN_LENGTH=4")}),
        "new run whose three symbols before the position are not identical": (0, None),
        "expanded length exceeds the capacity": (0, {("Gt", "EXPANDED", "SZ_BH")}),
        "accept": (1, {("Le", "EXPANDED", "SZ_BH")}),
    }
    used = set()
    loop_form = []
    NEWRUN_START = "Sub((POS as usize),Sub(MAX_SEQUENCE_SIZE=3,1))"
    NEWRUN_CH = "param:blockhash[%s]" % NEWRUN_START
    for name, (val, atoms) in want.items():
        hit = None
        for k, (v, a, sp) in enumerate(sites):
            if k in used or v != val:
                continue
            if atoms is None:
                rest = a - ({nt} | inpos | {("Ne", "PREVPOS", "POS")})
                if {("Ne", "PREVPOS", "POS")} <= a and len(rest) == 1 and list(rest)[0][0] == "truth" and "Iterator>::any(" in list(rest)[0][1] and list(rest)[0][2] is True:
                    hit = k
                # the same search written as a loop: refused inside `for x in slice` as soon as an element differs from `ch`
                r0 = list(rest)[0] if len(rest) == 1 else None
                if hit is None and {("Ne", "PREVPOS", "POS")} <= a and r0 is not None and r0[0] == "Ne" and \
                        any("Iterator>::next(" in x for x in r0[1:]) and any(x.replace(" ", "") == NEWRUN_CH.replace(" ", "") for x in r0[1:]):
                    hit = k
                    loop_form.append(k)
            elif a == frozenset(atoms):
                hit = k
        if hit is not None:
            used.add(hit)
        ctx.ob(RV, "RLE validator: %s <- %s" % ("refuses" if val == 0 else "accepts", name), hit is not None,
               "site found" if hit is not None else "no result site with exactly these conditions; sites: %s" % [sorted(a) for v, a, sp in sites if v == val][:3], f.loc())
    extra = [(v, sorted(a)) for k, (v, a, sp) in enumerate(sites) if k not in used]
    ctx.ob(RV, "RLE validator has no refusal (or acceptance) beyond the six reviewed outcomes", not extra, "%s" % extra[:2] if extra else "%d result sites" % len(sites),
           f.loc(sites[[k for k in range(len(sites)) if k not in used][0]][2]) if extra else f.loc())
    # the `new run` clause: any(x != ch) over blockhash[POS-(MAX-1)+1 ..= POS] with ch = blockhash[POS-(MAX-1)]
    ok = False
    why = "no any(..)"
    for i, t in f.calls():
        if callee_of(t).endswith("Iterator>::any"):
            src = N(canon(strip(sy.origin(strip(sy.operand(t["args"][0]))))))
            cl = strip(sy.operand(t["args"][1]))
            why = "any over %s" % src[:200]
            start = "Sub((POS as usize),Sub(MAX_SEQUENCE_SIZE=3,1))"
            rng_ok = ("RangeInclusive" in src and "Add(%s,1)" % start in src and "(POS as usize)" in src and "param:blockhash" in src)
            ok = rng_ok and cl[0] == "agg" and cl[1].startswith("Closure:")
            if ok:
                g = prog.get(cl[1][len("Closure:"):])
                ce = canon(strip(Sym(g).local(0))) if g else ""
                caps = [N(canon(strip(x))) for x in cl[2]]
                ok = bool(re.match(r"^Ne\(param:\w+,param:\w*1\.0\)$", ce))
                ok = ok and len(caps) == 1 and caps[0].replace(" ", "") == ("param:blockhash[%s]" % start).replace(" ", "")
                why += "; closure %s capturing %s" % (ce[:60], caps)
    if not ok and loop_form:
        # loop form: the elements come from an iterator over blockhash[pos-1 ..= pos]
        for i, t in f.calls():
            if callee_of(t).endswith("::next") and t["args"]:
                src = N(canon(strip(sy.origin(strip(sy.operand(t["args"][0]))))))
                if "RangeInclusive" in src and "Add(%s,1)" % NEWRUN_START in src and "(POS as usize)" in src and "param:blockhash" in src:
                    ok = True
                    why = "loop over %s, refused on the first element that differs from %s" % (src[:160], NEWRUN_CH)
    ctx.ob(RV, "RLE validator: a new run is checked as `any symbol of blockhash[pos-1 ..= pos] differs from blockhash[pos-2]`", ok, why, f.loc())


def expand_step(ctx, prog):
    """expand_block_hash_using_rle: what one RLE entry does - the step of the decoder as a table of effects"""
    import re
    from .engine import loop_carried, region, _atoms_at, _norm_cmp
    RS = "SA-STEP"
    ctx.rule(RS, "RLE decoder step: for every entry before the terminator (position != 0) and under no other condition: copy in[src .. pos] to out[dst ..], "
             "then fill out[dst + (pos-src) .. + len] with the symbol in[pos] read in this very iteration, then src += pos-src, dst += (pos-src)+len, "
             "expanded length += len; nothing but these three counters and the iterator is carried from one entry to the next; after the loop the "
             "tail in[src ..] is copied up to the expanded length and the rest of out is zeroed")
    f = prog.fn("hash_dual::algorithms::expand_block_hash_using_rle")
    ctx.visit(f)
    sy = Sym(f)
    H, sw, some, none, order = region(f)
    # the loop body proper: blocks that can still return to the loop header (the `break` path leaves the loop)
    inloop = set(b for b in order if H in f.reach_from(b))
    carried = loop_carried(f)
    counters = [l for l in carried if "Iter" not in f.locals[l]["ty"]]
    tys = sorted(f.locals[l]["ty"] for l in counters)
    ok = tys == ["u8", "usize", "usize"]
    ctx.ob(RS, "expand: only the two offsets, the expanded length and the iterator are carried from one RLE entry to the next", ok,
           "carried: %s" % [(f.locals[l]["name"], f.locals[l]["ty"]) for l in carried], f.loc())
    if not ok:
        return
    ITEM = None
    for i, t in f.calls():
        if callee_of(t).endswith("rle_encoding::decode") and i in inloop:
            ITEM = canon(strip(sy.operand(t["args"][0])))
    DEC = "internals::hash_dual::rle_encoding::decode(%s)" % ITEM

    def N(txt):
        txt = txt.replace(DEC + ".0", "POS").replace(DEC + ".1", "LEN")
        return re.sub(r"^\((\w+)WithOverflow\((.*)\)\)\.0$", r"\1(\2)", txt)
    # counter updates inside the loop
    ups = {}
    for l in counters:
        me = "local:%s_%d" % (f.locals[l]["name"], l)
        ds = [N(canon(strip(sy.rvalue(x)))) for (b, _i, k, x) in f.defs.get(l, []) if k == "rv" and b in inloop]
        ups[me] = ds
    src = [m for m, ds in ups.items() if len(ds) == 1 and re.match(r"^Add\(%s,(local:\w+|Sub\(\(POS as usize\),%s\))\)$" % (re.escape(m), re.escape(m)), ds[0])]
    ln = [m for m, ds in ups.items() if ds == ["Add(%s,LEN)" % m]]
    ok = len(src) == 1 and len(ln) == 1
    SRC = src[0] if src else None
    dst = [m for m in ups if m not in src and m not in ln]
    DST = dst[0] if len(dst) == 1 else None
    COPY = r"(?:local:\w+|Sub\(\(POS as usize\),%s\))" % re.escape(SRC or "?")
    if ok and DST:
        ok = len(ups[DST]) == 1 and re.match(r"^Add\(%s,Add\(%s,\(LEN as usize\)\)\)$" % (re.escape(DST), COPY), ups[DST][0]) is not None
    # the explaining local `copy_len`, if any, is pos - src
    for m in re.findall(r"local:(\w+)_(\d+)", " ".join(sum(ups.values(), []))):
        l = int(m[1])
        if l in counters:
            continue
        ds = [N(canon(strip(sy.rvalue(x)))) for (b, _i, k, x) in f.defs.get(l, []) if k == "rv" and b in inloop]
        if ds and SRC and ds != ["Sub((POS as usize),%s)" % SRC]:
            ok = False
    ctx.ob(RS, "expand: per entry src += pos-src, dst += (pos-src)+len, expanded length += len", bool(ok), "updates in the loop: %s" % ups, f.loc())
    # the fill
    fills = [(i, t) for i, t in f.calls() if callee_of(t).endswith("::fill") and i in inloop]
    ok = len(fills) == 1
    why = "%d fills in the loop" % len(fills)
    if ok:
        i, t = fills[0]
        v = N(canon(strip(sy.operand(t["args"][1]))))
        d = N(canon(strip(sy.operand(t["args"][0]))))
        ats = [a for a in (_norm_cmp(x) for x in _atoms_at(f, sy, i)) if not (a[0] == "truth" and a[1].startswith("discr("))]
        ats = [(a[0], N(a[1]), N(a[2]) if isinstance(a[2], str) else a[2]) for a in ats]
        # beliefs of debug builds (bounds of the slices) are not conditions of the step
        ats = [a for a in ats if not (a[0] in ("Lt", "Le") and ("core::slice::<impl [T]>::len(" in str(a[2]) or str(a[1]).startswith("Add(")))]
        ok = v == "param:blockhash_in[(POS as usize)]" and ats == [("Ne", "POS", "0")] and \
            re.match(r"^core::array::<impl core::ops::IndexMut<I> for \[T; N\]>::index_mut\(param:blockhash_out,core::ops::Range::Range\{Add\(%s,%s\),Add\(Add\(%s,%s\),\(LEN as usize\)\)\}\)$" % (re.escape(DST or "?"), COPY, re.escape(DST or "?"), COPY), d) is not None
        why = "fill(%s, %s) under %s" % (d[-110:], v, ats)
    ctx.ob(RS, "expand: per entry out[dst+(pos-src) .. +len] is filled with in[pos] of this entry, under `pos != 0` only", ok, why, f.loc())
    # the copies
    cps = [(i, t) for i, t in f.calls() if "expand_block_hash_using_rle::{closure" in callee_of(t)]
    inl = [(i, t) for i, t in cps if i in inloop]
    out = [(i, t) for i, t in cps if i not in inloop]
    ok = len(inl) == 1 and len(out) == 1
    why = "%d copies in the loop, %d after it" % (len(inl), len(out))
    if ok:
        a_in = N(canon(strip(sy.operand(inl[0][1]["args"][1]))))
        a_out = N(canon(strip(sy.operand(out[0][1]["args"][1]))))
        ok = re.match(r"^Tuple\{param:blockhash_out,%s,%s,%s\}$" % (re.escape(DST or "?"), re.escape(SRC or "?"), COPY), a_in) is not None and \
            a_out == "Tuple{param:blockhash_out,%s,%s,Sub((%s as usize),%s)}" % (DST, SRC, ln[0] if ln else "?", DST)
        ats = [a for a in (_norm_cmp(x) for x in _atoms_at(f, sy, inl[0][0])) if not (a[0] == "truth" and a[1].startswith("discr("))]
        ok = ok and [(a[0], N(a[1]), a[2]) for a in ats] == [("Ne", "POS", "0")]
        why = "in loop copy%s; tail copy%s" % (a_in[5:], a_out[5:])
    ctx.ob(RS, "expand: per entry copy(out, dst, src, pos-src) under `pos != 0` only; after the loop copy(out, dst, src, expanded length - dst)", ok, why, f.loc())


def expand_copy(ctx, prog):
    """the decoder's `copy(out, dst, src, len)` helper: out[dst .. dst+len] := in[src .. src+len] (one slice copy, destination first,
    the captured input as source) and nothing else - in every build configuration (a raw-pointer variant is a second implementation)"""
    import re
    RS = "SA-STEP"
    f = prog.fn("hash_dual::algorithms::expand_block_hash_using_rle")
    cls = prog.closures_of(f)
    ok = len(cls) == 1
    why = "%d closures" % len(cls)
    if ok:
        g = cls[0]
        ctx.visit(g)
        sy = Sym(g)
        # positional names: 2 = destination array, 3 = dst, 4 = src, 5 = len; capture 1.0 = the input block hash
        P = {k: "param:%s" % (g.locals[k]["name"] or str(k)) for k in range(1, g.argc + 1)}
        eff = [(callee_of(t), [canon(strip(sy.operand(a))) for a in t["args"]]) for i, t in g.calls()
               if any(a["k"] in ("copy", "move") and a["pl"]["ty"].startswith(("&mut", "*mut", "*const")) for a in t["args"]) or
               "ptr::" in callee_of(t) or callee_of(t).endswith(("copy_from_slice", "clone_from_slice"))]
        copies = [(c, a) for c, a in eff if c.endswith(("::clone_from_slice", "::copy_from_slice"))]
        other = [c for c, a in eff if not c.endswith(("::clone_from_slice", "::copy_from_slice", "::index_mut", "::index"))]
        ok = len(copies) == 1 and not other and g.argc == 5
        why = "effects: %s" % [c.split("::")[-1] for c, a in eff]
        if ok:
            d, s_ = copies[0][1][0], copies[0][1][1]
            want_d = "core::array::<impl core::ops::IndexMut<I> for [T; N]>::index_mut(%s,core::ops::Range::Range{%s,Add(%s,%s)})" % (P[2], P[3], P[3], P[5])
            want_s = "core::array::<impl core::ops::Index<I> for [T; N]>::index(param:1.0,core::ops::Range::Range{%s,Add(%s,%s)})" % (P[4], P[4], P[5])
            d = re.sub(r"^\((\w+)WithOverflow\((.*)\)\)\.0$", r"\1(\2)", d)
            d = re.sub(r"\(AddWithOverflow\(([^()]*)\)\)\.0", r"Add(\1)", d)
            s_ = re.sub(r"\(AddWithOverflow\(([^()]*)\)\)\.0", r"Add(\1)", s_)
            ok = d == want_d and s_ == want_s
            why = "copy(%s <- %s)" % (d[-70:], s_[-70:])
            caps = [canon(strip(x)) for x in []]
    ctx.ob(RS, "expand: the copy helper is out[dst..dst+len] := in[src..src+len] by one slice copy and nothing else", ok, why, f.loc())
