"""Rules anchored in the generator (generate.rs): size guards, reset==new, error purity."""
from ..sym import Sym, strip, show, canon, fpath, is_path, is_param, const_named, const_value, walk
from ..mir import callee_of, pl, AnchorError
from . import guard as G
from . import errpure

GIB192 = 192 * (1 << 30)
U64MAX = (1 << 64) - 1


def _size_param(name):
    return lambda e: is_param(e, name)


def guards_set_fixed(ctx, prog):
    """C12/C13: set_fixed_input_size refusals and their borders"""
    R = "SA-GUARD"
    ctx.rule(R, "the condition under which an outcome is produced, extracted from the CFG as an exact conjunction of branch conditions and normalised to intervals, equals the stated condition")
    f = prog.fn("Generator::set_fixed_input_size")
    ctx.visit(f)
    sy = Sym(f)
    tl = G.blocks_returning_variant(f, sy, "Result::Err", "FixedSizeTooLarge")
    mm = G.blocks_returning_variant(f, sy, "Result::Err", "FixedSizeMismatch")
    G.check_exact(ctx, R, "set_fixed_input_size->Err(FixedSizeTooLarge) iff size in (192GiB, u64::MAX]", f, sy, tl,
                  [("size > 192 GiB", G.iv_spec(_size_param("size"), (GIB192 + 1, U64MAX)))])
    fixed = lambda e: is_path(e, "self", ("0", "fixed_size"))

    def ne_spec(a):
        if a[0] != "Ne":
            return False
        x, y = a[1], a[2]
        def is_prev(e):
            return is_path(e, "self", ("0", "fixed_size", "<Some>", "0"))
        return (is_prev(x) and is_param(y, "size")) or (is_prev(y) and is_param(x, "size"))
    G.check_exact(ctx, R, "set_fixed_input_size->Err(FixedSizeMismatch) iff size<=192GiB and previous Some(e), e != size", f, sy, mm,
                  [("size <= 192 GiB", G.iv_spec(_size_param("size"), (0, GIB192))),
                   ("previous declaration is Some", G.discr_spec(fixed, 1)),
                   ("previous != size", ne_spec)])


def ok_effects_set_fixed(ctx, prog):
    """on Ok, the declaration is recorded: fixed_size = Some(size) and the fork limit derived from the same size"""
    R = "SA-FIELDS"
    f = prog.fn("Generator::set_fixed_input_size")
    sy = Sym(f)
    oks = G.blocks_returning_variant(f, sy, "Result::Ok")
    st_fixed = st_lim = None
    for i, j, s in f.stmts():
        if s["s"] != "assign" or s["lhs"]["l"] != 1:
            continue
        p = pl(s["lhs"])
        if p.endswith(".fixed_size"):
            st_fixed = (i, sy.rvalue(s["rv"]), s)
        if p.endswith(".bhidx_end_limit"):
            st_lim = (i, sy.rvalue(s["rv"]), s)
    ok = bool(oks) and st_fixed is not None and all(f.dominates(st_fixed[0], b) for b in oks)
    if ok:
        e = st_fixed[1]
        ok = e[0] == "agg" and e[1].endswith("Option::Some") and is_param(e[2][0], "size")
    ctx.ob(R, "set_fixed_input_size: every Ok is dominated by fixed_size = Some(size)", ok,
           "stored %s" % (show(st_fixed[1]) if st_fixed else None), f.loc())
    ok = bool(oks) and st_lim is not None and all(f.dominates(st_lim[0], b) for b in oks)
    why = ""
    if ok:
        e = strip(st_lim[1])
        why = show(e)
        ok = False
        if e[0] == "call" and e[1].endswith("Ord::min"):
            a, b = strip(e[2][0]), strip(e[2][1])
            lim_ok = a[0] == "bin" and a[1] == "Sub" and const_named(a[2], "block_size::NUM_VALID") and const_value(a[3]) == 1
            g_ok = b[0] == "bin" and b[1] == "Add" and const_value(b[3]) == 1 and strip(b[2])[0] == "call" and \
                strip(b[2])[1].endswith("get_log_block_size_from_input_size") and is_param(strip(b[2])[2][0], "size") and const_value(strip(b[2])[2][1]) == 0
            ok = lim_ok and g_ok
    ctx.ob(R, "set_fixed_input_size: every Ok is dominated by bhidx_end_limit = min(NUM_VALID-1, log_block_size(size,0)+1)", ok, why, f.loc())


def errpure_set_fixed(ctx, prog):
    R = "SA-ERRPURE"
    ctx.rule(R, "on every CFG path from entry to an error outcome there is no store through, and no &mut hand-off of, the caller-visible mutable roots (except to a callee verified by the same rule whose result is returned)")
    f = prog.fn("Generator::set_fixed_input_size")
    sy = Sym(f)
    errs = G.blocks_returning_variant(f, sy, "Result::Err")
    errpure.check(ctx, R, "set_fixed_input_size leaves *self unchanged on Err", f, {1}, errs, what="the generator")
    ctx.floor(R, len(errs), 2, "error outcomes of set_fixed_input_size")
    g = prog.fn("Generator::set_fixed_input_size_in_usize")
    sy = Sym(g)
    errs = G.blocks_returning_variant(g, sy, "Result::Err")
    # delegation: the call whose destination is the return place
    for i, t in g.calls():
        if t["dest"]["l"] == 0 and not t["dest"]["p"]:
            errs.append(i)
    errpure.check(ctx, R, "set_fixed_input_size_in_usize leaves *self unchanged on Err", g, {1}, errs,
                  allowed_callees=("Generator::set_fixed_input_size",), what="the generator")
    # the wrapper passes its own size (converted) to the checked function
    ok = False
    for i, t in g.calls():
        if callee_of(t).endswith("Generator::set_fixed_input_size"):
            e = Sym(g).operand(t["args"][1])
            r, names = fpath(e)
            # (try_from(size) as Ok).0
            # the conversion is the one to u64 (a detour through a narrower type refuses sizes that are legal)
            ok = r[0] == "call" and r[1].endswith("for u64>::try_from") and is_param(r[2][0], "size") and names == ("<Ok>", "0") and \
                strip(e)[0] != "cast"
    if not ok:
        # combinator form: `u64::try_from(size).map_err(..).and_then(|size| self.set_fixed_input_size(size))`
        gsy = Sym(g)
        for i, t in g.calls():
            if callee_of(t).endswith("::and_then") and len(t["args"]) == 2:
                recv = strip(gsy.operand(t["args"][0]))
                while recv[0] == "call" and recv[1].split("::")[-1] in ("map_err",) and recv[2]:
                    recv = strip(recv[2][0])
                cl = strip(gsy.operand(t["args"][1]))
                if recv[0] == "call" and recv[1].endswith("for u64>::try_from") and is_param(strip(recv[2][0]), "size") and cl[0] == "agg" and cl[1].startswith("Closure:"):
                    c = prog.get(cl[1][len("Closure:"):])
                    if c is not None:
                        ctx.visit(c)
                        csy = Sym(c)
                        for ci, ct in c.calls():
                            if callee_of(ct).endswith("Generator::set_fixed_input_size") and ct["dest"]["l"] == 0:
                                a1 = strip(csy.operand(ct["args"][1]))
                                ok = a1[0] == "param" and a1[1] == 2 and t["dest"]["l"] == 0
    ctx.ob("SA-DELEGATE", "set_fixed_input_size_in_usize forwards u64::try_from(size) to set_fixed_input_size", ok,
           "argument is the Ok payload of try_from(size)" if ok else "the forwarded size is not the converted parameter", g.loc())
    # ... and has no success of its own: a size it accepts without asking the checked function is never recorded, so a mismatching
    # history (declare 0 through this entry, feed data, finalize; or declare another size afterwards) is no longer refused
    # (an `Ok(())` written after `self.set_fixed_input_size(size)?` is dominated by the call and is the call's success, not the wrapper's)
    dcalls = [i for i, t in g.calls() if callee_of(t).endswith("Generator::set_fixed_input_size")]
    own_ok = [b for b in G.blocks_returning_variant(g, Sym(g), "Result::Ok") if not any(c != b and g.dominates(c, b) for c in dcalls)]
    ctx.ob("SA-DELEGATE", "set_fixed_input_size_in_usize answers Ok only through set_fixed_input_size (no success outcome of its own)", not own_ok,
           "no Ok is built in the wrapper" if not own_ok else "Ok built in the wrapper at block(s) %s" % own_ok, g.loc())


def guards_finalize(ctx, prog, need=("mismatch", "toolarge")):
    R = "SA-GUARD"
    f = prog.fn("Generator::finalize_raw_internal")
    ctx.visit(f)
    sy = Sym(f)
    mm = G.blocks_returning_variant(f, sy, "Result::Err", "FixedSizeMismatch")
    tl = G.blocks_returning_variant(f, sy, "Result::Err", "InputSizeTooLarge")
    fixed = lambda e: is_path(e, "self", ("0", "fixed_size"))
    isz = lambda e: is_path(e, "self", ("0", "input_size"))

    def ne_spec(a):
        if a[0] != "Ne":
            return False
        prev = lambda e: is_path(e, "self", ("0", "fixed_size", "<Some>", "0"))
        return (prev(a[1]) and isz(a[2])) or (prev(a[2]) and isz(a[1]))
    if "mismatch" in need:
        G.check_exact(ctx, R, "finalize->Err(FixedSizeMismatch) iff declared Some(f), f != input_size (so no Ok is reachable then)", f, sy, mm,
                      [("declared size is Some", G.discr_spec(fixed, 1)), ("declared != processed", ne_spec)])
    if "toolarge" in need:
        G.check_exact(ctx, R, "finalize->Err(InputSizeTooLarge) iff input_size in (192GiB, u64::MAX] (when sizes do not mismatch)", f, sy, tl,
                      [("input_size > 192 GiB", G.iv_spec(isz, (GIB192 + 1, U64MAX)))], also_ok=mm)
        # both size tests precede any construction of the result: they dominate every Ok
        oks = G.blocks_returning_variant(f, sy, "Result::Ok")
        dom_ok = bool(oks) and bool(tl) and all(
            any(s == se[0] for se in G.controlling_edges(f, b)) for b in oks for s in [G.controlling_edges(f, tl[0])[-1][0]])
        ctx.ob(R, "finalize: the input-size limit test is on every path to Ok", dom_ok,
               "%d Ok outcome(s) all controlled by the limit test" % len(oks) if dom_ok else "an Ok outcome is reachable without passing the size limit test", f.loc())


def overflow_borders(ctx, prog):
    """finalize (non-truncated, short output): OutputOverflow exactly when block hash 2 does not fit - `pieces > S2` before the pending
    piece is considered, `pieces >= S2` when one more symbol (the pending piece, rolling value != 0) is to be appended.  One `>` and one
    `>=`, against S2: the other way round refuses a hash that fits exactly, or writes one symbol past the capacity."""
    from ..sym import path_conds, bool_atom, canon
    R = "SA-GUARD"
    f = prog.fn("Generator::finalize_raw_internal")
    ctx.visit(f)
    sy = Sym(f)
    ov = G.blocks_returning_variant(f, sy, "Result::Err", "OutputOverflow")
    rows = []
    for b in ov:
        cmp_ = None
        pending = False
        for c in path_conds(f, sy, b):
            a = bool_atom(c)
            if not a or a[0] == "truth":
                continue
            l_, r_ = canon(strip(a[1])), canon(strip(a[2]))
            if a[0] in ("Gt", "Ge", "Lt", "Le") and (r_ == "S2" or l_ == "S2"):
                op = a[0] if r_ == "S2" else {"Gt": "Lt", "Ge": "Le", "Lt": "Gt", "Le": "Ge"}[a[0]]
                cmp_ = op
            if a[0] == "Ne" and (const_value(strip(a[2])) == 0 or const_value(strip(a[1])) == 0) and ("value(" in l_ + r_ or "roll" in l_ + r_):
                pending = True
        rows.append((cmp_, pending))
    ok = sorted(rows, key=str) == sorted([("Gt", False), ("Ge", True)], key=str)
    ctx.ob(R, "finalize->Err(OutputOverflow): `pieces > S2` as stored, `pieces >= S2` when the pending piece is appended (rolling value != 0), nothing else", ok,
           "overflow sites: %s" % rows, f.loc())


def finalizers_delegate(ctx, prog):
    """every exported finaliser obtains its result from finalize_raw_internal"""
    R = "SA-DELEGATE"
    ctx.rule(R, "a public form obtains its result only from the named single implementation (resolved call graph), so a property shown for that implementation holds for every form")
    n = 0
    for f in prog.fns:
        if not f.exported or ".." in f.path:
            continue
        if not f.path.startswith("internals::generate::Generator::finalize"):
            continue
        ctx.visit(f)
        n += 1
        # all crate-local callees that return a Result must be finalize* functions
        cl = [g.path for g in prog.closure([f]) if g.path != f.path]
        ok = any(p.endswith("Generator::finalize_raw_internal") for p in cl)
        # the function's own Ok values must come from calls (no locally built Ok of a hash)
        sy = Sym(f)
        own_ok = []
        for b in G.blocks_returning_variant(f, sy, "Result::Ok"):
            for s in f.blocks[b]["stmts"]:
                if s["s"] == "assign" and s["lhs"]["l"] == 0:
                    e = sy.rvalue(s["rv"])
                    r, _ = fpath(e[2][0]) if e[0] == "agg" and e[2] else (("unknown",), ())
                    if r[0] != "call":
                        own_ok.append(show(e))
        ctx.ob(R, "%s delegates to finalize_raw_internal" % f.short, ok and not own_ok,
               "reaches finalize_raw_internal; no locally constructed Ok" if ok and not own_ok else "result does not come from finalize_raw_internal: %s" % own_ok, f.loc())
    ctx.floor(R, n, 3, "exported Generator::finalize* functions")


def guard_small_input(ctx, prog):
    R = "SA-GUARD"
    f = prog.fn("Generator::may_warn_about_small_input_size")
    ctx.visit(f)
    sy = Sym(f)
    e = sy.local(0)
    ok = False
    why = "return value is %s" % show(e)
    if e[0] == "bin" and e[1] == "Lt":
        a, b = e[2], e[3]
        if a[0] == "call" and a[1].endswith("unwrap_or") and is_path(a[2][0], "self", ("0", "fixed_size")) and is_path(a[2][1], "self", ("0", "input_size")):
            ok = const_value(b) == 4097
            why = "true iff fixed_size.unwrap_or(input_size) < %s" % const_value(b)
        elif strip(a)[0] == "local" and len(f.defs.get(strip(a)[1], [])) == 2:
            # `match fixed_size { Some(s) => s, None => input_size }` bound to a local: the same value, spelled out
            from ..sym import path_conds
            arms = {}
            for (blk, _i, kind, x) in f.defs[strip(a)[1]]:
                v = strip(sy.rvalue(x)) if kind == "rv" else None
                ds = [c for c in path_conds(f, sy, blk) if strip(c[0])[0] == "discr" and is_path(strip(c[0])[1], "self", ("0", "fixed_size"))]
                if v is None or len(ds) != 1:
                    arms = None
                    break
                some = (ds[0][1] == "in" and sorted(ds[0][2]) == [1]) or (ds[0][1] == "notin" and sorted(ds[0][2]) == [0])
                arms["some" if some else "none"] = v
            if arms and set(arms) == {"some", "none"}:
                r, names = fpath(arms["some"])
                ok = is_path(arms["none"], "self", ("0", "input_size")) and is_path(r, "self", ("0", "fixed_size")) is not None and \
                    names[-2:] == ("<Some>", "0") and const_value(b) == 4097
                why = "true iff (match fixed_size: Some(s) => s, None => input_size) < %s" % const_value(b)
    ctx.ob(R, "may_warn_about_small_input_size is true iff declared-or-processed size in [0, 4097)", ok, why, f.loc())


def guard_initial_block_size(ctx, prog):
    """C13: size <= 64*3 keeps `start`; otherwise max(start, ilog2((size-1)/192)+1); the unit is the same
    function that initialises elim_border and, at 30, defines MAX_INPUT_SIZE"""
    R = "SA-GUARD"
    f = prog.fn("Generator::get_log_block_size_from_input_size")
    ctx.visit(f)
    sy = Sym(f)
    unit = lambda e: strip(e)[0] == "call" and strip(e)[1].endswith("guessed_preferred_max_input_size_at") and const_value(strip(e)[2][0]) == 0
    blocks = G.blocks_assigning_ret(f, sy, lambda e: is_param(e, "start"))

    def le_spec(a):
        return a[0] == "Le" and is_param(a[1], "size") and unit(a[2]) or a[0] == "Ge" and is_param(a[2], "size") and unit(a[1])
    G.check_exact(ctx, R, "get_log_block_size_from_input_size returns `start` unchanged iff size <= preferred_max(0)", f, sy, blocks,
                  [("size <= guessed_preferred_max_input_size_at(0)", le_spec)])
    # the other arm: max(start, ilog2((size-1)/unit)+1)
    ok = False
    why = ""
    for i, t in f.calls():
        if t["dest"]["l"] == 0 and callee_of(t).endswith("Ord::max"):
            a0, a1 = sy.operand(t["args"][0]), strip(sy.operand(t["args"][1]))
            why = "max(%s, %s)" % (show(a0), show(a1))
            if is_param(a0, "start") and a1[0] == "bin" and a1[1] == "Add" and const_value(a1[3]) == 1:
                lg = strip(a1[2])
                if lg[0] == "call" and lg[1].endswith("u64_ilog2"):
                    q = strip(lg[2][0])
                    # high_size local: multi-assigned? it is single-def: Div(Sub(size,1), unit)
                    if q[0] == "bin" and q[1] == "Div":
                        num, den = strip(q[2]), q[3]
                        ok = num[0] == "bin" and num[1] == "Sub" and is_param(num[2], "size") and const_value(num[3]) == 1 and unit(den)
    ctx.ob(R, "get_log_block_size_from_input_size otherwise returns max(start, ilog2((size-1)/unit)+1)", ok, why or "shape not found", f.loc())
    g = prog.fn("Generator::guessed_preferred_max_input_size_at")
    ctx.visit(g)
    e = Sym(g).local(0)
    ok = False
    if e[0] == "bin" and e[1] == "Mul":
        a, b = strip(e[2]), strip(e[3])
        ok = a[0] == "call" and a[1].endswith("block_size::from_log_internal_const") and is_param(a[2][0], "log_block_size") and const_named(b, "block_hash::FULL_SIZE") and const_value(b) == 64
    ctx.ob(R, "guessed_preferred_max_input_size_at(n) = (MIN << n) * FULL_SIZE(64)", ok, show(e), g.loc())
    h = prog.fn("block_size::from_log_internal_const")
    e = Sym(h).local(0)
    ok = e[0] == "bin" and e[1] == "Shl" and const_named(e[2], "block_size::MIN") and const_value(e[2]) == 3 and is_param(e[3], "log_block_size")
    ctx.ob(R, "from_log_internal_const(n) = MIN(3) << n", ok, show(e), h.loc())
    c = prog.const("Generator::MAX_INPUT_SIZE")
    ctx.ob("SA-DATA", "MAX_INPUT_SIZE evaluates to 192 GiB = 3*2^30*64", int(c.get("v", -1)) == GIB192, "value %s" % c.get("v"))
    c = prog.const("Generator::MIN_RECOMMENDED_INPUT_SIZE")
    ctx.ob("SA-DATA", "MIN_RECOMMENDED_INPUT_SIZE evaluates to 4097", int(c.get("v", -1)) == 4097, "value %s" % c.get("v"))


# ---- reset == new -------------------------------------------------------------------------

def ctor_fields(f):
    """field path -> canonical value, from the aggregate a constructor returns"""
    sy = Sym(f)
    out = {}

    def flat(e, prefix, kind_fields):
        pass
    # find the aggregate assigned to _0
    e = None
    for i, j, s in f.stmts():
        if s["s"] == "assign" and s["lhs"]["l"] == 0 and not s["lhs"]["p"] and s["rv"]["r"] == "agg":
            e = (s["rv"], )
    if e is None:
        raise AnchorError("constructor %s does not return an aggregate" % f.path)

    def rec(rvj, prefix):
        names = rvj["kind"].get("fields")
        for idx, o in enumerate(rvj["ops"]):
            nm = names[idx] if names else str(idx)
            # nested aggregate through a single-def temp?
            sub = None
            if o["k"] in ("copy", "move") and not o["pl"]["p"]:
                d = f.single_def(o["pl"]["l"])
                if d and d[2] == "rv" and d[3]["r"] == "agg" and d[3]["kind"].get("adt") in f.prog.adts and \
                        f.prog.adts[d[3]["kind"]["adt"]]["kind"] == "Struct":
                    sub = d[3]
            if sub is not None:
                rec(sub, prefix + (nm,))
            else:
                out[prefix + (nm,)] = canon(sy.operand(o))
    rec(e[0], ())
    return out


def reset_fields(f, prog):
    """field path -> canonical value stored by a `reset(&mut self)`; plus element resets by call"""
    sy = Sym(f)
    out = {}
    calls = []
    rets = f.return_blocks()
    for i, j, s in f.stmts():
        if s["s"] != "assign":
            continue
        lhs = s["lhs"]
        if "*" not in lhs["p"]:
            continue
        if not all(f.dominates(i, r) for r in rets):
            continue   # a re-initialisation that some path to the return skips does not count (e.g. behind an early return)
        # the stored place, resolved through local aliases of the receiver (`let inner = &mut self.0; inner.x = ..`)
        names = []
        idx = None
        e = strip(sy.place(lhs))
        bad = False
        while True:
            if e[0] == "field":
                names.append(e[2])
                e = strip(e[1])
            elif e[0] == "index":
                names.append("[%s]" % canon(e[2]))
                e = strip(e[1])
            elif e[0] in ("deref", "ref"):
                e = strip(e[1])
            else:
                break
        if not (e[0] == "param" and e[1] == 1):
            continue
        names.reverse()
        out[tuple(names)] = canon(sy.rvalue(s["rv"]))
    for i, t in f.calls():
        if not all(f.dominates(i, r) for r in rets):
            continue
        for a in t["args"]:
            if a["k"] in ("copy", "move"):
                e = sy.operand(a)
                if e[0] == "ref":
                    r, names = fpath(e)
                    inner = e[1]
                    if inner[0] == "index":
                        r2, n2 = fpath(inner[1])
                        if r2[0] == "param" and r2[1] == 1:
                            calls.append((n2, canon(inner[2]), callee_of(t), t["sp"]))
    return out, calls


def reset_equals_new(ctx, prog):
    R = "SA-FIELDS"
    ctx.rule(R, "field-by-field agreement: every field of the struct is given by `reset` the same symbolic value `new` gives it, or is a reasoned exception with its own structural side condition")
    gnew = prog.fn("generate::Generator::new")
    grst = prog.fn("generate::Generator::reset")
    cnew = prog.fn("generate::BlockHashContext::new")
    crst = prog.fn("generate::BlockHashContext::reset")
    for f in (gnew, grst, cnew, crst):
        ctx.visit(f)
    nf = ctor_fields(gnew)
    rf, rcalls = reset_fields(grst, prog)
    adt = prog.adt("generate::GeneratorInnerData")
    fields = [x["name"] for x in adt["variants"][0]["fields"]]
    ctx.floor(R, len(fields), 11, "fields of GeneratorInnerData")
    n_exc = 0
    for fld in fields:
        key = ("0", fld)
        want = nf.get(key)
        got = rf.get(key)
        if want is None:
            ctx.ob(R, "Generator::new defines field %s" % fld, False, "field not found in the constructor aggregate", gnew.loc())
            continue
        if got is not None:
            ctx.ob(R, "Generator::reset: %s same as new" % fld, got == want, "reset: %s ; new: %s" % (got, want), grst.loc())
        elif fld == "bh_context":
            n_exc += 1
            # exception 1: only element [0] is reset (by BlockHashContext::reset); elements 1.. are
            # re-initialised by the engine before bhidx_end passes over them (side condition below)
            hit = [c for c in rcalls if c[0] == ("0", "bh_context") and c[1] == "0" and c[2].endswith("BlockHashContext::reset")]
            ok = bool(hit) and want == "[%s();31]" % cnew.path
            ctx.ob(R, "Generator::reset: bh_context[0] reset through BlockHashContext::reset (exception: elements 1.. deferred)", ok,
                   "reset calls %s on bh_context[0]; new builds %s" % ([c[2] for c in hit], want), grst.loc())
        elif fld == "h_last":
            n_exc += 1
            ctx.ob(R, "Generator::reset: h_last deliberately skipped (exception: only meaningful while is_last)", True,
                   "side conditions checked separately (is_last cleared by reset; set only together with h_last)", grst.loc())
        else:
            ctx.ob(R, "Generator::reset: %s same as new" % fld, False, "field is not re-initialised by reset and is not a reasoned exception", grst.loc())
    # BlockHashContext
    cf = ctor_fields(cnew)
    crf, _ = reset_fields(crst, prog)
    cadt = prog.adt("generate::BlockHashContext")
    cfields = [x["name"] for x in cadt["variants"][0]["fields"]]
    ctx.floor(R, len(cfields), 5, "fields of BlockHashContext")
    for fld in cfields:
        want = cf.get((fld,))
        got = crf.get((fld,))
        if got is not None:
            ctx.ob(R, "BlockHashContext::reset: %s same as new" % fld, got == want, "reset: %s ; new: %s" % (got, want), crst.loc())
        elif fld == "blockhash":
            n_exc += 1
            # exception 3: only the last element (the one read without an index bound) is re-initialised
            k = [k for k in crf if k[0] == "blockhash" and len(k) == 2]
            nil = "internals::generate::BLOCKHASH_CHAR_NIL=255"
            import re as _re
            ok = len(k) == 1 and _re.match(r"^\[Sub\([\w:]*FULL_SIZE=64,1\)\]$", k[0][1]) is not None and crf[k[0]] == nil and want == "[%s;64]" % nil
            ctx.ob(R, "BlockHashContext::reset: blockhash[FULL_SIZE-1] = NIL (exception: elements below the index are never read)", ok,
                   "reset stores %s ; new: %s" % ({kk: crf[kk] for kk in k}, want), crst.loc())
        else:
            ctx.ob(R, "BlockHashContext::reset: %s same as new" % fld, False, "field not re-initialised and not a reasoned exception", crst.loc())
    ctx.floor(R, n_exc, 3, "reasoned exceptions")


def reset_side_conditions(ctx, prog):
    """side conditions that make the three exceptions of reset==new sound"""
    R = "SA-FIELDS"
    eng = [prog.fn("Generator::update"), prog.fn("Generator::update_by_iter"), prog.fn("Generator::update_by_byte")]
    for f in eng:
        ctx.visit(f)
        sy = Sym(f)
        # (a) is_last = true only together with an h_last store in the same block
        n_set = 0
        for i in sorted(f.live):
            st = f.blocks[i]["stmts"]
            sets = [s for s in st if s["s"] == "assign" and pl(s["lhs"]).endswith(".is_last")]
            for s in sets:
                v = sy.rvalue(s["rv"])
                if const_value(v) == 1:
                    n_set += 1
                    has = any(x["s"] == "assign" and pl(x["lhs"]).endswith(".h_last") for x in st[:st.index(s)])
                    ctx.ob(R, "%s: is_last=true is preceded by a store to h_last in the same block" % f.short, has,
                           "h_last assigned before is_last in bb%d" % i if has else "is_last set without (re)initialising h_last", f.loc(s["sp"]))
        ctx.ob(R, "%s: engine sets is_last" % f.short, n_set >= 1, "%d sites" % n_set, f.loc())
        # (b) every other access to h_last in the engine is control-dependent on is_last
        for i, j, s in f.stmts():
            if s["s"] != "assign":
                continue
            r = s["rv"]
            acc = None
            if r["r"] in ("ref", "rawptr") and pl(r["pl"]).endswith(".h_last"):
                acc = r["pl"]
            elif r["r"] == "use" and r["a"]["k"] in ("copy", "move") and pl(r["a"]["pl"]).endswith(".h_last"):
                acc = r["a"]["pl"]
            if acc is None:
                continue
            conds = G.path_conds(f, sy, i)
            ok = any(G.bool_atom(c) and G.bool_atom(c)[0] == "truth" and G.bool_atom(c)[2] is True and
                     fpath(G.bool_atom(c)[1])[1][-1:] == ("is_last",) for c in conds)
            ctx.ob(R, "%s: use of h_last is guarded by is_last" % f.short, ok,
                   "bb%d reached only when is_last is true" % i if ok else "h_last used on a path where is_last may be false (stale after reset)", f.loc(s["sp"]))
        # (c) bhidx_end += 1 is dominated by reset() of the next context and by copies of h_full/h_half into it
        n_inc = 0
        for i, j, s in f.stmts():
            if s["s"] == "assign" and pl(s["lhs"]).endswith(".bhidx_end"):
                n_inc += 1
                resets = [bi for bi, t in f.calls() if callee_of(t).endswith("BlockHashContext::reset") and f.dominates(bi, i)]
                # stores of h_full / h_half between reset and the increment
                hf = hh = False
                for bi, bj, x in f.stmts():
                    if x["s"] == "assign" and resets and f.dominates(resets[-1], bi) and f.dominates(bi, i):
                        p = pl(x["lhs"])
                        hf = hf or p.endswith(".h_full")
                        hh = hh or p.endswith(".h_half")
                ok = bool(resets) and hf and hh
                ctx.ob(R, "%s: bhidx_end increment dominated by reset()+h_full/h_half hand-over of the newly activated context" % f.short, ok,
                       "reset at bb%s, h_full:%s h_half:%s" % (resets, hf, hh), f.loc(s["sp"]))
        ctx.ob(R, "%s: engine advances bhidx_end" % f.short, n_inc == 1, "%d increment sites" % n_inc, f.loc())
    # (d) reset clears is_last
    rf, _ = reset_fields(prog.fn("generate::Generator::reset"), prog)
    ctx.ob(R, "Generator::reset clears is_last", rf.get(("0", "is_last")) == "0", "is_last := %s" % rf.get(("0", "is_last")))
    # (e) finalize reads single elements of a context's blockhash only at FULL_SIZE-1
    f = prog.fn("Generator::finalize_raw_internal")
    sy = Sym(f)
    n = 0
    for i, j, s in f.stmts():
        if s["s"] != "assign":
            continue
        r = s["rv"]
        if r["r"] == "use" and r["a"]["k"] in ("copy", "move"):
            p = r["a"]["pl"]
            names = [e.get("n") for e in p["p"] if isinstance(e, dict) and "f" in e]
            ix = [e for e in p["p"] if isinstance(e, dict) and "ix" in e]
            if names and names[-1] == "blockhash" and ix and "BlockHashContext" in [e for e in p["p"] if isinstance(e, dict) and "f" in e][-1]["of"]:
                n += 1
                ie = sy.local(ix[-1]["ix"])
                ok = ie[0] == "bin" and ie[1] == "Sub" and const_named(ie[2], "block_hash::FULL_SIZE") and const_value(ie[3]) == 1
                ctx.ob(R, "finalize_raw_internal reads context.blockhash[i] element-wise only at i = FULL_SIZE-1", ok, "index %s" % show(ie), f.loc(s["sp"]))
    ctx.floor(R, n, 2, "element reads of BlockHashContext::blockhash in finalize_raw_internal")


# ---- who writes which generator field --------------------------------------------------------------------------------
FIELD_WRITERS = {
    # field -> functions (path suffixes) allowed to store it; constructors/reset always allowed
    "input_size": ("Generator::update", "Generator::update_by_iter", "Generator::update_by_byte"),
    "fixed_size": ("Generator::set_fixed_input_size",),
    "bhidx_end_limit": ("Generator::set_fixed_input_size",),
    "elim_border": ("Generator::update", "Generator::update_by_iter", "Generator::update_by_byte"),
    "bhidx_start": ("Generator::update", "Generator::update_by_iter", "Generator::update_by_byte"),
    "bhidx_end": ("Generator::update", "Generator::update_by_iter", "Generator::update_by_byte"),
    "roll_mask": ("Generator::update", "Generator::update_by_iter", "Generator::update_by_byte"),
    "h_last": ("Generator::update", "Generator::update_by_iter", "Generator::update_by_byte"),
    "is_last": ("Generator::update", "Generator::update_by_iter", "Generator::update_by_byte"),
}
ALWAYS = ("Generator::new", "Generator::reset", "generate::tests", "make_generator_with_prefix_zeroes")


def field_writers(ctx, prog):
    """who-may-write census over GeneratorInnerData: the declaration (fixed_size, bhidx_end_limit) is written only by
    set_fixed_input_size, the processed size only by the update forms, the engine state only by the update forms; new/reset
    write everything.  Hence finalisers, queries and refusals cannot alter the state, and the hint is only ever set by the
    one validated entry point."""
    R = "SA-WHOWRITES"
    ctx.rule(R, "who-may-write census over the generator's fields (all stores in all MIR bodies whose place projects a field of GeneratorInnerData): each field is stored only by its designated functions (new/reset excepted)")
    n = 0
    owner = "internals::generate::GeneratorInnerData"
    for f in prog.fns:
        for i, j, s in f.stmts():
            if s["s"] != "assign":
                continue
            fl = [e for e in s["lhs"]["p"] if isinstance(e, dict) and "f" in e and e.get("of") == owner]
            if not fl:
                continue
            fld = fl[0]["n"]
            # sub-field stores (roll_hash.*, bh_context[..].*) belong to the engine/primitive rules
            if fld not in FIELD_WRITERS:
                if fld in ("roll_hash", "bh_context"):
                    allowed = FIELD_WRITERS["elim_border"]
                else:
                    allowed = ()
            else:
                allowed = FIELD_WRITERS[fld]
            n += 1
            ok = f.path.endswith(allowed) or any(a in f.path for a in ALWAYS)
            ctx.visit(f)
            ctx.ob(R, "%s stores generator field %s" % (f.short, fld), ok,
                   "designated writer" if ok else "field `%s` may only be written by %s (and new/reset)" % (fld, ", ".join(a.split("::")[-1] for a in allowed)), f.loc(s["sp"]))
        # &mut hand-offs of whole sub-objects (roll_hash.update_by_byte(..), bh_context[i].reset()) outside the engine
        for i, t in f.calls():
            for a in t["args"]:
                if a["k"] in ("copy", "move") and a["pl"]["ty"].startswith("&mut") and ("generate::BlockHashContext" in a["pl"]["ty"] or "RollingHash" in a["pl"]["ty"] or "PartialFNVHash" in a["pl"]["ty"]):
                    # is it a field of the generator?
                    e = Sym(f).operand(a)
                    r, names = fpath(e)
                    if names and names[0] == "0" and r[0] == "param" and "Generator" in f.locals[r[1]]["ty"]:
                        n += 1
                        ok = f.path.endswith(FIELD_WRITERS["elim_border"]) or any(x in f.path for x in ALWAYS)
                        ctx.ob(R, "%s hands out &mut of generator sub-object %s" % (f.short, ".".join(names[1:2])), ok, "callee %s" % callee_of(t).split("::")[-1], f.loc(t["sp"]))
    ctx.floor(R, n, 30, "stores / &mut hand-offs of generator state")


def ilog2_fallback(ctx, prog):
    """configuration `msrv` (the branch build.rs selects for rustc < 1.67): the hand-written `u64_ilog2` is floor(log2(value)) =
    (BITS - 1) - leading_zeros(value), read as a linear form over the one call `leading_zeros(value)`; the size-based block-size index
    (`ilog2((size - 1) / 192) + 1`) is one too large for every non-power-of-two quotient if this is the ceiling instead"""
    import re
    from . import summary
    R = "SA-FORMULA"
    ctx.rule(R, "the returned expression tree (single-assignment temporaries expanded, casts ignored, commutative operands unordered) equals the documented formula")
    f = prog.fn("utils::u64_ilog2")
    ctx.visit(f, weak=True)
    lines = summary.summary(f)
    X = "core::num::<impl u64>::leading_zeros(param:value)"
    ok, why = False, "body %s" % lines
    if len(lines) == 2 and lines[1] == "RET" and lines[0].startswith("STORE local:v0 = "):
        e = lines[0][len("STORE local:v0 = "):]
        if e == "core::num::<impl u64>::ilog2(param:value)":
            ok, why = True, "the library's ilog2"
        else:
            e = e.replace(X, "X")
            e = re.sub(r"core::num::<impl u64>::(\d+)", r"\1", e)

            def lin(t):
                t = t.strip()
                if t == "X":
                    return (0, 1)
                if re.fullmatch(r"\d+", t):
                    return (int(t), 0)
                m = re.fullmatch(r"(Sub|Add)\((.*)\)", t)
                if not m:
                    return None
                args = summary._split_top(m.group(2))
                if len(args) != 2:
                    return None
                a, b = lin(args[0]), lin(args[1])
                if a is None or b is None:
                    return None
                s = 1 if m.group(1) == "Add" else -1
                return (a[0] + s * b[0], a[1] + s * b[1])
            v = lin(e)
            ok = v == (63, -1)
            why = "linear form %s of %s" % (v, e)
    ctx.ob(R, "u64_ilog2 (fallback for rustc < 1.67) = 63 - leading_zeros(value), the floor of log2", ok, why, f.loc())
    ctx.floor(R, 1, 1, "fallback logarithm read")
