"""C16 — equality, hashing and ordering use the same fields, like with like (field-level clauses)."""
from ..rules import eqord, tail, fields, vis, summary, beliefs, data

EXPL = ("Decides on MIR for both type families: PartialEq compares only like-named fields of self and other and all fields take part "
        "(lengths, block size, and the block hash prefixes sliced by the like-indexed length); Hash feeds exactly the fields PartialEq "
        "compares, all from self; Ord is one lexicographic tuple comparison whose i-th components are the same field on both sides, "
        "covering all fields in the documented order (block size, block hash 1 array, its length, block hash 2 array, its length); "
        "PartialOrd = Some(cmp); for dual hashes the first compared component is the normalised part. The dependence of Ord/full "
        "equality on the zero tail is discharged by SA-TAIL (every writer of block-hash storage is under a tail rule; the in-place normaliser "
        "and the dual compressor clear the freed tail / terminator-fill the RLE block from the final offset, so whole-array Eq/Hash/Ord of "
        "the dual type see canonical storage). NOT decided: "
        "the documented order as a value statement over all pairs (it needs the zero-tail invariant plus array comparison semantics).")


def run(ctx):
    cfgs = ["rel"] if ctx.tier == "quick" else ["rel", "dbg", "unsafe", "nodef"]
    ctx.progs(cfgs)  # build all configurations in parallel
    for c in cfgs:
        prog = ctx.prog(c)
        ctx.guard("C16", "plain", lambda: eqord.eq_hash_ord(ctx, prog, "FuzzyHashData"))
        ctx.guard("C16", "dual", lambda: eqord.eq_hash_ord(ctx, prog, "FuzzyHashDualData"))
        ctx.guard("C16", "sym", lambda: eqord.len_index_symmetry(ctx, prog))
        ctx.guard("C16", "writers", lambda: tail.classify_writers(ctx, prog))
        ctx.guard("C16", "rle", lambda: tail.rle_write_census(ctx, prog))
        ctx.guard("C16", "tail-c", lambda: tail.compress_expand(ctx, prog))
        ctx.guard("C16", "tail-n", lambda: tail.normalize_in_place(ctx, prog))
        ctx.guard("C16", "full-eq", lambda: eqord.full_eq(ctx, prog))
        ctx.guard("C16", "traits", lambda: vis.trait_census(ctx, prog, scope='core::cmp::|core::hash::Hash'))
        ctx.guard("C16", "const values", lambda: data.const_census(ctx, prog, data.CONST_SCOPES["C16"], floor=1))
        ctx.guard("C16", "panic conditions", lambda: beliefs.live_census(ctx, prog, beliefs.SCOPES["C16"][0]))
        ctx.guard("C16", "summaries", lambda: summary.check(ctx, prog, 'core::cmp::|core::hash::Hash|::cmp_by_block_size|block_size::cmp', floor=2))
        ctx.guard("C16", "path summaries", lambda: summary.check_paths(ctx, prog, 'core::cmp::|core::hash::Hash|::cmp_by_block_size|block_size::cmp', floor=2))
        if c in ("dbg", "unsafe_dbg", "strict_dbg"):
            ctx.guard("C16", "beliefs", lambda: beliefs.census(ctx, prog, beliefs.SCOPES["C16"][0], floor=beliefs.SCOPES["C16"][1]))
    return ctx.finish(EXPL, ["core tuple/array/slice comparison and Hasher::write* have their documented meaning"])
