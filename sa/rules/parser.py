"""Parser rules (C04): totality residue, index purity, error origin by phase, template use."""
import re
from ..sym import Sym, strip, show, canon, fpath, const_value, path_conds, bool_atom, is_param
from ..mir import callee_of, pl
from . import guard as G, errpure, panic
from .panic import side_only_called_from, side_compress_inputs_bounded, side_and, side_index_counts_consumed


def side_enumerate_same_slice(prog, f, sy, e):
    """parse_block_size_from_bytes: `bytes[index + 1..]` where index is the Enumerate index of `bytes.iter()`"""
    t = e["t"]
    base = strip(sy.operand(t["args"][0]))
    rg = strip(sy.operand(t["args"][1]))
    if not (rg[0] == "agg" and rg[1].endswith("RangeFrom::RangeFrom")):
        return False, "not a RangeFrom"
    st = strip(rg[2][0])
    if not (st[0] == "bin" and st[1] == "Add" and const_value(st[3]) == 1):
        return False, "start is %s" % show(st)
    r, names = fpath(st[2])
    if not (r[0] == "call" and r[1].endswith("::next") and names == ("<Some>", "0", "0")):
        return False, "start is not enumerate-index + 1"
    it = sy.origin(strip(r[2][0]))
    src = it
    while src[0] == "call" and len(src[2]) == 1 and src[1].split("::")[-1] in ("into_iter", "enumerate", "iter"):
        src = strip(src[2][0])
    ok = canon(src) == canon(base)
    return ok, "start = enumerate index + 1 over the same slice %s" % show(base) if ok else "iterator runs over %s but %s is re-sliced" % (show(src), show(base))


def side_take_n(prog, f, sy, e):
    """strict parser: the symbol iterator is `bytes.iter().copied().take(N)` with N the destination capacity"""
    for i, t in f.calls():
        if callee_of(t).endswith("Iterator::take"):
            n = sy.operand(t["args"][1])
            if n[0] == "const" and n[2] in ("N",):
                return True, "iterator bounded by take(N), N = capacity of the destination array"
            return False, "take(%s) is not the destination capacity" % show(n)
    return False, "no take(N) on the symbol iterator"


PARSE_RESIDUE = {
    # keys: (function suffix, name-independent edge shape) - see panic.shape()
    ("hash::algorithms::parse_block_size_from_bytes", "index(arg1, RangeFrom)"):
        ("the re-slice starts at the Enumerate index of the byte just matched + 1, over the same slice, so start <= len", side_enumerate_same_slice),
    ("hash::algorithms::parse_block_hash_from_bytes", "index(arg4, RangeFrom)"):
        ("the re-slice starts at the count of bytes already yielded by the iterator over the same slice (or that count + 1 when a "
         "terminating byte was yielded but not counted)", side_index_counts_consumed),
    ("hash::algorithms::parse_block_hash_from_bytes", "bounds[N]"):
        ("(strict parser) at most N symbols are yielded", side_take_n),
    ("hash::FuzzyHashData::<S1, S2, NORM>::block_hash_1", "index(arg1.blockhash1, RangeTo)"):
        ("object invariant len_blockhash1 <= S1 of the raw hash just produced by the parser (its stores are guarded by len < N)", None),
    ("hash::FuzzyHashData::<S1, S2, NORM>::block_hash_2", "index(arg1.blockhash2, RangeTo)"):
        ("object invariant len_blockhash2 <= S2 of the raw hash just produced by the parser", None),
    ("hash_dual::algorithms::compress_block_hash_with_rle", "bounds[SZ_BH]"):
        ("the store index counts stored symbols <= blockhash_in.len() <= SZ_BH", side_compress_inputs_bounded),
    ("hash_dual::algorithms::compress_block_hash_with_rle", "index_mut(arg1, RangeFrom)"):
        ("stored length <= blockhash_in.len() <= SZ_BH", side_compress_inputs_bounded),
    ("hash_dual::algorithms::compress_block_hash_with_rle", "index_mut(arg2, RangeFrom)"):
        ("encoder offset <= ceil(SZ_BH / 4) <= SZ_RLE for raw inputs of at most SZ_BH symbols (const-asserted sizes)",
         side_and(side_compress_inputs_bounded, side_only_called_from("hash_dual::algorithms::update_rle_block", ("compress_block_hash_with_rle",)))),
    ("hash_dual::algorithms::update_rle_block", "index_mut(arg1, Range)"):
        ("RLE capacity ceil(SZ_BH/4) suffices when runs come from a raw block hash of at most SZ_BH symbols: only compress_block_hash_with_rle may call the encoder, with bounded inputs",
         side_and(side_only_called_from("hash_dual::algorithms::update_rle_block", ("compress_block_hash_with_rle",)), side_compress_inputs_bounded)),
    ("hash_dual::algorithms::update_rle_block", "bounds[SZ_RLE]"):
        ("same capacity argument as the range fill",
         side_and(side_only_called_from("hash_dual::algorithms::update_rle_block", ("compress_block_hash_with_rle",)), side_compress_inputs_bounded)),
}


def totality(ctx, prog):
    ctx.rule(panic.R, "every panic edge (MIR Assert, panicking Index/unwrap/copy call, explicit panic) in the call-graph closure of the total operations is discharged: D0 constant non-zero divisor, D1/D2 index bounded by type or shape, D3 dominating guard on the same operands, or D7 a reviewed residue entry (reason + structural side condition where one exists)")
    ents = panic.parse_entries(prog)
    n, nb = panic.audit(ctx, prog, ents, PARSE_RESIDUE, "parse")
    ctx.floor(panic.R, len(ents), 6, "generic parse entry points (from_bytes, from_bytes_with_last_index, from_str x plain/dual)")
    ctx.floor(panic.R, n, 10, "panic edges in the parse closure")
    ctx.floor(panic.R, nb, 20, "bodies in the parse closure")


def index_purity(ctx, prog):
    """the caller's *index is written only on the way to Ok"""
    R = "SA-ERRPURE"
    ctx.rule(R, "on every CFG path from entry to an error outcome there is no store through, and no &mut hand-off of, the caller-visible mutable roots (except to a callee verified by the same rule whose result is returned)")
    n = 0
    verified = []
    for f in prog.fns:
        if not f.path.endswith("::from_bytes_with_last_index_internal"):
            continue
        n += 1
        ctx.visit(f)
        sy = Sym(f)
        errs = G.blocks_returning_variant(f, sy, "Result::Err")
        # `?` propagation of a callee's error
        for i, t in f.calls():
            if "from_residual" in callee_of(t) and t["dest"]["l"] == 0:
                errs.append(i)
        errpure.check(ctx, R, "%s leaves *index untouched on failure" % f.short, f, {2}, errs,
                      allowed_callees=("FuzzyHashData::<S1, S2, NORM>::from_bytes_with_last_index",), what="the caller's index")
        # after a store to *index only Ok is reachable
        al = errpure.mut_aliases(f, {2})
        for b in sorted(f.live):
            for d, sp in errpure.writes_in_block(f, b, al, allowed_callees=()):
                reach = f.reach_from(b)
                bad = [x for x in errs if x in reach and x != b]
                ctx.ob(R, "%s: after writing *index only Ok is reachable" % f.short, not bad or d.startswith("&mut handed"),
                       "%s then Err at bb%s" % (d, bad) if bad else d, f.loc(sp))
        verified.append(f.path)
    # public wrappers delegate directly
    for f in prog.fns:
        if f.path.endswith("::from_bytes_with_last_index") and f.exported:
            n += 1
            sy = Sym(f)
            ok = False
            for i, t in f.calls():
                if t["dest"]["l"] == 0 and callee_of(t).endswith("::from_bytes_with_last_index_internal"):
                    ok = is_param(strip(sy.operand(t["args"][1])), "index")
            ctx.ob("SA-DELEGATE", "%s returns from_bytes_with_last_index_internal(str, index)" % f.short, ok, "", f.loc())
    ctx.floor(R, n, 4, "parser drivers and wrappers")


def error_origin_by_phase(ctx, prog):
    """every ParseError built after the first block-hash parse call and before the second carries BlockHash1;
    after the second, BlockHash2; before the first, it is the block-size parser's own error"""
    R = "SA-PHASE"
    ctx.rule(R, "dominance rule over the shared parser template: a ParseError aggregate dominated by the k-th parse_block_hash_from_bytes call (and not by a later one) names BlockHash<k> as its origin")
    n = 0
    for f in prog.fns:
        if not f.path.endswith("::from_bytes_with_last_index_internal"):
            continue
        sy = Sym(f)
        calls = [i for i, t in f.calls() if callee_of(t).endswith("parse_block_hash_from_bytes")]
        if len(calls) != 2:
            if len(calls) == 0:
                continue  # delegating driver (dual): no template expansion here
            ctx.ob(R, "%s: two block-hash parse calls" % f.short, False, "%d calls" % len(calls), f.loc())
            continue
        c1, c2 = sorted(calls, key=lambda b: (f.dominates(calls[0], b) and b != calls[0]))
        if not f.dominates(c1, c2):
            c1, c2 = c2, c1
        for i, j, s in f.stmts():
            if s["s"] == "assign" and s["rv"]["r"] == "agg" and s["rv"]["kind"].get("adt", "").endswith("parser_state::ParseError"):
                e = sy.rvalue(s["rv"])
                origin = e[2][1][1].split("::")[-1] if e[2][1][0] == "agg" else show(e[2][1])
                kind = e[2][0][1].split("::")[-1] if e[2][0][0] == "agg" else show(e[2][0])
                if f.dominates(c2, i):
                    want = "BlockHash2"
                elif f.dominates(c1, i):
                    want = "BlockHash1"
                else:
                    want = None
                n += 1
                ctx.ob(R, "%s: ParseError(%s) in phase %s names that part" % (f.short, kind, want), origin == want,
                       "origin %s at bb%d" % (origin, i), f.loc(s["sp"]))
        # the two calls write blockhash1/len1 then blockhash2/len2 (index symmetry) with capacity S1 / S2
        for k, c in ((1, c1), (2, c2)):
            t = f.blocks[c]["term"]
            a0, a1 = sy.operand(t["args"][0]), sy.operand(t["args"][1])
            n0, n1 = fpath(a0)[1], fpath(a1)[1]
            ok = n0[-1:] == ("blockhash%d" % k,) and n1[-1:] == ("len_blockhash%d" % k,) and fpath(a0)[0] == fpath(a1)[0]
            gar = t["gargs"][-1] if t["gargs"] else ""
            ok = ok and gar == "S%d" % k
            ctx.ob(R, "%s: parse call %d fills (blockhash%d, len_blockhash%d) with capacity S%d" % (f.short, k, k, k, k), ok,
                   "args %s, %s; N=%s" % (".".join(n0), ".".join(n1), gar), f.loc(t["sp"]))
    ctx.floor(R, n, 7, "ParseError aggregates in the template expansion")


def symbol_store(ctx, prog):
    """the symbol stored is the reverse-table value on the not-INVALID arm; fresh destination at every call site"""
    R = "SA-TAIL"
    f = prog.fn("hash::algorithms::parse_block_hash_from_bytes")
    ctx.visit(f)
    sy = Sym(f)
    n = 0
    for i, j, s in f.stmts():
        if s["s"] != "assign":
            continue
        lhs = s["lhs"]
        if lhs["l"] == 1 and any(isinstance(e, dict) and "ix" in e for e in lhs["p"]):
            n += 1
            v = strip(sy.rvalue(s["rv"]))
            ok = v[0] == "call" and v[1].endswith("base64::base64_index")
            # guarded by bch != BASE64_INVALID
            g = False
            for c in path_conds(f, sy, i):
                a = bool_atom(c)
                if a and a[0] in ("Ne", "Eq") and canon(strip(a[1])) == canon(v) and strip(a[2])[0] == "const" and strip(a[2])[1] == 64:
                    g = a[0] == "Ne"
            ixl = [e for e in lhs["p"] if isinstance(e, dict) and "ix" in e][0]["ix"]
            ie = sy.local(ixl)
            ctx.ob("SA-GUARD", "parse_block_hash_from_bytes stores base64_index(ch) only when it is not BASE64_INVALID (so every stored symbol < 64)", ok and g,
                   "blockhash[%s] = %s; guarded: %s" % (show(ie), show(v), g), f.loc(s["sp"]))
    ctx.floor("SA-GUARD", n, 1, "symbol stores in parse_block_hash_from_bytes")
    # freshness: every call site passes fields of an object created by new() in the same function
    cs = panic.call_sites(prog, "hash::algorithms::parse_block_hash_from_bytes")
    for g, i, t in cs:
        gs = Sym(g)
        a0 = gs.operand(t["args"][0])
        root, names = fpath(a0)
        org = gs.origin(root)
        ok = org[0] == "call" and org[1].endswith("::new")
        ctx.ob(R, "parse_block_hash_from_bytes call in %s writes into a fresh (all-zero) object" % g.short, ok,
               "destination root %s = %s" % (show(root), show(org)), g.loc(t["sp"]))
    ctx.floor(R, len(cs), 2, "call sites of parse_block_hash_from_bytes")


def _is_fetch(z):
    """an expression that fetches the next item: `it.next()`, or `slice.first().copied()` (the first item of a fresh re-slice)"""
    z = strip(z)
    if z[0] != "call":
        return False
    if z[1].endswith("::next"):
        return True
    if z[1].split("::")[-1] in ("copied", "cloned") and z[2]:
        y = strip(z[2][0])
        return y[0] == "call" and y[1].split("::")[-1] == "first"
    return False


def _ran_dry_flag(f, sy, l):
    """is local `l` the loop result `did the loop stop at a character (true) / did the iterator run dry (false)`:
    a named bool assigned only the constants true and false, false exactly on the None arm of an iterator's next()"""
    ds = f.defs.get(l, [])
    if f.locals[l]["ty"] != "bool" or len(ds) < 2 or any(k != "rv" for (_b, _i, k, _x) in ds):
        return False
    vals = {}
    for (blk, _i, _k, x) in ds:
        v = const_value(sy.rvalue(x))
        if v not in (0, 1):
            return False
        vals.setdefault(v, []).append(blk)
    if set(vals) != {0, 1}:
        return False
    for blk in vals[0]:
        dry = False
        for c in path_conds(f, sy, blk):
            e = c[0]
            if e[0] != "discr" or not ((c[1] == "in" and list(c[2]) == [0]) or (c[1] == "notin" and list(c[2]) == [1])):
                continue
            src = strip(e[1])
            srcs = [src]
            if src[0] == "local":
                srcs = [strip(sy.call(x, b2)) if k2 == "call" else strip(sy.rvalue(x)) for (b2, _i2, k2, x) in f.defs.get(src[1], [])]
            if srcs and all(_is_fetch(z) for z in srcs):
                dry = True
        if not dry:
            return False
    return True


def strict_lookahead(ctx, prog):
    """strict parser only: when the take(N)-bounded iterator runs dry (`!has_char`) the next raw byte is always re-fetched
    from bytes[index..]; the re-fetch must not depend on anything else (e.g. on how many symbols were stored)"""
    f = prog.fn("hash::algorithms::parse_block_hash_from_bytes")
    sy = Sym(f)
    has_take = any(callee_of(t).endswith("Iterator::take") for i, t in f.calls())
    if not has_take:
        return
    ctx.visit(f)
    sites = []
    starts = []
    for i, t in f.calls():
        if callee_of(t).endswith("::next") or callee_of(t).split("::")[-1] == "first":
            src = sy.origin(strip(sy.operand(t["args"][0])))
            while src[0] == "call" and src[2] and src[1].split("::")[-1] in ("into_iter", "iter", "copied", "cloned"):
                src = strip(src[2][0])
            # a look-ahead iterates a re-slice `bytes[X..]` of the input parameter
            if src[0] == "call" and src[1].split("::")[-1] == "index" and len(src[2]) == 2:
                rg = strip(src[2][1])
                base_root = fpath(src[2][0])[0]
                if rg[0] == "agg" and rg[1].endswith("RangeFrom::RangeFrom") and base_root[0] == "param":
                    sites.append((i, t))
                    starts.append(strip(rg[2][0]))
    ok = len(sites) == 1
    why = "%d look-ahead sites" % len(sites)
    if ok:
        i, t = sites[0]
        bad = []
        seen_has_char = False
        for c in path_conds(f, sy, i):
            e = c[0]
            if e[0] == "discr":
                continue
            a = bool_atom(c)
            if a and a[0] == "truth" and a[1][0] == "local" and a[1][2] and _ran_dry_flag(f, sy, a[1][1]):
                seen_has_char = seen_has_char or (a[2] is False)
                continue
            if a and a[0] == "truth" and a[1][0] == "local":
                continue  # compiler temporaries of the loop-exit plumbing
            bad.append(G.show_atom(G.atoms([c])[0]))
        ok = seen_has_char and not bad
        why = "look-ahead guarded by !has_char%s" % ("" if not bad else " AND extra condition(s): %s" % "; ".join(bad))
        # the look-ahead position is the consumed-bytes counter (incremented once per item on every iteration path)
        st = starts[0]
        if st[0] == "local":
            ok2, w2 = panic.counter_counts_every_item(f, sy, st[1])
        else:
            ok2, w2 = False, "look-ahead position %s is not a counter" % show(st)
        ctx.ob("SA-GUARD", "strict parser: the look-ahead reads the byte at the number of consumed input bytes", ok2, w2, f.loc(t["sp"]))
    ctx.ob("SA-GUARD", "strict parser: the look-ahead byte is re-fetched exactly when the bounded iterator ran dry (no other condition)", ok, why, f.loc(sites[0][1]["sp"]) if sites else f.loc())


def block_size_field(ctx, prog):
    """parse_block_size_from_bytes: each outcome is reached under exactly the grammar's condition (necessary conditions
    from the controlling branch edges) and carries the documented position"""
    R = "SA-GUARD"
    f = prog.fn("hash::algorithms::parse_block_size_from_bytes")
    ctx.visit(f)
    sy = Sym(f)
    item = r"\(<core::iter::Enumerate<I> as core::iter::Iterator>::next\(local:\w*\) as Some\)\.0"
    ch = item + r"\.1"
    idx = item + r"\.0"
    import re as _re

    def conds_at(b):
        out = []
        for c in path_conds(f, sy, b):
            e = c[0]
            if e[0] == "discr":
                out.append("discr(%s) %s %s" % (canon(e[1]), c[1], list(c[2])))
                continue
            a = bool_atom(c)
            if a is None:
                out.append("%s %s %s" % (canon(strip(c[0])), c[1], list(c[2])))
            elif a[0] == "truth":
                out.append("%s is %s" % (canon(strip(a[1])), a[2]))
            else:
                out.append("%s(%s,%s)" % (a[0], canon(strip(a[1])), canon(strip(a[2]))))
        return out

    # outcome blocks by error kind
    kinds = {}
    for i, j, s in f.stmts():
        if s["s"] == "assign" and s["rv"]["r"] == "agg" and s["rv"]["kind"].get("adt", "").endswith("parser_state::ParseError"):
            e = sy.rvalue(s["rv"])
            kind = e[2][0][1].split("::")[-1] if e[2][0][0] == "agg" else "?"
            origin = e[2][1][1].split("::")[-1] if e[2][1][0] == "agg" else "?"
            kinds.setdefault(kind, []).append((i, origin, canon(strip(e[2][2])), s))
    # an error value built early and returned later (a default result) is an outcome of the place where it is RETURNED
    for kind, lst in list(kinds.items()):
        for n_, (bi, origin, pos, s_) in enumerate(list(lst)):
            want = canon(strip(sy.rvalue(s_["rv"])))
            sites_ = []
            for i, j, s in f.stmts():
                if s["s"] == "assign" and s["lhs"]["l"] == 0 and not s["lhs"]["p"] and want in canon(strip(sy.rvalue(s["rv"]))):
                    sites_.append(i)
            if len(lst) == 1 and len(set(sites_)) == 1 and sites_[0] != bi and f.dominates(bi, sites_[0]):
                lst[n_] = (sites_[0], origin, pos, s_)
    ctx.floor(R, len(kinds), 6, "error outcomes of the block-size field parser")
    IS_COLON = r"^%s in \[58\]$" % ch
    NOT_COLON = r"^%s notin \[58\]$" % ch
    IDX0 = r"^Eq\(%s,0\)$" % idx
    IDXN0 = r"^Ne\(%s,0\)$" % idx
    # roles: ACC = the accumulated value (first component of the Ok tuple); FLAG = the named bool assigned only true / false
    acc_l = None
    for i, j, s in f.stmts():
        if s["s"] == "assign" and s["lhs"]["l"] == 0 and s["rv"]["r"] == "agg" and s["rv"]["kind"].get("variant") == "Ok":
            v = strip(sy.operand(s["rv"]["ops"][0]))
            if v[0] == "agg" and strip(v[2][0])[0] == "local":
                acc_l = strip(v[2][0])[1]
    flags = [l for l in range(f.argc + 1, len(f.locals)) if f.locals[l]["name"] and f.locals[l]["ty"] == "bool" and len(f.defs.get(l, [])) >= 2 and
             all(k == "rv" and const_value(sy.rvalue(x)) in (0, 1) for (_b, _i, k, x) in f.defs[l])]
    if acc_l is None or len(flags) != 1:
        ctx.ob(R, "parse_block_size_from_bytes: accumulator and in-range flag identified", False, "accumulator %s, flags %s" % (acc_l, flags), f.loc())
        return
    # the in-range flag: true at the start, false exactly where the checked accumulation yielded None, nothing else
    fl = flags[0]
    fdefs = []
    for (b, _i, k, x) in f.defs.get(fl, []):
        v = const_value(strip(sy.rvalue(x))) if k == "rv" else None
        # (the None arm of the accumulation's Option - spelled `checked_mul(..).and_then(..)` or as a `match` into a local - not the iterator's)
        none_arm = any(not (strip(strip(c[0])[1])[0] == "call" and strip(strip(c[0])[1])[1].endswith("::next")) for c in path_conds(f, sy, b)
                       if strip(c[0])[0] == "discr" and ((c[1] == "in" and list(c[2]) == [0]) or (c[1] == "notin" and list(c[2]) == [1])))
        fdefs.append((v, none_arm))
    okf = sorted(fdefs, key=str) == sorted([(1, False), (0, True)], key=str)
    ctx.ob(R, "parse_block_size_from_bytes: the in-range flag starts true and is cleared exactly on the overflow (None) arm of the checked accumulation", okf,
           "definitions (value, on the None arm): %s" % fdefs, f.loc())
    ACC = r"local:%s_%d" % (_re.escape(f.locals[acc_l]["name"]), acc_l)
    FLAG = r"local:%s_%d" % (_re.escape(f.locals[flags[0]]["name"]), flags[0])
    INRANGE_T = r"^%s is True$" % FLAG
    INRANGE_F = r"^%s is False$" % FLAG
    DIG_LO = r"^Le\((48=)?48,%s\)$" % ch
    DIG_HI = r"^Le\(%s,(57=)?57\)$" % ch
    want = {
        "UnexpectedCharacter": ([NOT_COLON], r"^%s$" % idx),
        "BlockSizeStartsWithZero": ([DIG_LO, DIG_HI, INRANGE_T, r"^Eq\(%s,0\)$" % ACC], r"^0$"),
        "BlockSizeIsEmpty": ([IS_COLON, IDX0], r"^0$"),
        "BlockSizeIsTooLarge": ([IS_COLON, IDXN0, INRANGE_F], r"^0$"),
        "BlockSizeIsInvalid": ([IS_COLON, IDXN0, INRANGE_T, r"^internals::hash::block::block_size::is_valid\(%s\) is False$" % ACC], r"^0$"),
        "UnexpectedEndOfString": ([r"^discr\(<core::iter::Enumerate<I> as core::iter::Iterator>::next\(local:\w*\)\) in \[0\]$"], r"^core::slice::<impl \[T\]>::len\(param:bytes\)$"),
    }
    for kind, (rxs, posrx) in want.items():
        if kind not in kinds:
            ctx.ob(R, "parse_block_size_from_bytes: outcome %s exists" % kind, False, "not found", f.loc())
            continue
        # EVERY site that raises this kind is held to the kind's conditions (a second, earlier site under another condition is a new refusal)
        for (b, origin, pos, s) in kinds[kind]:
            cs = conds_at(b)
            missing = [rx for rx in rxs if not any(_re.search(rx, c) for c in cs)]
            ok = not missing and origin == "BlockSize" and _re.search(posrx, pos) is not None
            ctx.ob(R, "parse_block_size_from_bytes: %s is raised under the grammar's condition, with origin BlockSize and the documented position" % kind, ok,
                   ("conditions %s; position %s" % (cs, pos))[:400] if not ok else "position %s; %d conditions matched" % (pos, len(rxs)), f.loc(s["sp"]))
    # Ok outcome
    oks = G.blocks_returning_variant(f, sy, "Result::Ok")
    okc = conds_at(oks[0]) if oks else []
    need = [IS_COLON, IDXN0, INRANGE_T, r"^internals::hash::block::block_size::is_valid\(%s\) is True$" % ACC]
    missing = [rx for rx in need if not any(_re.search(rx, c) for c in okc)]
    val = None
    for i, j, s in f.stmts():
        if s["s"] == "assign" and s["lhs"]["l"] == 0 and s["rv"]["r"] == "agg" and s["rv"]["kind"].get("variant") == "Ok":
            val = canon(strip(sy.operand(s["rv"]["ops"][0])))
    okv = val is not None and _re.search(r"^Tuple\{%s,Add\(%s,1\)\}$" % (ACC, idx), val) is not None
    ctx.ob(R, "parse_block_size_from_bytes: Ok((block_size, index+1)) only at ':' with a non-empty, in-range, valid block size", bool(oks) and not missing and okv,
           ("value %s; conditions %s" % (val, okc))[:400], f.loc())
    # the accumulation: block_size = checked_mul(block_size, 10).and_then(|x| x.checked_add((ch - b'0') as u32))
    acc = None
    for i, t in f.calls():
        if callee_of(t).endswith("Option::<T>::and_then"):
            acc = sy.call(t, i)
    ok = False
    why = "no and_then"
    if acc is not None:
        a0 = strip(acc[2][0])
        ok = a0[0] == "call" and a0[1].endswith("checked_mul") and const_value(a0[2][1]) == 10 and strip(a0[2][0])[0] == "local"
        cl = strip(acc[2][1])
        why = show(acc)[:160]
        if ok and cl[0] == "agg" and cl[1].startswith("Closure:"):
            g = prog.get(cl[1][len("Closure:"):])
            ce = strip(Sym(g).local(0)) if g else None
            ok = ce is not None and ce[0] == "call" and ce[1].endswith("checked_add") and canon(strip(ce[2][1])).startswith("Sub(") and canon(strip(ce[2][1])).endswith(",48)")
            why += " ; closure: %s" % (show(ce)[:120] if ce else None)
    if acc is None:
        # the same chain spelled as a match: `match bs.checked_mul(10) { Some(x) => x.checked_add(d), None => None }`
        for i, t in f.calls():
            if callee_of(t).endswith("::checked_add") and len(t["args"]) == 2:
                x, dgt = canon(strip(sy.operand(t["args"][0]))), canon(strip(sy.operand(t["args"][1])))
                okx = _re.match(r"^\(core::num::<impl u32>::checked_mul\(%s,10\) as Some\)\.0$" % ACC, x) is not None
                okd = dgt.startswith("Sub(") and dgt.endswith(",48)")
                nones = [c for c in conds_at(i)]
                ok = okx and okd
                why = "match form: checked_add(%s, %s)" % (x[:80], dgt[:60])
    ctx.ob(R, "parse_block_size_from_bytes accumulates block_size*10 + (ch - '0') with overflow detection (checked_mul / checked_add)", ok, why, f.loc())


def result_expr(f, sy):
    """the expression a body returns; `match r { Ok(v) => Ok(v), Err(e) => Err(e) }` around a call r is r (each arm rebuilds the
    variant it matched from that variant's own payload)"""
    e = strip(sy.local(0))
    if e[0] != "local":
        return e
    vals = []
    for (b, _i, k, x) in f.defs.get(0, []):
        if k != "rv":
            return e
        vals.append(strip(sy.rvalue(x)))
    srcs = set()
    seen = set()
    for v in vals:
        if v[0] != "agg" or len(v[2]) != 1:
            return e
        var = v[1].split("::")[-1]
        r, names = fpath(v[2][0])
        if names != ("<%s>" % var, "0") or strip(r)[0] != "call":
            return e
        srcs.add(canon(strip(r)))
        seen.add(var)
        last = strip(r)
    if len(srcs) == 1 and seen == {"Ok", "Err"}:
        return last
    return e


def entry_forms(ctx, prog):
    """all parse entry points are the one driver on the caller's bytes: from_str(s) = from_bytes(s.as_bytes()),
    from_bytes(b) = driver(b, &mut <fresh index>), from_bytes_with_last_index(b, i) = driver(b, i)"""
    RD = "SA-DELEGATE"
    ctx.rule(RD, "a public form obtains its result only from the named single implementation (resolved call graph), so a property shown for that implementation holds for every form")
    n = 0
    for f in prog.fns:
        if f.impl_trait == "core::str::FromStr" and f.path.endswith("::from_str") and ("FuzzyHashData" in f.impl_self or "FuzzyHashDualData" in f.impl_self):
            n += 1
            ctx.visit(f)
            sy0 = Sym(f)
            e = strip(result_expr(f, sy0))
            ok = e[0] == "call" and e[1].endswith("::from_bytes") and len(e[2]) == 1
            direct = e[0] == "call" and e[1].endswith("::from_bytes_with_last_index_internal") and len(e[2]) == 2
            if ok or direct:
                a = strip(e[2][0])
                ok = a[0] == "call" and a[1].endswith("str>::as_bytes") and is_param(a[2][0], "s")
                if ok and direct:
                    # from_bytes written out: the driver on the same bytes with a fresh index 0
                    ix = sy0.origin(strip(e[2][1]))
                    ok = const_value(strip(ix)) == 0
            ctx.ob(RD, "%s = from_bytes(s.as_bytes()) (the text is handed over unchanged)" % f.short, ok, show(e)[:160], f.loc())
        if f.path.endswith("::from_bytes") and f.exported and ("FuzzyHashData" in f.path or "FuzzyHashDualData" in f.path):
            n += 1
            ctx.visit(f)
            sy = Sym(f)
            e = strip(result_expr(f, sy))
            ok = e[0] == "call" and e[1].endswith("::from_bytes_with_last_index_internal") and is_param(e[2][0], "str")
            if ok:
                ix = sy.origin(strip(e[2][1]))
                ok = const_value(ix) == 0 or strip(ix)[0] == "local"
            ctx.ob(RD, "%s = driver(str, &mut <fresh index>)" % f.short, ok, show(e)[:160], f.loc())
    ctx.floor(RD, n, 4, "from_str / from_bytes entry forms")


def _state_names(prog):
    adt = prog.adt("parser_state::BlockHashParseState")
    return [v["name"].split("::")[-1] for v in adt["variants"]]


def end_classification(ctx, prog):
    """parse_block_hash_from_bytes: how the stop of one block hash is classified, and how many bytes it reports consumed"""
    R = "SA-GUARD"
    ctx.rule(R, "field terminator classification: end of input -> MetEndOfString with `consumed` bytes; ':' / ',' -> MetColon / MetComma with consumed+1 "
             "(the terminator is eaten); any other byte -> Base64Error with `consumed` (strict parser: OverflowError instead when the bounded iterator ran dry); "
             "capacity exceeded (default parser) -> OverflowError with `consumed`; `consumed` is the counter that counts every item taken from the input")
    f = prog.fn("hash::algorithms::parse_block_hash_from_bytes")
    ctx.visit(f)
    sy = Sym(f)
    strict = any(callee_of(t).endswith("Iterator::take") for i, t in f.calls())

    def conds_at(b):
        out = []
        for c in path_conds(f, sy, b):
            e = strip(c[0])
            out.append((canon(e), c[1], sorted(c[2]), c))
        return out

    def variants_of(e):
        e = strip(e)
        if e[0] == "agg" and "BlockHashParseState::" in e[1]:
            return [(e[1].split("::")[-1], None)]
        if e[0] == "local":
            out = []
            for (blk, _i, kind, x) in f.defs.get(e[1], []):
                v = strip(sy.rvalue(x)) if kind == "rv" else None
                if v is not None and v[0] == "agg" and "BlockHashParseState::" in v[1]:
                    out.append((v[1].split("::")[-1], blk))
                else:
                    return None
            return out
        return None
    rows = []
    for i, j, s in f.stmts():
        if s["s"] == "assign" and s["rv"]["r"] == "agg" and s["rv"]["kind"].get("agg") == "Tuple" and len(s["rv"]["ops"]) == 2:
            e = sy.rvalue(s["rv"])
            vs = variants_of(e[2][0])
            if not vs:
                continue
            for (vn, vblk) in vs:
                cs = conds_at(i) + (conds_at(vblk) if vblk is not None else [])
                rows.append((vn, canon(strip(e[2][1])), cs, s))
    names = sorted(set(r[0] for r in rows))
    ctx.ob(R, "parse_block_hash_from_bytes: all five stop states are produced", names == sorted(_state_names(prog)), "states produced: %s" % names, f.loc())
    eos = [r for r in rows if r[0] == "MetEndOfString"]
    if len(eos) != 1 or not re.match(r"^local:\w+_\d+$", eos[0][1]):
        ctx.ob(R, "parse_block_hash_from_bytes: the consumed-bytes counter (second component at end of input)", False, "%s" % [r[1] for r in eos], f.loc())
        return
    CNT = eos[0][1]
    cl = int(CNT.rsplit("_", 1)[1])
    okc, wc = panic.counter_counts_every_item(f, sy, cl)
    ctx.ob(R, "parse_block_hash_from_bytes: `consumed` counts every item taken from the input", okc, wc, f.loc())

    def opt_is(cs, some):
        # the last fetched Option is Some / None
        for (txt, op, vals, c) in cs:
            if txt.startswith("discr(") and ("::next(" in txt or re.match(r"^discr\(local:\w+\)$", txt)):
                if (op == "in" and vals == [1 if some else 0]) or (op == "notin" and vals == [0 if some else 1]):
                    return True
        return False

    def byte_in(cs, op, vals):
        for (txt, o, v, c) in cs:
            if txt.endswith("as Some).0") and o == op and v == vals:
                return True
        return False
    want = {
        "MetEndOfString": (CNT, lambda cs: opt_is(cs, False)),
        "MetColon": ("Add(%s,1)" % CNT, lambda cs: opt_is(cs, True) and byte_in(cs, "in", [58])),
        "MetComma": ("Add(%s,1)" % CNT, lambda cs: opt_is(cs, True) and byte_in(cs, "in", [44])),
    }
    for r in rows:
        vn, consumed, cs, s = r
        consumed = re.sub(r"^\((\w+)WithOverflow\((.*)\)\)\.0$", r"\1(\2)", consumed)
        shown = [(t[:80], o, v) for (t, o, v, c) in cs][-4:]
        if vn in want:
            ok = consumed == want[vn][0] and want[vn][1](cs)
            ctx.ob(R, "parse_block_hash_from_bytes: %s is reported exactly at its terminator with the documented consumed count" % vn, ok, "consumed %s; conditions %s" % (consumed, shown), f.loc(s["sp"]))
        elif vn == "Base64Error":
            ok = consumed == CNT and opt_is(cs, True) and byte_in(cs, "notin", [44, 58])
            if strict:
                ok = ok and any(a and a[0] == "truth" and a[1][0] == "local" and _ran_dry_flag(f, sy, a[1][1]) and a[2] is True for a in (bool_atom(c) for (_t, _o, _v, c) in cs))
            ctx.ob(R, "parse_block_hash_from_bytes: Base64Error is reported at a byte that is neither ':' nor ','%s, not eaten" % (" and was really fetched (iterator not dry)" if strict else ""),
                   ok, "consumed %s; conditions %s" % (consumed, shown), f.loc(s["sp"]))
        elif vn == "OverflowError":
            if strict:
                ok = consumed == CNT and opt_is(cs, True) and byte_in(cs, "notin", [44, 58]) and \
                    any(a and a[0] == "truth" and a[1][0] == "local" and _ran_dry_flag(f, sy, a[1][1]) and a[2] is False for a in (bool_atom(c) for (_t, _o, _v, c) in cs))
                what = "the bounded iterator ran dry and the next byte is no terminator"
            else:
                ok = consumed == CNT and any(a and a[0] == "Ge" and canon(strip(a[2])) in ("N",) and strip(a[1])[0] == "local" for a in (bool_atom(c) for (_t, _o, _v, c) in cs))
                what = "the stored length has reached the capacity N"
            ctx.ob(R, "parse_block_hash_from_bytes: OverflowError is reported exactly when %s" % what, ok, "consumed %s; conditions %s" % (consumed, shown), f.loc(s["sp"]))


def capacity_after_collapse(ctx, prog):
    """default parser: the capacity test belongs to the store - it is evaluated only for a symbol that is going to be stored,
    i.e. after the run-collapsing decision; a collapsed repeat needs no room and must not be refused"""
    from ..sym import const_named
    R = "SA-GUARD"
    f = prog.fn("hash::algorithms::parse_block_hash_from_bytes")
    sy = Sym(f)
    if any(callee_of(t).endswith("Iterator::take") for i, t in f.calls()):
        return  # strict parser: capacity is enforced by take(N) on the raw text
    ctx.visit(f)
    caps = []
    runs = []
    for i, j, s in f.stmts():
        if s["s"] == "assign" and s["rv"]["r"] == "bin" and s["rv"]["op"] in ("Ge", "Gt", "Lt", "Le", "Eq", "Ne"):
            a, b = strip(sy.operand(s["rv"]["a"])), strip(sy.operand(s["rv"]["b"]))
            if (s["rv"]["op"] == "Ge" and canon(b) == "N") or (s["rv"]["op"] == "Le" and canon(a) == "N"):
                caps.append(i)   # (the bounds check of the store itself is `index < N` on an Assert edge, not a refusal)
            if const_named(a, "block_hash::MAX_SEQUENCE_SIZE") or const_named(b, "block_hash::MAX_SEQUENCE_SIZE"):
                runs.append(i)
    hdr = [i for i, t in f.calls() if callee_of(t).endswith("::next")]
    ok = len(caps) == 1 and len(runs) >= 1 and len(hdr) >= 1
    why = "capacity tests at bb%s, run-limit tests at bb%s" % (caps, runs)
    if ok:
        reach = f.reach_from(caps[0], avoid=set(hdr))
        late = sorted(set(runs) & (reach - {caps[0]}))
        # run-limit tests after the loop (final report of a pending run) are outside the iteration: only those that can
        # still lead back to the loop header count
        late = [b for b in late if any(h in f.reach_from(b) for h in hdr)]
        ok = not late
        if late:
            why = "the run-collapsing decision (bb%s) is still ahead when the capacity is tested (bb%d): a repeat that would be collapsed can be refused as overflow" % (late, caps[0])
    ctx.ob(R, "parse_block_hash_from_bytes: the capacity test is evaluated after the run-collapsing decision (only a symbol about to be stored can overflow)", ok, why, f.loc())


def driver_outcomes(ctx, prog):
    """the parse driver (template expansion): which stop state of which field leads to which outcome, with which position"""
    R = "SA-GUARD"
    ctx.rule(R, "driver outcome table: block hash 1 must stop at ':' (',' -> UnexpectedCharacter at offset-1, other byte -> UnexpectedCharacter at offset, end -> "
             "UnexpectedEndOfString at offset, overflow -> BlockHashIsTooLong at offset); block hash 2 must stop at ',' (index = offset-1) or the end (index = offset) "
             "(':' -> UnexpectedCharacter at offset-1, other byte -> UnexpectedCharacter at offset, overflow -> BlockHashIsTooLong at offset); offset = consumed by the "
             "block-size field + consumed by each block-hash field")
    names = _state_names(prog)
    n = 0
    for f in prog.fns:
        if not f.path.endswith("::from_bytes_with_last_index_internal"):
            continue
        calls = [i for i, t in f.calls() if callee_of(t).endswith("parse_block_hash_from_bytes")]
        if len(calls) != 2:
            continue
        n += 1
        ctx.visit(f)
        sy = Sym(f)
        c1, c2 = calls
        if not f.dominates(c1, c2):
            c1, c2 = c2, c1
        k1 = canon(strip(sy.call(f.blocks[c1]["term"], c1)))
        k2 = canon(strip(sy.call(f.blocks[c2]["term"], c2)))

        def states(b):
            st = {1: None, 2: None}
            for c in path_conds(f, sy, b):
                e = strip(c[0])
                if e[0] != "discr":
                    continue
                txt = canon(strip(e[1]))
                for k, kc in ((1, k1), (2, k2)):
                    if txt == "%s.0" % kc or txt == "(%s).0" % kc:
                        vals = sorted(c[2])
                        if c[1] == "in":
                            st[k] = [names[v] for v in vals]
                        else:
                            st[k] = [nm for idx, nm in enumerate(names) if idx not in vals]
            return st
        # the running offset
        offs = [l for l in range(f.argc + 1, len(f.locals)) if len(f.defs.get(l, [])) == 3]
        OFF = None
        for l in offs:
            ds = sorted(re.sub(r"^\((\w+)WithOverflow\((.*)\)\)\.0$", r"\1(\2)", canon(strip(sy.rvalue(x) if k == "rv" else sy.call(x, b)))) for (b, _i, k, x) in f.defs[l])
            me = "local:%s_%d" % (f.locals[l]["name"], l)
            if ds == sorted(["(internals::hash::algorithms::parse_block_size_from_bytes(local:%s) as Ok).0.1" % ds_buf for ds_buf in re.findall(r"parse_block_size_from_bytes\(local:(\w+)\)", " ".join(ds))[:1]] +
                            ["Add(%s,%s.1)" % (me, k1), "Add(%s,%s.1)" % (me, k2)]):
                OFF = me
        ctx.ob(R, "%s: offset = block-size field's consumed count, then += consumed count of each block-hash field" % f.short, OFF is not None,
               "offset variable %s" % OFF, f.loc())
        if OFF is None:
            continue
        want = {
            (1, "MetComma"): ("UnexpectedCharacter", "BlockHash1", "Sub(%s,1)" % OFF),
            (1, "Base64Error"): ("UnexpectedCharacter", "BlockHash1", OFF),
            (1, "MetEndOfString"): ("UnexpectedEndOfString", "BlockHash1", OFF),
            (1, "OverflowError"): ("BlockHashIsTooLong", "BlockHash1", OFF),
            (2, "MetColon"): ("UnexpectedCharacter", "BlockHash2", "Sub(%s,1)" % OFF),
            (2, "Base64Error"): ("UnexpectedCharacter", "BlockHash2", OFF),
            (2, "OverflowError"): ("BlockHashIsTooLong", "BlockHash2", OFF),
        }
        got = {}
        extra = []
        for i, j, s in f.stmts():
            if s["s"] == "assign" and s["rv"]["r"] == "agg" and s["rv"]["kind"].get("adt", "").endswith("parser_state::ParseError"):
                e = sy.rvalue(s["rv"])
                kind = e[2][0][1].split("::")[-1] if e[2][0][0] == "agg" else "?"
                origin = e[2][1][1].split("::")[-1] if e[2][1][0] == "agg" else "?"
                pos = re.sub(r"^\((\w+)WithOverflow\((.*)\)\)\.0$", r"\1(\2)", canon(strip(e[2][2])))
                st = states(i)
                key = None
                if st[2] is not None and len(st[2]) == 1 and st[1] == ["MetColon"]:
                    key = (2, st[2][0])
                elif st[2] is None and st[1] is not None and len(st[1]) == 1:
                    key = (1, st[1][0])
                if key is None:
                    extra.append("ParseError(%s,%s,%s) under states %s" % (kind, origin, pos, st))
                else:
                    got[key] = (kind, origin, pos)
        bad = ["%s of field %d -> %s (want %s)" % (k[1], k[0], got.get(k), v) for k, v in want.items() if got.get(k) != v]
        bad += ["unexpected outcome for %s of field %d: %s" % (k[1], k[0], v) for k, v in got.items() if k not in want]
        ctx.ob(R, "%s: every stop state of either field leads to the documented error kind, origin and position" % f.short, not bad and not extra,
               "; ".join(bad + extra)[:500] or "7 error rows", f.loc())
        # Ok side: *index
        idx_rows = {}
        for i, j, s in f.stmts():
            if s["s"] == "assign" and s["lhs"]["p"] == ["*"] and s["lhs"]["l"] == 2:
                st = states(i)
                v = re.sub(r"^\((\w+)WithOverflow\((.*)\)\)\.0$", r"\1(\2)", canon(strip(sy.rvalue(s["rv"]))))
                idx_rows[tuple(st[2] or [])] = (v, st[1])
        ok = idx_rows == {("MetComma",): ("Sub(%s,1)" % OFF, ["MetColon"]), ("MetEndOfString",): (OFF, ["MetColon"])}
        ctx.ob(R, "%s: success exactly when field 1 stopped at ':' and field 2 at ',' (index = offset-1) or at the end (index = offset)" % f.short, ok, "%s" % idx_rows, f.loc())
    ctx.floor(R, n, 1, "template expansions of the parse driver")


def initial_values(ctx, prog):
    """the parser's counters (stored length, run length, consumed bytes, block size accumulator) start at 0 and are reset to 0 only; the
    run detector's "previous symbol" starts at the sentinel BASE64_INVALID.  A counter that starts at 1 shifts every capacity and position
    the tables speak about."""
    R = "SA-GUARD"
    n = 0
    for suffix in ("hash::algorithms::parse_block_hash_from_bytes", "hash::algorithms::parse_block_size_from_bytes"):
        f = prog.fn(suffix)
        ctx.visit(f, weak=True)
        sy = Sym(f)
        bad = []
        for l, ds in f.defs.items():
            nm = f.locals[l]["name"]
            ty = f.locals[l]["ty"]
            if not nm or ty not in ("usize", "u8", "u32", "u64") or l <= f.argc or len(ds) < 2:
                continue
            for (b, _i, k, x) in ds:
                if k != "rv":
                    continue
                v = strip(sy.rvalue(x))
                if v[0] == "const" and isinstance(v[1], int):
                    n += 1
                    if v[1] != 0 and not (v[2] or "").endswith(("BASE64_INVALID", "MAX_SEQUENCE_SIZE")):
                        bad.append("%s := %s" % (nm, v[1]))
        ctx.ob(R, "%s: every constant given to a counter is 0 (excepted: the previous-symbol sentinel BASE64_INVALID and the run counter saturating at MAX_SEQUENCE_SIZE, by name)" % f.short, not bad, "; ".join(bad) or "constants are 0 / sentinel", f.loc())
    ctx.floor(R, n, 4, "constant definitions of parser counters")


def run_reports(ctx, prog):
    """the default parser tells its caller about every collapsed run (the dual hash builds its RLE data from these reports): a report is
    `(start of the run in the stored hash, raw length of the run in the text)` = `(seq_start, index - seq_start_in)`, made exactly when a
    saturated run ends (in the loop when the symbol changes, and once after the loop), and the two starts are re-set to the stored length /
    the consumed count when a new run begins."""
    from ..sym import path_conds, bool_atom
    R = "SA-FORMULA"
    f = prog.fn("hash::algorithms::parse_block_hash_from_bytes")
    sy = Sym(f)
    if any(callee_of(t).endswith("Iterator::take") for i, t in f.calls()):
        return  # strict parser: capacity is on the raw text, nothing is collapsed while parsing... the reports are still made; same code
    ctx.visit(f, weak=True)
    calls = [(i, t) for i, t in f.calls() if callee_of(t).endswith("FnMut::call_mut") and is_param(strip(sy.operand(t["args"][0])), "report_norm_seq")]
    roles = {}
    for l, ds in f.defs.items():
        if l <= f.argc or len(ds) != 2 or f.locals[l]["ty"] != "usize":
            continue
        vals = [strip(sy.rvalue(x)) if k == "rv" else None for (b, _i, k, x) in ds]
        if any(v is not None and const_value(v) == 0 for v in vals):
            other = [v for v in vals if v is not None and const_value(v) != 0]
            if len(other) == 1 and other[0][0] == "local":
                roles[l] = other[0][1]   # this local is a snapshot of that counter
    bad = []
    for i, t in calls:
        a = strip(sy.operand(t["args"][1]))
        okc = a[0] == "agg" and a[1] == "Tuple" and len(a[2]) == 2
        if okc:
            st, ln = strip(a[2][0]), strip(a[2][1])
            okc = st[0] == "local" and st[1] in roles and ln[0] == "bin" and ln[1] == "Sub" and strip(ln[2])[0] == "local" and strip(ln[3])[0] == "local" and \
                strip(ln[3])[1] in roles and roles[strip(ln[3])[1]] == strip(ln[2])[1] and roles[st[1]] != strip(ln[2])[1]
        sat = any((bool_atom(c) or (None,))[0] == "Eq" and const_value(strip(bool_atom(c)[2])) == 3 for c in path_conds(f, sy, i))
        if not okc or not sat:
            bad.append("report %s%s" % (canon(a)[:90], "" if sat else " not under run == MAX_SEQUENCE_SIZE"))
    ctx.ob(R, "parse_block_hash_from_bytes reports a collapsed run as (start in the stored hash, consumed - start in the text), only when the run was saturated, in the loop and once after it",
           not bad and len(calls) == 2, "; ".join(bad) or "%d report sites" % len(calls), f.loc())
