"""SA-TAIL: a block-hash length is never set without the tail of its array being defined.

Accepted end states of the paired array (DESIGN 3.6):
  1 wholly overwritten, 2 cleared from the new length (fill(0)/fill(TERMINATOR) from a start value-equal to the
  stored length up to N / open / the previous length), 3 fresh (all-zero object) and prefix-written up to the stored length."""
import re
from ..sym import Sym, strip, show, canon, lin, fpath, const_value, walk
from ..mir import callee_of, pl
from . import fields as F
from .panic import no_redef_between, call_sites

R = "SA-TAIL"


def doc(ctx):
    ctx.rule(R, "every store to a block-hash length (field or &mut u8 out-parameter paired with a &mut [u8; N]) leaves the paired array wholly overwritten, or cleared from a start value-equal (linear normal form) to the stored length up to the end/previous length, or fresh-and-prefix-written; every writer found by the write census must fall under one of these")


def param_index_by_name(f, name):
    for i in range(1, f.argc + 1):
        if f.locals[i]["name"] == name:
            return i
    return None


def stores_through_param(f, pidx):
    out = []
    for i, j, s in f.stmts():
        if s["s"] == "assign" and s["lhs"]["l"] == pidx and s["lhs"]["p"] == ["*"]:
            out.append((i, j, s))
    return out


def fills_of_param(f, sy, pidx):
    """fill(...) calls whose destination is a (sub)slice of array parameter pidx: [(blk, range, value_expr, term)]"""
    out = []
    for i, t in f.calls():
        if callee_of(t).split("::")[-1] != "fill":
            continue
        base, rng = F.slice_expr(sy.operand(t["args"][0]))
        b = F.strip_ref(strip(base))
        if b[0] == "param" and b[1] == pidx:
            out.append((i, rng, sy.operand(t["args"][1]), t))
    return out


def lin_eq(a, b):
    la, lb = lin(a), lin(b)
    return la is not None and lb is not None and la == lb


def locals_in(e):
    return {x[1] for x in walk(e) if x[0] == "local"}


def cleared_from_length(ctx, f, arr_name, len_name, fill_value_pred, what, key_prefix=None, end_kinds=("open", "prev")):
    """state 2 for an (array, length) out-parameter pair of function f"""
    ctx.visit(f, weak=True)
    sy = Sym(f)
    ai, li = param_index_by_name(f, arr_name), param_index_by_name(f, len_name)
    key = "%s: %s cleared from the stored length" % (key_prefix or f.short, what)
    if ai is None or li is None:
        return ctx.ob(R, key, False, "parameters %s/%s not found" % (arr_name, len_name), f.loc())
    stores = stores_through_param(f, li)
    fills = fills_of_param(f, sy, ai)
    if not stores:
        return ctx.ob(R, key, False, "no store to *%s" % len_name, f.loc())
    ok_all = True
    whys = []
    for (sb, sj, s) in stores:
        v = sy.rvalue(s["rv"])
        # an early-error store (overflow path) is not followed by a normal use of the array: require a fill only
        # when a normal `return` of the function is reachable with the object in use; all stores are checked.
        good = None
        for (fb, rng, val, t) in fills:
            if rng in (None, "?"):
                continue
            a, b = rng
            if not fill_value_pred(val):
                continue
            if not lin_eq(a, v):
                continue
            # same straight-line region: one dominates the other and no redefinition of the locals involved between
            first, second = (sb, fb) if f.dominates(sb, fb) else ((fb, sb) if f.dominates(fb, sb) else (None, None))
            if first is None:
                continue
            redefined = False
            for l in locals_in(a) | locals_in(v):
                if first != second and not no_redef_between(f, l, first, f.lsuccs(first)[0] if f.lsuccs(first) else first, second):
                    redefined = True
            if redefined:
                continue
            # end of the cleared range
            if b is None:
                endk = "open"
            else:
                be = strip(b)
                endk = None
                # previous length: a read of *len_param that dominates every store
                if be[0] == "local" and be[1] in sy.stale:
                    # a snapshot `let old = *len` taken before the length is overwritten: the previous length iff the
                    # snapshot is taken before every store
                    org = strip(sy.origin(be))
                    r0, n0 = fpath(org)
                    dblk = f.defs[be[1]][0][0]
                    if r0[0] == "param" and r0[1] == li and n0 == () and all(f.dominates(dblk, x[0]) and (dblk != x[0] or f.defs[be[1]][0][1] < x[1]) for x in stores):
                        endk = "prev"
                r, names = fpath(b)
                if endk is None and r[0] == "param" and r[1] == li and names == ():
                    # `*len` read: it denotes the previous length iff every read of *len precedes every store
                    reads = [bi for bi, bj, st in f.stmts() if st["s"] == "assign" and st["rv"]["r"] == "use" and st["rv"]["a"]["k"] in ("copy", "move")
                             and st["rv"]["a"]["pl"]["l"] == li and st["rv"]["a"]["pl"]["p"] == ["*"]]
                    if reads and all(f.dominates(rb, x[0]) and rb != x[0] for rb in reads for x in stores):
                        endk = "prev"
                if endk is None and be[0] == "const" and (be[2] in ("N", "SZ_BH", "SZ_RLE") or (be[2] or "").endswith("FULL_SIZE")):
                    endk = "open"
            if endk not in end_kinds:
                continue
            # the fill is on every normal return path after the store
            rets = [r for r in f.return_blocks() if r in f.reach_from(sb)]
            if not all(f.dominates(fb, r) or f.dominates(sb, fb) and fb in f.reach_from(sb) and _on_all_paths(f, sb, fb, r) for r in rets):
                continue
            good = (fb, endk, a)
            break
        if good is None:
            ok_all = False
            whys.append("store *%s = %s (bb%d) has no matching clear of %s" % (len_name, show(v), sb, arr_name))
        else:
            whys.append("*%s = %s; %s[%s..%s] cleared (bb%d)" % (len_name, show(v), arr_name, show(good[2]), "" if good[1] == "open" else "previous length", good[0]))
    return ctx.ob(R, key, ok_all, "; ".join(whys), f.loc(stores[0][2]["sp"]))


def _on_all_paths(f, start, mid, end):
    """every path start -> end passes through mid"""
    return end not in f.reach_from(start, avoid={mid}) or end == mid


def normalize_in_place(ctx, prog):
    doc(ctx)
    f = prog.fn("hash::algorithms::normalize_block_hash_in_place_internal")
    zero = lambda v: const_value(v) == 0
    cleared_from_length(ctx, f, "blockhash", "blockhash_len", zero, "freed tail of the block hash", end_kinds=("prev", "open"))


def compress_expand(ctx, prog):
    doc(ctx)
    zero = lambda v: const_value(v) == 0
    f = prog.fn("hash_dual::algorithms::compress_block_hash_with_rle")
    cleared_from_length(ctx, f, "blockhash_out", "blockhash_len_out", zero, "normalized block hash tail", end_kinds=("open",))
    # the RLE block is terminator-filled from the final encoder offset
    ctx.visit(f, weak=True)
    sy = Sym(f)
    ri = param_index_by_name(f, "rle_block_out")
    fills = fills_of_param(f, sy, ri) if ri else []
    ok = False
    why = "no fill of rle_block_out"
    for fb, rng, val, t in fills:
        if rng in (None, "?"):
            continue
        a, b = rng
        term = strip(val)
        is_term = term[0] == "const" and (term[2] or "").endswith("rle_encoding::TERMINATOR") and term[1] == 0
        off = strip(a)
        # the start is the running encoder offset: a local only assigned 0 or the result of update_rle_block
        src_ok = False
        if off[0] == "local":
            defs = f.defs.get(off[1], [])

            def _src(k, x):
                e = sy.rvalue(x) if k == "rv" else sy.call(x)
                e = strip(e)
                return const_value(e) == 0 or (e[0] == "call" and e[1].endswith("update_rle_block"))
            src_ok = bool(defs) and all(_src(k, x) for (_, _, k, x) in defs)
        ok = is_term and b is None and src_ok and all(f.dominates(fb, r) for r in f.return_blocks())
        why = "rle_block_out[%s..] filled with %s on every return; offset source ok: %s" % (show(a), show(val), src_ok)
    ctx.ob(R, "%s: RLE block terminator-filled from the encoder's final offset" % f.short, ok, why, f.loc())
    g = prog.fn("hash_dual::algorithms::expand_block_hash_using_rle")
    cleared_from_length(ctx, g, "blockhash_out", "blockhash_len_out", zero, "expanded block hash tail", end_kinds=("open",))


def rle_write_census(ctx, prog):
    """every byte written into an RLE block is produced by the single encoder or is TERMINATOR"""
    doc(ctx)
    n = 0
    for f in prog.fns:
        sy = None
        for w in F.census(f):
            if w.field not in ("rle_block1", "rle_block2"):
                continue
            n += 1
            ok = False
            why = ""
            if w.kind in ("aggregate", "assign"):
                v = strip(w.src)
                ok = v[0] == "repeat" and strip(v[1])[0] == "const" and (strip(v[1])[2] or "").endswith("rle_encoding::TERMINATOR")
                if not ok and v[0] in ("param", "deref", "field", "ref", "call"):
                    # whole-array copy from another dual object (Clone / Copy)
                    r, names = fpath(v)
                    ok = bool(names) and names[-1] == w.field
                why = "value %s" % show(v)
            elif w.kind == "handoff":
                ok = w.callee.endswith(("compress_block_hash_with_rle", "update_rle_block"))
                why = "&mut handed to %s" % w.callee
            elif w.kind == "fill":
                # `block.fill(TERMINATOR)` / `block[k..].fill(TERMINATOR)`: any range filled with the terminator is canonical storage
                v = strip(w.src) if w.src is not None else ("unknown", "")
                ok = v[0] == "const" and (v[2] or "").endswith("rle_encoding::TERMINATOR")
                why = "fill(%s) over %s" % (show(v), w.rng)
            else:
                why = "%s into %s" % (w.kind, w.field)
            ctx.ob(R, "%s: write to %s is TERMINATOR-fill, a like-field copy, or goes through the encoder" % (f.short, w.field), ok, why, f.loc(w.sp))
    # inside the compressor / encoder: element stores into the rle parameter are encode(...) results or the fill(TERMINATOR)
    f = prog.fn("hash_dual::algorithms::update_rle_block")
    ctx.visit(f, weak=True)
    sy = Sym(f)
    for i, j, s in f.stmts():
        if s["s"] == "assign" and s["lhs"]["l"] == 1 and len(s["lhs"]["p"]) > 1:
            n += 1
            v = strip(sy.rvalue(s["rv"]))
            ctx.ob(R, "update_rle_block: element store is rle_encoding::encode(...)", v[0] == "call" and v[1].endswith("rle_encoding::encode"), show(v), f.loc(s["sp"]))
    for i, t in f.calls():
        if callee_of(t).split("::")[-1] == "fill":
            n += 1
            v = strip(sy.operand(t["args"][1]))
            ctx.ob(R, "update_rle_block: range fill value is rle_encoding::encode(...)", v[0] == "call" and v[1].endswith("rle_encoding::encode"), show(v), f.loc(t["sp"]))
    ctx.floor(R, n, 8, "writes into RLE blocks")


# ---- classification of every writer of block-hash arrays / lengths ------------------------------------------

VERIFIED_PAIR_CALLEES = {
    # callee suffix -> (array arg index, length arg index) pairs it fully defines / transforms with tail discipline
    "hash::algorithms::normalize_block_hash_in_place": [(0, 1)],
    "hash::algorithms::parse_block_hash_from_bytes": [(0, 1)],
    "hash_dual::algorithms::compress_block_hash_with_rle": [(0, 2)],
    "hash_dual::algorithms::expand_block_hash_using_rle": [(0, 1)],
}
STATED_OUT_OF_SCOPE = ("generate::Generator::finalize_raw_internal",)


def classify_writers(ctx, prog, scope=None, floor=14):
    """every function that writes blockhashK / len_blockhashK of a FuzzyHashData (directly or by &mut hand-off)
    is covered: whole-object definition, fresh+prefix, verified pair callee with like indices, or the stated exception"""
    doc(ctx)
    n = 0
    for f in prog.fns:
        if not F.in_scope(f, scope):
            continue
        ws = [w for w in F.census(f) if w.owner.endswith("hash::FuzzyHashData")]
        if not ws:
            continue
        n += 1
        ctx.visit(f, weak=True)
        key = "%s: every write to block-hash storage is under a tail rule" % f.short
        if f.path.endswith(STATED_OUT_OF_SCOPE):
            ctx.ob(R, key, True, "stated exception: path-sensitive sz/sz+1 bookkeeping of the generator's digest assembly is not analysed (DESIGN 3.6)", f.loc())
            continue
        sy = Sym(f)
        roots = sorted({w.root for w in ws})
        ok_all = True
        whys = []
        for root in roots:
            rw = [w for w in ws if w.root == root]
            handoffs = [w for w in rw if w.kind == "handoff" and not w.callee.split("::")[-1] in ("index_mut",)]
            direct = [w for w in rw if w.kind != "handoff"]
            # (a) hand-offs: must go to a verified pair callee, pairing blockhashK with len_blockhashK of the same root
            by_call = {}
            for w in handoffs:
                by_call.setdefault((w.blk, w.callee), []).append(w)
            for (blk, callee), lst in by_call.items():
                spec = [v for k, v in VERIFIED_PAIR_CALLEES.items() if callee.endswith(k)]
                if not spec:
                    ok_all = False
                    whys.append("&mut %s handed to unverified %s" % (",".join(x.field for x in lst), callee))
                    continue
                t = f.blocks[blk]["term"]
                for (ai, li) in spec[0]:
                    an = fpath(sy.operand(t["args"][ai]))[1]
                    ln = fpath(sy.operand(t["args"][li]))[1]
                    if not (an and ln and re.fullmatch(r"blockhash([12])", an[-1]) and ln[-1] == "len_" + an[-1]):
                        ok_all = False
                        whys.append("%s called with mismatched pair (%s, %s)" % (callee.split("::")[-1], ".".join(an), ".".join(ln)))
                    else:
                        whys.append("%s(%s,%s)" % (callee.split("::")[-1], an[-1], ln[-1]))
            if not direct:
                continue
            # (b) direct writes: arrays whole or fresh+prefix; lengths paired
            fresh = False
            m = re.match(r"local:\w*?_(\d+)(?!\w)", root)
            if m:
                lnum = int(m.group(1))
                org = sy.origin(("local", lnum, ""))
                fresh = org[0] == "call" and org[1].endswith("::new")
                if any(w.kind == "aggregate" for w in direct):
                    fresh = False
            for k in ("1", "2"):
                arr = [w for w in direct if w.field == "blockhash" + k]
                ln = [w for w in direct if w.field == "len_blockhash" + k]
                if not arr and not ln:
                    continue
                if not ln and arr and not handoffs:
                    ok_all = False
                    whys.append("blockhash%s written without its length" % k)
                    continue
                if F.covers_whole(arr, 64):
                    whys.append("blockhash%s wholly written" % k)
                    continue
                if fresh and arr and ln:
                    # prefix [0, X) and stored length X
                    okp = False
                    for w in arr:
                        if w.rng and w.rng != "?" and const_value(w.rng[0]) == 0 and w.rng[1] is not None:
                            for lw in ln:
                                if lin_eq(w.rng[1], lw.src):
                                    okp = True
                    if okp:
                        whys.append("blockhash%s fresh + prefix up to the stored length" % k)
                        continue
                    # 3b: fresh + [0, C) copied from the WHOLE like-named array of a source object whose length is copied too
                    okb = False
                    for w in arr:
                        if w.kind in ("copy_from_slice", "clone_from_slice") and w.rng and w.rng != "?" and const_value(w.rng[0]) == 0 and w.src is not None:
                            sb, srng = F.slice_expr(w.src)
                            sof = F.owner_field(sb)
                            if srng is None and sof and sof[2] == "blockhash" + k:
                                for lw in ln:
                                    lof = F.owner_field(lw.src)
                                    if lof and lof[2] == "len_blockhash" + k and canon(lof[0]) == canon(sof[0]):
                                        okb = True
                    if okb:
                        whys.append("blockhash%s fresh + whole like-named source array copied with its length" % k)
                        continue
                if not arr and ln and handoffs:
                    continue
                ok_all = False
                whys.append("blockhash%s: length stored but the array is neither wholly written nor fresh+prefix (writes: %s)" % (k, arr))
        ctx.ob(R, key, ok_all, "; ".join(whys)[:500], f.loc())
    ctx.floor(R, n, floor, "functions writing block-hash storage%s" % ("" if scope is None else " in scope"))
