#!/usr/bin/env python3
"""dev helper: is every stored seeded change reported by the QUICK command of its own property?  (the refresh tries quick, then thorough,
and records only that the target reported it).  usage: tools_seed_quick.py [ids...]  -> prints the seeds the quick tier misses and records
`target_quick` in their meta.json.  Scratch worktrees of /repo under /tmp; checks from VERIF_CHECK_DIR or /verif."""
import glob, json, os, shutil, subprocess, sys, tempfile
V = "/verif"
CHK = os.environ.get("VERIF_CHECK_DIR", V)
want = sys.argv[1:]
miss = []
for d in sorted(glob.glob(V + "/seeded/*")):
    name = os.path.basename(d)
    if want and name not in want and name.split("-")[0] not in want:
        continue
    meta = json.load(open(d + "/meta.json"))
    pid = meta["property"]
    wt = tempfile.mkdtemp(prefix="ffz-quick-", dir="/tmp")
    os.rmdir(wt)
    try:
        subprocess.run(["git", "-C", "/repo", "worktree", "add", "-q", "--detach", wt, "HEAD"], check=True)
        if subprocess.run(["git", "-C", wt, "apply", d + "/patch.diff"], capture_output=True).returncode != 0:
            print(name, "patch does not apply")
            continue
        env = dict(os.environ, VERIF_REPO=wt, VERIF_EVIDENCE_DIR=os.path.join(wt, "_evidence"), VERIF_FACT_CACHE="1")
        p = subprocess.run([os.path.join(CHK, "check"), pid, "--tier", "quick"], capture_output=True, text=True, env=env, cwd=CHK)
        meta["target_quick"] = p.returncode == 1
        json.dump(meta, open(d + "/meta.json", "w"), indent=1)
        print(name, pid, "quick" if p.returncode == 1 else "QUICK-MISSES", flush=True)
        if p.returncode != 1:
            miss.append(name)
    finally:
        subprocess.run(["git", "-C", "/repo", "worktree", "remove", "--force", wt], capture_output=True)
        shutil.rmtree(wt, ignore_errors=True)
print("quick tier misses:", miss)
