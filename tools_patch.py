#!/usr/bin/env python3
"""dev helper: apply a stored patch to /repo, run the given checks (fact cache on), always revert.
usage: tools_patch.py <patch.diff | seeded-id> PID[:tier] ..."""
import os, subprocess, sys
pa = sys.argv[1]
if not os.path.exists(pa):
    pa = "/verif/seeded/%s/patch.diff" % pa
r = subprocess.run(["git", "-C", "/repo", "apply", pa], capture_output=True, text=True)
if r.returncode != 0:
    print("patch does not apply:", r.stderr); sys.exit(2)
try:
    env = dict(os.environ, VERIF_FACT_CACHE="1", VERIF_EVIDENCE_DIR="/verif/.work/patch-evidence")
    os.makedirs(env["VERIF_EVIDENCE_DIR"], exist_ok=True)
    for pid in sys.argv[2:]:
        tier = "quick"
        if ":" in pid: pid, tier = pid.split(":")
        r = subprocess.run(["./check", pid, "--tier", tier], cwd="/verif", capture_output=True, text=True, env=env)
        print("== %s %s exit %d" % (pid, tier, r.returncode))
        print("\n".join(l[:420] for l in r.stdout.splitlines() if "VIOLATION" not in l)[-2600:])
finally:
    subprocess.run(["git", "-C", "/repo", "checkout", "--", "."])
