"""A private constant that did not exist on the reviewed tree is read as the expression that defines it.

"Move this expression into a `const`" is a routine refactoring; the rules are written against the expressions of the reviewed tree
(`Self::guessed_preferred_max_input_size_at(0)`), and a constant operand carries its name and value only.  The driver dumps the
initialiser of every evaluable constant of the crate as a body of its own (`plain_const`).  For a constant whose path is not in
sa/ref_constnames.json (the constants of the reviewed tree, all build configurations) each use is turned into a call of a
zero-argument function with that body, which the helper inliner (sa/inline.py: functions unknown to the reviewed tree) then
splices in.  The analysed program is the one with the initialiser written out at the use - which is what the constant means.
Constants the reviewed tree already had are left alone (the rules know them by name and value)."""
import json
import os

_REF = None
MAX_BLOCKS = 12


def ref_names():
    global _REF
    if _REF is None:
        try:
            with open(os.path.join(os.path.dirname(os.path.abspath(__file__)), "ref_constnames.json")) as fh:
                _REF = set(json.load(fh))
        except OSError:
            _REF = False
    return _REF


def _find(node, cand, hits):
    if isinstance(node, dict):
        if node.get("k") == "const" and node.get("def") in cand:
            hits.append(node)
            return
        for k, v in node.items():
            if k != "sp":
                _find(v, cand, hits)
    elif isinstance(node, list):
        for v in node:
            _find(v, cand, hits)


def run(d):
    """returns the list of (constant, user) pairs that were expanded; moves the plain constant bodies out of d["fns"]"""
    inits = [f for f in d["fns"] if f.get("plain_const")]
    d["fns"] = [f for f in d["fns"] if not f.get("plain_const")]
    d["const_inits"] = inits
    ref = ref_names()
    if not ref or not inits:
        return []
    by = {}
    for g in inits:
        by.setdefault(g["path"], []).append(g)
    cand = {}
    for p, gs in by.items():
        if p in ref or len(gs) != 1 or len(gs[0]["blocks"]) > MAX_BLOCKS or p.endswith("::_") or "{constant#" in p:
            continue
        g = gs[0]
        # straight line only: a constant defined by a computation with branches keeps its name and value
        if any(b["term"]["t"] in ("switch",) for b in g["blocks"]):
            continue
        cand[p] = g
    if not cand:
        return []
    done = []
    used = set()
    for f in d["fns"]:
        bi = 0
        while bi < len(f["blocks"]):
            b = f["blocks"][bi]
            split = None
            for si, s in enumerate(b["stmts"]):
                hits = []
                _find(s, cand, hits)
                if hits:
                    split = (si, hits[0])
                    break
            if split is None:
                hits = []
                _find({k: v for k, v in b["term"].items() if k in ("args", "on", "cond", "fop")}, cand, hits)
                if hits:
                    split = (len(b["stmts"]), hits[0])
            if split is None:
                bi += 1
                continue
            si, op = split
            p = op["def"]
            tmp = len(f["locals"])
            ty = op.get("ty") or cand[p]["locals"][0]["ty"]
            f["locals"].append({"ty": ty, "name": None, "mut": False})
            nb = {"stmts": b["stmts"][si:], "term": b["term"], "cleanup": b.get("cleanup", False)}
            sp = (b["stmts"][si].get("sp") if si < len(b["stmts"]) else b["term"].get("sp")) or {}
            f["blocks"].append(nb)
            b["stmts"] = b["stmts"][:si]
            b["term"] = {"t": "call", "callee": p, "resolved": p, "local": True, "gargs": [], "args": [], "dest": {"l": tmp, "p": [], "ty": ty},
                         "to": len(f["blocks"]) - 1, "unwind": None, "fop": None, "sp": sp}
            # the operand becomes a read of the temporary (in place: `op` is the node inside the moved statement / terminator)
            keep_ty = op.get("ty")
            op.clear()
            op.update({"k": "copy", "pl": {"l": tmp, "p": [], "ty": keep_ty or ty}})
            done.append((p, f["path"]))
            used.add(p)
            # the same block may hold further uses: they are in the new tail block, visited later
            bi += 1
    for p in sorted(used):
        g = dict(cand[p])
        g["exported"] = False
        g["kind"] = "Fn"
        d["fns"].append(g)
    return done
