"""Feature-set rules (C14): twin delegation of *_unchecked, SA-INVPAIR, SA-CFGDIFF."""
import re
from ..sym import Sym, strip, show, canon, fpath, walk, const_value, path_conds, bool_atom, is_identity_fn
from ..mir import callee_of, pl, is_panic_call
from . import errpure
from .validate import subst
from . import fields as F

R = "SA-TWIN"


def effect_expr(prog, f, depth=0, all_arms=False):
    """normal form of what a delegating function computes: its return expression (or, for unit functions / `new()+init`
    constructors, the unique crate-local call that receives a `&mut` argument), with crate-local pure delegators expanded.
    With all_arms=True returns the list of candidate forms when the result is defined on several arms."""
    sy = Sym(f)
    cands = []
    ret_local = None
    if f.locals[0]["ty"] != "()":
        e = sy.local(0)
        if e[0] == "local" and e[1] == 0:
            for (blk, idx, kind, x) in f.defs.get(0, []):
                cands.append(sy.rvalue(x) if kind == "rv" else sy.call(x, blk))
        elif e[0] == "local":
            # `let mut obj = new(); obj.init(..); obj`
            org = sy.origin(e)
            if org[0] == "call" and org[1].endswith("::new"):
                ret_local = e[1]
            else:
                cands.append(e)
        else:
            cands.append(e)
    if f.locals[0]["ty"] == "()" or ret_local is not None:
        cs = []
        for i, t in f.calls():
            g = prog.get(callee_of(t))
            if g is None:
                continue
            if any(a["k"] in ("copy", "move") and a["pl"]["ty"].startswith("&mut") for a in t["args"]):
                c = sy.call(t, i)
                if ret_local is not None:
                    c = subst(c, {}, ("retobj",), ret_local)
                cs.append(c)
        if len(cs) == 1:
            cands.append(cs[0])
    out = [expand(prog, c, depth) for c in cands]
    if all_arms:
        return out
    return out[0] if len(out) == 1 else None


def has_own_stores(f):
    al = errpure.mut_aliases(f, set(range(1, f.argc + 1)))
    for i, j, s in f.stmts():
        if s["s"] == "assign" and s["lhs"]["l"] in al and "*" in s["lhs"]["p"]:
            return True
        if s["s"] == "assign" and s["lhs"]["p"] and any(isinstance(x, dict) and "f" in x and x.get("of") in F.HASH_TYPES for x in s["lhs"]["p"]):
            return True
    return False


def expand(prog, e, depth=0):
    e = strip_keep(e)
    if e[0] != "call" or depth > 4:
        return e
    g = prog.get(e[1])
    args = tuple(expand(prog, a, depth + 1) for a in e[2])
    e = ("call", e[1], args, None) + tuple(e[4:5])
    if g is None or has_own_stores(g) or "closure" in g.path:
        return e
    inner = effect_expr(prog, g, depth + 1)
    if inner is None or inner[0] != "call":
        return e
    pm = {k + 1: a for k, a in enumerate(args)}
    return subst(inner, pm)


def tcanon(e):
    """canon for twin comparison: type (non-const) generic arguments dropped, local numbers of the result object unified"""
    def rec(x):
        if not isinstance(x, tuple) or not x or not isinstance(x[0], str):
            return x
        if x[0] == "call":
            ga = tuple(g for g in (x[4] if len(x) > 4 else ()) if re.fullmatch(r"[A-Z][A-Z0-9_]*", g))
            return ("call", x[1], tuple(rec(a) for a in x[2]), None, ga)
        return tuple(rec(y) if isinstance(y, tuple) and y and isinstance(y[0], str) else
                     (tuple(rec(z) for z in y) if isinstance(y, tuple) else y) for y in x)
    return canon(rec(e))


def strip_keep(e):
    # look through refs/derefs/casts and transparent conversions at the top only
    return strip(e)


# answers a checked form may give outside its unchecked twin's contract (reviewed): the cap helper answers 100 for block sizes at or above
# the capping border, where the `_unchecked`/`_internal` form must not be called (SA-FORMULA / SA-PATHSUM read that arm)
SAFE_ONLY_ARMS = {"score_cap_on_block_hash_comparison": ("100",)}


def twins(ctx, prog, scope=None, floor=None):
    ctx.rule(R, "twin delegation: every exported `X_unchecked` (unsafe fn) is a single call of `X_internal` with its parameters in order, and the safe `X` computes the same internal call with the same arguments after its guards (normal forms of the two bodies, with pure delegating functions expanded, are equal)")
    n = 0
    for f in prog.fns:
        if not f.path.endswith("_unchecked") or "closure" in f.path or f.kind == "Closure":
            continue
        if scope is not None and not re.search(scope, f.path):
            continue
        if f.path.startswith("internals::compare::position_array::BlockHashPositionArrayImplUnchecked::"):
            continue  # trait declaration items
        n += 1
        ctx.visit(f)
        sy = Sym(f)
        calls = [(i, t) for i, t in f.calls()]
        base = f.path[:-len("_unchecked")]
        ok = len(calls) == 1 and f.unsafe
        why = "%d calls, unsafe=%s" % (len(calls), f.unsafe)
        if ok:
            i, t = calls[0]
            c = callee_of(t)
            nm = c.split("::")[-1]
            ok = nm == base.split("::")[-1] + "_internal"
            args = [strip(sy.operand(a)) for a in t["args"]]
            inorder = all(a[0] == "param" and a[1] == k + 1 for k, a in enumerate(args)) and len(args) == f.argc
            ret_ok = t["dest"]["l"] == 0 or f.locals[0]["ty"] == "()"
            ok = ok and inorder and ret_ok
            why = "%s(%s)" % (nm, ", ".join(show(a) for a in args))
        ctx.ob(R, "%s is exactly %s_internal(params in order)" % (f.short, base.split("::")[-1]), ok, why, f.loc())
        # safe twin
        safe = prog.get(base)
        if safe is None and "<T as " in base:
            # trait impls: <T as ...ImplUnchecked>::x_unchecked  <->  <T as ...Impl>::x
            safe = prog.get(base.replace("ImplUnchecked>", "Impl>"))
        if safe is None:
            ctx.ob(R, "%s has a safe twin" % f.short, False, "no function %s" % base, f.loc())
            continue
        ctx.visit(safe)
        eu = effect_expr(prog, f)
        arms = effect_expr(prog, safe, all_arms=True)
        cu = tcanon(eu) if eu else None
        carms = [tcanon(a) for a in arms]
        same = cu is not None and cu in carms
        if not same and cu is not None:
            # Option-returning safe form: `cond.then(|| internal(..))` - the closure body must be the same internal call
            for a in arms:
                a = strip(a)
                if a[0] == "call" and a[1].endswith("bool>::then") and len(a[2]) == 2 and strip(a[2][1])[0] == "agg" and strip(a[2][1])[1].startswith("Closure:"):
                    cl = prog.get(strip(a[2][1])[1][len("Closure:"):])
                    if cl is not None:
                        ce = effect_expr(prog, cl)
                        if ce is not None and ce[0] == "call" and eu[0] == "call" and ce[1] == eu[1]:
                            same = True
                            carms.append("then(.., || %s(..))" % ce[1].split("::")[-1])
        if not same and cu is not None:
            # Option-returning safe form spelled with if/else: the `Some(..)` arm carries the internal call
            for a in arms:
                a = strip(a)
                if a[0] == "agg" and a[1].endswith("Option::Some") and len(a[2]) == 1:
                    inner = tcanon(expand(prog, a[2][0]))
                    if inner == cu:
                        same = True
                        carms.append("Some(%s)" % inner[:100])
        ctx.ob(R, "safe %s computes the same internal call as its unchecked twin (on its in-contract arm)" % safe.short, same,
               "safe arms: %s | unchecked: %s" % ([c[:140] for c in carms], (cu or "?")[:160]), safe.loc())
        # ... and nothing else: a second way of producing an answer in the checked form (a "fast path") is a second implementation
        # that the unchecked twin does not have.  Refusals (`None`, panics) are not answers.
        extra = []
        for a in arms:
            ca = tcanon(a)
            a = strip(a)
            if ca == cu or (a[0] == "agg" and a[1].endswith("Option::None")):
                continue
            if a[0] == "call" and a[1].endswith("bool>::then"):
                continue
            if a[0] == "agg" and a[1].endswith("Option::Some") and len(a[2]) == 1 and tcanon(expand(prog, a[2][0])) == cu:
                continue
            if ca in SAFE_ONLY_ARMS.get(safe.path.split("::")[-1], ()):
                continue
            extra.append(ca[:120])
        ctx.ob(R, "safe %s has no answer of its own besides the internal call (refusals aside)" % safe.short, not extra,
               "own answers: %s" % extra if extra else "none", safe.loc())
    ctx.floor(R, n, 24 if floor is None else floor, "*_unchecked functions with bodies%s" % ("" if scope is None else " in scope"))


# ---- SA-INVPAIR ------------------------------------------------------------------------------------------------------
RI = "SA-INVPAIR"


def _cmp_of(e):
    e = strip(e)
    neg = False
    while e[0] == "un" and e[1] == "Not":
        e = strip(e[2])
        neg = not neg
    if e[0] == "bin" and e[1] in ("Lt", "Le", "Gt", "Ge", "Ne", "Eq"):
        op, a, b = e[1], e[2], e[3]
        if neg:
            op = {"Lt": "Ge", "Le": "Gt", "Gt": "Le", "Ge": "Lt", "Eq": "Ne", "Ne": "Eq"}[op]
        if op in ("Gt", "Ge"):
            op, a, b = {"Gt": "Lt", "Ge": "Le"}[op], b, a
        return op, a, b
    return None


def _arr_len_text(ty):
    m = re.search(r"\[[^;\]]+; ([^\]]+)\]", ty or "")
    return m.group(1).strip() if m else None


def _const_texts(e):
    """set of texts naming the value of a constant-ish expression: its value, its name (last segment)"""
    e = strip(e)
    out = set()
    if e[0] == "const":
        if e[1] is not None:
            out.add(str(e[1]))
        if e[2]:
            out.add(e[2].split("::")[-1])
            out.add(e[2])
    return out


def _len_base(e):
    e = strip(e)
    if e[0] == "call" and e[1].endswith("::len") and len(e[2]) == 1:
        return strip(e[2][0])
    if e[0] == "len":
        return strip(e[1])
    return None


def _same_len(r, L, base_ty=None, base=None):
    """does invariant operand r denote the length L (or the length of `base`) the run-time check uses?"""
    if L is not None:
        if canon(strip(r)) == canon(strip(L)):
            return True
        if _const_texts(r) & _const_texts(L):
            return True
        lb, rb = _len_base(L), _len_base(r)
        if lb is not None and rb is not None and canon(lb) == canon(rb):
            return True
        if rb is not None and L is not None and _const_texts(L):
            return True  # len(array as slice) vs the array's constant length in the bounds check
    if base is not None:
        rb = _len_base(r)
        if rb is not None and canon(F.strip_ref(rb)) == canon(F.strip_ref(strip(base))):
            return True
        n = _arr_len_text(base_ty)
        if n and n in _const_texts(r):
            return True
        if n and rb is None and strip(r)[0] == "const" and strip(r)[2] and strip(r)[2].split("::")[-1] in ("FULL_SIZE", "HALF_SIZE", "NUM_VALID", "ALPHABET_SIZE", "WINDOW_SIZE") and str(strip(r)[1]) == n:
            return True
    return False


def invariant_sites(f, sy):
    out = []
    for i, t in f.calls():
        if callee_of(t).endswith("hint::assert_unchecked"):
            out.append((i, t, sy.operand(t["args"][0])))
    return out


def pair_with_runtime_check(prog, f, sy, blk, cond):
    """is invariant `cond` (asserted at block blk) subsumed by a later run-time check of the same function?"""
    c = _cmp_of(cond)
    if c is None:
        return None
    op, a, b = c
    from .panic import no_redef_between
    from ..sym import walk as _walk
    succ = f.lsuccs(blk)
    reach = f.reach_from(succ[0]) if succ else set()
    locs = {x[1] for x in _walk(a) if x[0] == "local"} | {x[1] for x in _walk(b) if x[0] == "local"}
    for i in sorted(f.live):
        if i == blk or i not in reach:
            continue
        if not f.dominates(blk, i):
            # reached through a back edge (loop): the operands must not be reassigned on the way
            if not all(no_redef_between(f, l, blk, succ[0], i) for l in locs):
                continue
        t = f.blocks[i]["term"]
        if t["t"] == "assert":
            m = t["msg"]
            if m["a"] == "bounds" and op == "Lt":
                I, L = sy.operand(m["index"]), sy.operand(m["len"])
                if canon(strip(a)) == canon(strip(I)) and _same_len(b, L):
                    return "bounds check `%s < %s` at bb%d" % (show(I)[:40], show(L)[:30], i)
            if m["a"] in ("div0", "rem0") and op in ("Lt", "Ne"):
                cnd = strip(sy.operand(t["cond"]))
                if cnd[0] == "bin" and cnd[1] == "Eq":
                    d = cnd[2]
                    # invariant: 0 < d   (Gt(d,0) normalised to Lt(0,d))
                    if const_value(a) == 0 and canon(strip(b)) == canon(strip(d)):
                        return "division check `%s != 0` at bb%d" % (show(d)[:40], i)
        elif t["t"] == "call" and callee_of(t).split("::")[-1] in ("index", "index_mut") and len(t["args"]) == 2 and prog.get(callee_of(t)) is None:
            base = sy.operand(t["args"][0])
            bty = t["args"][0]["pl"]["ty"] if t["args"][0]["k"] in ("copy", "move") else None
            rexpr = strip(sy.operand(t["args"][1]))
            rg_incl = False
            if rexpr[0] == "call" and rexpr[1].endswith("RangeInclusive::<Idx>::new") and len(rexpr[2]) == 2:
                rg = (rexpr[2][0], rexpr[2][1])
                rg_incl = True
            else:
                rg = F.range_of(rexpr)
            if rg == "?":
                continue
            s_, e_ = rg
            if op == "Lt" and e_ is None:
                st = strip(s_)
                if st[0] == "bin" and st[1] == "Add" and const_value(st[3]) == 1 and canon(strip(st[2])) == canon(strip(a)) and _same_len(b, None, bty, base):
                    return "range start check `%s + 1 <= len` of index at bb%d" % (show(a)[:40], i)
            if op == "Lt" and e_ is not None and rg_incl and canon(strip(a)) == canon(strip(e_)) and _same_len(b, None, bty, base):
                return "inclusive range end check `%s < len` of index at bb%d" % (show(e_)[:40], i)
            if op == "Le":
                if rg_incl and canon(strip(a)) == canon(strip(s_)) and canon(strip(b)) == canon(strip(e_)):
                    return "range order check `start <= end` (inclusive) of index at bb%d" % i
                if e_ is not None and canon(strip(a)) == canon(strip(e_)) and _same_len(b, None, bty, base):
                    return "range end check `%s <= len` of index at bb%d" % (show(e_)[:40], i)
                if e_ is None and canon(strip(a)) == canon(strip(s_)) and _same_len(b, None, bty, base):
                    return "range start check `%s <= len` of index at bb%d" % (show(s_)[:40], i)
                if e_ is not None and canon(strip(a)) == canon(strip(s_)) and canon(strip(b)) == canon(strip(e_)):
                    return "range order check `start <= end` of index at bb%d" % i
                if e_ is not None and canon(strip(a)) == canon(strip(s_)) and _same_len(b, None, bty, base):
                    return "range start `%s <= len` (implied by start <= end <= len checks) at bb%d" % (show(s_)[:40], i)
    return None


def _all_callers_guarded(prog, f, pidx, bound_texts):
    """every call site of f passes, for parameter pidx, a value dominated by `value < bound`"""
    from .panic import call_sites
    cs = call_sites(prog, f.path)
    if not cs:
        return False, "no call sites"
    for g, i, t in cs:
        if g.unsafe:
            continue  # unsafe fn: its documented contract passes the obligation to its caller
        gs = Sym(g)
        arg = strip(gs.operand(t["args"][pidx - 1]))
        ok = False
        for c in path_conds(g, gs, i):
            a = bool_atom(c)
            if a and a[0] in ("Lt", "Ge"):
                x, y = (a[1], a[2])
                if a[0] == "Lt" and canon(strip(x)) == canon(arg) and _const_texts(y) & bound_texts:
                    ok = True
        if not ok:
            return False, "call in %s is not dominated by the bound" % g.short
    return True, "%d call sites dominated by the bound" % len(cs)


def invpair_residue(prog):
    """reasoned table for invariants without a directly following run-time check: (fn suffix, cond regex) -> (reason, side)"""
    def side_cap(prog, f, sy, blk):
        return _all_callers_guarded(prog, f, 1, {"LOG_BLOCK_SIZE_CAPPING_BORDER", "4"})

    def side_fnv_state(prog, f, sy, blk):
        # only update_by_byte stores the state; it stores FNV_TABLE[..][..] (all entries < 64, SA-DATA) and new() stores INIT < 64
        n = 0
        for g in prog.fns:
            for i, j, s in g.stmts():
                p = s["lhs"]["p"] if s["s"] == "assign" else []
                if p and isinstance(p[-1], dict) and p[-1].get("of", "").endswith("partial_fnv::PartialFNVHash") and p[-1].get("n") == "0":
                    n += 1
                    if not g.path.endswith("PartialFNVHash::update_by_byte"):
                        return False, "state also written in %s" % g.short
                    v = canon(strip(Sym(g).rvalue(s["rv"])))
                    if "FNV_TABLE" not in v or not re.search(r"FNV_TABLE[^\[]*\[.*\]\[.*\]", v):
                        # (with opt-reduce-fnv-table the state keeps all 8 bits and value() masks on read: the belief would be false)
                        return False, "update_by_byte stores %s, not an entry of FNV_TABLE: the state is not confined to 6 bits in this configuration" % v[:100]
        return n >= 1, "the state is only written by update_by_byte from FNV_TABLE (entries < 64 by SA-DATA) or is FNV_HASH_INIT"

    def side_sealed_sizes(prog, f, sy, blk):
        got = sorted(i["self"] for i in prog.impls if i["trait"].endswith("SealedBlockHashSizes") or i["trait"].endswith("block::private::SealedBlockHashSizes"))
        want = ["internals::hash::block::BlockHashSizes<64, 32>", "internals::hash::block::BlockHashSizes<64, 64>"]
        got2 = [g.replace(" ", "").replace("{block_hash::FULL_SIZE}", "64").replace("{block_hash::HALF_SIZE}", "32").replace(",", ", ") for g in got]
        return sorted(set(got2)) == want, "sealed size pairs: %s" % got2

    def side_dominated_by(rx):
        def side(prog, f, sy, blk):
            for c in path_conds(f, sy, blk):
                a = bool_atom(c)
                if a and re.search(rx, canon_atom(a)):
                    return True, "dominated by %s" % canon_atom(a)[:80]
            return False, "no dominating guard matching %s" % rx
        return side
    return {
        ("FuzzyHashCompareTarget::score_cap_on_block_hash_comparison_internal", r"log_block_size Lt LOG_BLOCK_SIZE_CAPPING_BORDER"):
            ("caller contract: every call site tests log_block_size < BORDER first", side_cap),
        ("PartialFNVHash::value", r"self\.0 Lt"):
            ("state invariant of PartialFNVHash", side_fnv_state),
        ("Generator::get_log_block_size_from_input_size", r"Div .* Gt 0|Lt .*Div"):
            ("size > unit on this path, so (size-1)/unit >= 1", side_dominated_by(r"Gt\(param:size|Lt\(.*param:size|Le")),
        ("algorithms::normalize_block_hash_in_place_internal", r"blockhash_len as usize\) Le N"):
            ("object invariant len <= N of the hash being normalised (callers pass fields of a hash object)", None),
        ("FuzzyHashDualData::<S1, S2, C1, C2>::new_from_internals_near_raw_internal", r"len\(block_hash\w*\) Le S[12]"):
            ("caller contract: the safe constructor asserts it first (SA-VALIDATE); unchecked twin is unsafe", None),
        ("Generator::finalize_raw_internal", r"^\(\w+ Lt FULL_SIZE\)$"):
            ("paired with the bounds check `sz < S1|S2` of the store that follows: the only admitted capacities are S1 = FULL_SIZE and S2 in {HALF_SIZE, FULL_SIZE} (sealed ConstrainedBlockHashSizes), and this site is on the long-form / block-hash-1 path", side_sealed_sizes),
        ("FuzzyHashData::<S1, S2, NORM>::new_from_internals_near_raw_internal", r"len\(block_hash\w*\) Le S2"):
            ("paired with the range check on blockhash2 (second slice copy)", None),
    }


def canon_atom(a):
    if a[0] == "truth":
        return "%s is %s" % (canon(a[1]), a[2])
    return "%s(%s,%s)" % (a[0], canon(strip(a[1])), canon(strip(a[2])))


def _established_before(f, sy, blk, cond):
    """the assumption repeats what a run-time branch of the same function, which dominates it, has just established
    (`if x == INVALID { break }` ... `invariant!(x != INVALID)`): nothing is assumed beyond what was tested"""
    me = _cmp_of(cond)
    if me is None:
        return None
    mk = (me[0], canon(strip(me[1])), canon(strip(me[2])))
    if me[0] in ("Eq", "Ne") and mk[2] < mk[1]:
        mk = (mk[0], mk[2], mk[1])
    for c in path_conds(f, sy, blk):
        a = bool_atom(c)
        if a is None or a[0] == "truth":
            continue
        o = _cmp_of(("bin", a[0], a[1], a[2]))
        if o is None:
            continue
        ok = (o[0], canon(strip(o[1])), canon(strip(o[2])))
        if o[0] in ("Eq", "Ne") and ok[2] < ok[1]:
            ok = (ok[0], ok[2], ok[1])
        if ok == mk:
            return "a dominating run-time branch on the same comparison"
    return None


def invpair(ctx, prog, scope=None, floors=(75, 60)):
    ctx.rule(RI, "under the `unsafe` feature every invariant!(c) becomes an optimiser assumption; each such site is subsumed by a run-time check of the safe build at the same point: a later bounds / slice-range / division check of the same function, dominated by the site, fails exactly when c is false on value-equal operands - so the safe build panics where the unsafe build would be undefined and feature-equivalence reduces to panic-freedom; sites without such a check are in a reasoned table with structural side conditions")
    res = invpair_residue(prog)
    n = 0
    paired = 0
    for f in prog.fns:
        sy = None
        sites = None
        if scope is not None and not re.search(scope, f.path):
            continue
        for i, t in f.calls():
            if callee_of(t).endswith("hint::assert_unchecked"):
                if sy is None:
                    sy = Sym(f)
                    ctx.visit(f, weak=True)
                cond = sy.operand(t["args"][0])
                n += 1
                key = "%s: invariant!(%s)" % (f.short, re.sub(r"_\d+\b", "", show(cond))[:110])
                why = pair_with_runtime_check(prog, f, sy, i, cond) or _established_before(f, sy, i, cond)
                if why:
                    paired += 1
                    ctx.ob(RI, key, True, "subsumed by " + why, f.loc(t["sp"]))
                    continue
                txt = re.sub(r"_\d+\b", "", show(cond))
                hit = None
                for (fs, rx), (reason, side) in res.items():
                    if f.path.endswith(fs) and re.search(rx, txt):
                        hit = (reason, side)
                if hit is None:
                    ctx.ob(RI, key, False, "no run-time check of the safe build covers this assumption and it is not in the reasoned table", f.loc(t["sp"]))
                    continue
                ok, w = (True, "")
                if hit[1] is not None:
                    ok, w = hit[1](prog, f, sy, i)
                ctx.ob(RI, key, ok, "reviewed: %s%s" % (hit[0], ("; " + w) if w else ""), f.loc(t["sp"]))
    ctx.floor(RI, n, floors[0], "invariant! sites (assert_unchecked calls) in the unsafe configuration%s" % ("" if scope is None else " in scope"))
    ctx.floor(RI, paired, floors[1], "sites paired with a run-time check%s" % ("" if scope is None else " in scope"))


# ---- SA-CFGDIFF -------------------------------------------------------------------------------------------------------
RC = "SA-CFGDIFF"


def succs_all(t):
    from ..mir import succs
    return succs(t)


def debug_regions(f):
    """blocks that belong to `if cfg!(debug_assertions) { <check> }` with the constant true: everything between the taken arm
    and the join point is the assertion (its condition's evaluation included) and not behaviour of the function"""
    region = set()
    for i in f.live:
        b = f.blocks[i]
        t = b["term"]
        if t["t"] != "switch" or not (t["on"]["k"] in ("copy", "move") and not t["on"]["pl"]["p"]):
            continue
        l = t["on"]["pl"]["l"]
        cst = None
        for s in reversed(b["stmts"]):
            if s["s"] == "assign" and s["lhs"]["l"] == l and not s["lhs"]["p"]:
                if s["rv"]["r"] == "use" and s["rv"]["a"]["k"] == "const" and "debug_assert" in s["sp"]["macros"]:
                    cst = s["rv"]["a"].get("v")
                break
        if cst != "1":
            continue
        taken = f.pruned_succs(i)
        dead = [x for x in succs_all(t) if x not in taken]
        joins = set()
        for d in dead:
            dt = f.blocks[d]["term"]
            if dt["t"] == "goto":
                joins.add(dt["to"])
        if taken and joins:
            region |= f.reach_from(taken[0], avoid=joins)
    return region


def effect_canon(f, cells=False):
    """configuration-independent list of a body's effects: stores (to memory / named variables), effectful calls,
    live branches and the returned value, with temporaries inlined (Sym) and assertion plumbing removed"""
    sy = Sym(f)
    lines = []

    def skip_sp(sp):
        m = sp.get("macros", [])
        return "invariant" in m or "debug_assert" in m

    region = debug_regions(f)
    for i in f.rpo():
        if i in region:
            continue
        b = f.blocks[i]
        for s in b["stmts"]:
            if s["s"] != "assign" or skip_sp(s["sp"]):
                continue
            lhs = s["lhs"]
            named = bool(f.locals[lhs["l"]]["name"]) and lhs["l"] > f.argc
            if cells and not lhs["p"] and lhs["l"] in sy.cells and lhs["l"] > f.argc:
                named = True   # the initial value of a mutably borrowed temporary is part of what the body hands out
            if lhs["p"] or named or lhs["l"] == 0:
                try:
                    lines.append("STORE %s = %s" % (canon(sy.place(lhs)) if lhs["p"] else ("local:%s" % (f.locals[lhs["l"]]["name"] or "ret") if (f.locals[lhs["l"]]["name"] or lhs["l"] == 0) else "local:_%d" % lhs["l"]), canon(sy.rvalue(s["rv"]))))
                except RecursionError:
                    lines.append("STORE ?")
        t = b["term"]
        if t["t"] == "call":
            c = callee_of(t)
            if c.endswith("hint::assert_unchecked") or is_panic_call(t) or skip_sp(t["sp"]):
                continue
            eff = any(a["k"] in ("copy", "move") and a["pl"]["ty"].startswith(("&mut", "*mut")) for a in t["args"])
            d = t["dest"]
            named = (bool(f.locals[d["l"]]["name"]) and d["l"] > f.argc) or d["l"] == 0 or bool(d["p"])
            if named and not eff and not d["p"]:
                try:
                    ce = sy.call(t, i)
                except Exception:
                    ce = None
                if ce is not None and ce[0] == "cast":
                    # `usize::from(x)` for an integer x is the cast `x as usize` (Sym writes both the same way)
                    lines.append("STORE local:%s = %s" % (f.locals[d["l"]]["name"] or "ret", canon(ce)))
                    continue
            if eff or named or f.locals[d["l"]]["ty"] == "()":
                lines.append("CALL%s %s%s(%s)" % ("" if eff or not named else "~", ("local:%s = " % (f.locals[d["l"]]["name"] or "ret")) if named else "", c, ",".join(canon(sy.operand(a)) for a in t["args"])))
        elif t["t"] == "switch":
            ls = f.lsuccs(i)
            if len(set(ls)) >= 2:
                # branches whose other arm is a debug_assert!/invariant! panic are assertion plumbing of debug builds;
                # assert! branches are release-live checks and are kept
                dbg_only = False
                for x in ls:
                    xt = f.blocks[x]["term"]
                    if is_panic_call(xt) and ("debug_assert" in xt["sp"]["macros"] or "invariant" in xt["sp"]["macros"]):
                        dbg_only = True
                if not dbg_only:
                    lines.append("BR %s" % canon(sy.operand(t["on"])))
        elif t["t"] == "return":
            lines.append("RET")
    out = []
    ren = {}
    for l in lines:
        def L(m):
            name, num = m.group(1), m.group(2)
            if name:
                return "local:" + name
            if num not in ren:
                ren[num] = len(ren)
            return "local:_t%d" % ren[num]
        out.append(re.sub(r"local:([A-Za-z_][A-Za-z0-9_]*?)?_(\d+)", L, l))
    return out


def config_diff(prog_a, prog_b):
    A = {f.path: f for f in prog_a.fns}
    B = {f.path: f for f in prog_b.fns}
    only_a = sorted(set(A) - set(B))
    only_b = sorted(set(B) - set(A))
    changed = []
    for p in sorted(set(A) & set(B)):
        ca, cb = effect_canon(A[p]), effect_canon(B[p])
        if ca != cb:
            first = next(((x, y) for x, y in zip(ca, cb) if x != y), (str(len(ca)), str(len(cb))))
            changed.append((p, first))
    return only_a, only_b, changed


# reviewed feature-dependent bodies: config -> {function path suffix: (reason, rule that covers it)}
UPDATE3 = {
    "generate::Generator::update": "pointer-range variant of the engine loop (SA-SIBLING/SA-LOOPSTATE/SA-MIRROR/SA-INVPAIR in this configuration)",
    "generate::Generator::update_by_iter": "pointer-range variant of the engine loop (same rules)",
    "generate::Generator::update_by_byte": "pointer-range variant of the engine loop (same rules)",
}
UTF8 = {
    "as core::fmt::Display>::fmt": "from_utf8(..).unwrap() replaced by from_utf8_unchecked (ASCII-source rule SA-ASCII makes both total and equal)",
    "FuzzyHashData::<S1, S2, NORM>::to_string": "String::from_utf8(..).unwrap() replaced by from_utf8_unchecked (SA-ASCII)",
}
FNV = {
    "partial_fnv::PartialFNVHash::update_by_byte": "table step replaced by the arithmetic step (SA-DATA: table == formula for all 64x64; same constants)",
    "partial_fnv::PartialFNVHash::value": "arithmetic variant masks the state on read (SA-DATA)",
}
STRICT = {
    "hash::algorithms::parse_block_hash_from_bytes": "strict variant: symbol iterator bounded by take(N), look-ahead when it runs dry (SA-PANIC side condition, SA-GUARD look-ahead rule)",
}
REVIEWED = {
    "dbg": ("rel", {}, None, None),
    "unsafe": ("rel", {**UPDATE3, **UTF8}, r"_unchecked$", None),
    "unsafe_dbg": ("rel", {**UPDATE3, **UTF8}, r"_unchecked$", None),
    "unchecked": ("rel", {}, r"_unchecked$", None),
    "fnv": ("rel", FNV, None, None),
    "strict": ("rel", STRICT, None, None),
    "strict_dbg": ("rel", STRICT, None, None),
    "unsafe_fnv": ("unsafe", FNV, None, None),
    "all": ("unsafe", {**FNV, **STRICT}, None, None),
    "nodef": ("rel", {}, None, r"(generate_easy|compare_easy|generate_easy_std|::to_string$|for alloc::string::String>::from|to_normalized_string|to_raw_form_string|std::error::Error|GeneratorOrIOError|ParseErrorEither|ParseErrorSide|core::fmt::Display>::fmt::\{closure|hash_buf|hash_stream|hash_file)"),
    "alloc": ("rel", {}, None, r"(generate_easy_std|std::error::Error|GeneratorOrIOError|hash_stream|hash_file)"),
}


def utf8_normalised_equal(fa, fb):
    """the only difference is from_utf8(..).unwrap()  <->  from_utf8_unchecked(..)"""
    def norm(lines):
        out = []
        for l in lines:
            l = re.sub(r"core::result::Result::<T, E>::unwrap\((core::str::converts::from_utf8|core::str::from_utf8|alloc::string::String::from_utf8)\((.*)\)\)", r"FROM_UTF8(\2)", l)
            l = re.sub(r"(core::str::converts::from_utf8_unchecked|core::str::from_utf8_unchecked|alloc::string::String::from_utf8_unchecked)\(", "FROM_UTF8(", l)
            out.append(l)
        return out
    return norm(effect_canon(fa)) == norm(effect_canon(fb))


def cfgdiff(ctx, base, prog):
    ctx.rule(RC, "configuration diff at effect level: every MIR body is reduced to its effects (stores to memory and named variables, effectful calls, live branches, returned value; temporaries inlined; debug-assertion regions and invariant! plumbing removed) and compared between build configurations; debug assertions on/off must leave every body unchanged, and each feature may change only the reviewed bodies, each of which is covered by its own rule; added functions must be *_unchecked twins, removed ones must belong to the std/alloc/easy-function surface")
    cfg = prog.cfg
    base_cfg, allowed, add_rx, rem_rx = REVIEWED[cfg]
    oa, ob, ch = config_diff(base, prog)
    n = len(set(f.path for f in base.fns) & set(f.path for f in prog.fns))
    ctx.ob(RC, "%s vs %s: bodies compared" % (cfg, base_cfg), n >= 300, "%d common bodies, %d changed, %d added, %d removed" % (n, len(ch), len(ob), len(oa)))
    seen = set()
    for p, first in ch:
        hit = [k for k in allowed if p.endswith(k)]
        f = prog.get(p)
        if hit:
            seen.add(hit[0])
            ok = True
            why = "reviewed: " + allowed[hit[0]]
            if hit[0] in UTF8:
                ok = utf8_normalised_equal(base.get(p), f)
                why += "; bodies equal after identifying from_utf8().unwrap() with from_utf8_unchecked(): %s" % ok
            ctx.ob(RC, "%s vs %s: %s differs (reviewed)" % (cfg, base_cfg, re.sub(r"^internals::", "", p)), ok, why, f.loc() if f else None)
        else:
            ctx.ob(RC, "%s vs %s: %s differs" % (cfg, base_cfg, re.sub(r"^internals::", "", p)), False,
                   "unreviewed feature-dependent behaviour: first difference `%s` vs `%s`" % (first[0][:140], first[1][:140]), f.loc() if f else None)
    for k in allowed:
        if k not in seen:
            ctx.ob(RC, "%s vs %s: reviewed divergence %s is present" % (cfg, base_cfg, k), False, "the reviewed body no longer differs: the table entry is stale (re-review)")
    for p in ob:
        ok = bool(add_rx) and re.search(add_rx, p) is not None
        ctx.ob(RC, "%s vs %s: added body %s is an *_unchecked twin" % (cfg, base_cfg, re.sub(r"^internals::", "", p)), ok, "covered by SA-TWIN" if ok else "unexpected feature-only function")
    for p in oa:
        ok = bool(rem_rx) and re.search(rem_rx, p) is not None
        ctx.ob(RC, "%s vs %s: removed body %s belongs to the std/alloc/easy surface" % (cfg, base_cfg, re.sub(r"^internals::", "", p)), ok, "" if ok else "a core function disappears under this feature set")


def assertions_pure(ctx, prog, floor=40):
    """debug_assert!/invariant! conditions are evaluated only in some builds: they must not carry effects.  No call inside an assertion
    region (the blocks between `if cfg!(debug_assertions)` and its join, condition evaluation included) receives `&mut` to caller-visible
    state (a parameter, something reachable from one, or a named local of the function), and no statement there stores through such a
    reference - otherwise debug and release builds do different things (and SA-CFGDIFF, which sets assertion regions aside, cannot see it)."""
    RA = "SA-CFGDIFF"
    n = 0
    bad_total = 0
    for f in prog.fns:
        if f.derived:
            continue
        region = debug_regions(f)
        if not region:
            continue
        named = {l for l in range(f.argc + 1, len(f.locals)) if f.locals[l]["name"]}
        al = errpure.mut_aliases(f, set(range(1, f.argc + 1)) | named)
        bad = []
        for i in sorted(region):
            b = f.blocks[i]
            t = b["term"]
            if t["t"] == "call" and not is_panic_call(t):
                n += 1
                for a in t["args"]:
                    if a["k"] in ("copy", "move") and a["pl"]["ty"].startswith(("&mut", "*mut")) and a["pl"]["l"] in al:
                        bad.append(("%s receives `&mut` to caller-visible state inside a debug-only assertion" % callee_of(t).split("::")[-1], t["sp"]))
            for st in b["stmts"]:
                if st["s"] == "assign" and "*" in st["lhs"]["p"] and st["lhs"]["l"] in al:
                    bad.append(("store %s inside a debug-only assertion" % pl(st["lhs"]), st["sp"]))
        for w, sp in bad:
            bad_total += 1
            ctx.visit(f, weak=True)
            ctx.ob(RA, "%s: debug-only assertions carry no effect" % f.short, False, w, f.loc(sp))
    ctx.ob(RA, "no debug-only assertion in the crate hands out `&mut` to caller-visible state or stores through it", bad_total == 0, "%d calls inside assertion regions inspected" % n)
    ctx.floor(RA, n, floor, "calls inside debug-assertion regions")
