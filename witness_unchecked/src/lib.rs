//! Witnesses for the `unchecked` feature: contract-bearing entry points are `unsafe fn` (E0133).

/// U1 — an `_unchecked` constructor cannot be called outside `unsafe`.
/// ```compile_fail,E0133
/// let _h = ssdeep::RawFuzzyHash::new_from_internals_unchecked(3, &[1, 2, 3], &[]);
/// ```
/// twin:
/// ```no_run
/// let _h = unsafe { ssdeep::RawFuzzyHash::new_from_internals_unchecked(3, &[1, 2, 3], &[]) };
/// ```
pub struct U1;

/// U2 — `block_size::log_from_valid_unchecked` is unsafe.
/// ```compile_fail,E0133
/// let _l = ssdeep::block_size::log_from_valid_unchecked(3);
/// ```
/// twin:
/// ```no_run
/// let _l = unsafe { ssdeep::block_size::log_from_valid_unchecked(3) };
/// ```
pub struct U2;

/// U3 — the unchecked comparison of a target is unsafe.
/// ```compile_fail,E0133
/// let a = ssdeep::FuzzyHash::new();
/// let t = ssdeep::FuzzyHashCompareTarget::new();
/// let _s = t.compare_unequal_unchecked(&a);
/// ```
/// twin:
/// ```no_run
/// let a = ssdeep::FuzzyHash::new();
/// let t = ssdeep::FuzzyHashCompareTarget::new();
/// let _s = unsafe { t.compare_unequal_unchecked(&a) };
/// ```
pub struct U3;
