"""Helpers that did not exist on the reviewed tree are inlined into their callers before analysis.

The rules are written against the functions of the reviewed tree (sa/ref_fns.json lists their paths).  When a later tree
moves a few lines of such a function into a NEW private helper (an "extract function" refactoring - or a seeded change that
hides a step behind a helper), the rules would see a call where they expect the code.  A function that is not in the reviewed
list, is not exported, is not a closure, has a single body and does not call itself is therefore spliced into each of its call
sites at the MIR level (fresh locals for its parameters / return place / locals, its blocks appended, `return` replaced by an
assignment to the call's destination and a jump to the call's target) and then dropped from the function list.  The analysis
result is that of the program with the helper's body written out where it is called, which is what the helper means."""
import copy
import json
import os

_REF = None
MAX_BLOCKS = 120
MAX_DEPTH = 4


def ref_fns():
    global _REF
    if _REF is None:
        try:
            with open(os.path.join(os.path.dirname(os.path.abspath(__file__)), "ref_fns.json")) as fh:
                _REF = set(json.load(fh))
        except OSError:
            _REF = None
    return _REF


def _callee(t):
    return t.get("resolved") or t.get("callee")


def _map_place(p, lo):
    p = dict(p)
    p["l"] = p["l"] + lo
    np = []
    for e in p["p"]:
        if isinstance(e, dict) and "ix" in e:
            e = dict(e)
            e["ix"] = e["ix"] + lo
        np.append(e)
    p["p"] = np
    return p


def _map_operand(o, lo):
    if o is None:
        return None
    if o.get("k") in ("copy", "move"):
        o = dict(o)
        o["pl"] = _map_place(o["pl"], lo)
    return o


def _map_rvalue(r, lo):
    r = dict(r)
    k = r["r"]
    if k in ("use", "un", "cast", "repeat"):
        r["a"] = _map_operand(r["a"], lo)
    elif k == "bin":
        r["a"] = _map_operand(r["a"], lo)
        r["b"] = _map_operand(r["b"], lo)
    elif k in ("ref", "rawptr", "discr", "copyforderef", "len"):
        if "pl" in r:
            r["pl"] = _map_place(r["pl"], lo)
    elif k == "agg":
        r["ops"] = [_map_operand(o, lo) for o in r["ops"]]
    else:
        if "pl" in r and isinstance(r["pl"], dict) and "l" in r["pl"]:
            r["pl"] = _map_place(r["pl"], lo)
        if "a" in r and isinstance(r["a"], dict):
            r["a"] = _map_operand(r["a"], lo)
    return r


def _map_stmt(s, lo):
    s = dict(s)
    if "lhs" in s:
        s["lhs"] = _map_place(s["lhs"], lo)
    if "rv" in s:
        s["rv"] = _map_rvalue(s["rv"], lo)
    return s


def _map_term(t, lo, bo, ret_to, ret_local, dest, sp):
    """returns (extra statements, terminator)"""
    t = dict(t)
    k = t["t"]
    if k == "goto":
        t["to"] += bo
    elif k == "switch":
        t["on"] = _map_operand(t["on"], lo)
        t["arms"] = [[a[0], a[1] + bo] for a in t["arms"]]
        t["otherwise"] = t["otherwise"] + bo if t["otherwise"] is not None else None
    elif k == "drop":
        t["pl"] = _map_place(t["pl"], lo)
        t["to"] += bo
    elif k == "assert":
        t["cond"] = _map_operand(t["cond"], lo)
        m = dict(t["msg"])
        for kk, v in list(m.items()):
            if isinstance(v, dict) and "k" in v:
                m[kk] = _map_operand(v, lo)
        t["msg"] = m
        t["to"] += bo
    elif k == "call":
        t["args"] = [_map_operand(a, lo) for a in t["args"]]
        t["dest"] = _map_place(t["dest"], lo)
        if t.get("fop"):
            t["fop"] = _map_operand(t["fop"], lo)
        if t["to"] is not None:
            t["to"] += bo
    elif k == "return":
        st = [{"s": "assign", "lhs": dest, "rv": {"r": "use", "a": {"k": "move", "pl": {"l": ret_local, "p": [], "ty": dest.get("ty", "")}}}, "sp": sp}]
        if ret_to is None:
            return st, {"t": "unreachable"}
        return st, {"t": "goto", "to": ret_to}
    return [], t


def _inline_call(f, bi, g):
    """splice g's body into caller f at the call terminating block bi"""
    b = f["blocks"][bi]
    t = b["term"]
    lo = len(f["locals"])
    bo = len(f["blocks"])
    taken = {x.get("name") for x in f["locals"] if x.get("name")}
    for k, l in enumerate(g["locals"]):
        l = dict(l)
        if 1 <= k <= g.get("argc", 0):
            # the helper's parameters are copies of the arguments: plain temporaries here (a name would make two variables of one value)
            l["name"] = None
        elif l.get("name") and l["name"] in taken:
            l["name"] = l["name"] + "_h"
        f["locals"].append(l)
    sp = t.get("sp", {})
    for k, a in enumerate(t["args"], start=1):
        if k > g["argc"]:
            break
        b["stmts"].append({"s": "assign", "lhs": {"l": lo + k, "p": [], "ty": g["locals"][k]["ty"]}, "rv": {"r": "use", "a": a}, "sp": sp})
    for gb in g["blocks"]:
        nb = {"stmts": [_map_stmt(s, lo) for s in gb["stmts"]], "cleanup": gb.get("cleanup", False)}
        extra, nt = _map_term(gb["term"], lo, bo, t["to"], lo, t["dest"], sp)
        nb["stmts"] += extra
        nb["term"] = nt
        for kk, v in gb.items():
            if kk not in nb:
                nb[kk] = v
        f["blocks"].append(nb)
    b["term"] = {"t": "goto", "to": bo}


def run(d):
    """inline helpers unknown to the reviewed tree; returns the list of (helper, caller) pairs"""
    ref = ref_fns()
    if not ref:
        return []
    by_path = {}
    for f in d["fns"]:
        by_path.setdefault(f["path"], []).append(f)
    cand = {}
    for path, fs in by_path.items():
        if path in ref or len(fs) != 1:
            continue
        g = fs[0]
        if g.get("exported") or "closure" in path or g.get("kind") == "Closure" or len(g["blocks"]) > MAX_BLOCKS:
            continue
        if any(b["term"]["t"] == "call" and _callee(b["term"]) == path for b in g["blocks"]):
            continue
        cand[path] = g
    if not cand:
        return []
    done = []
    for _ in range(MAX_DEPTH):
        changed = False
        for f in d["fns"]:
            for bi in range(len(f["blocks"])):
                t = f["blocks"][bi]["term"]
                if t["t"] == "call" and _callee(t) in cand and cand[_callee(t)] is not f:
                    g = copy.deepcopy(cand[_callee(t)])
                    done.append((g["path"], f["path"]))
                    _inline_call(f, bi, g)
                    changed = True
        if not changed:
            break
    # drop the helpers that are no longer called anywhere
    still = set()
    for f in d["fns"]:
        for b in f["blocks"]:
            t = b["term"]
            if t["t"] == "call" and _callee(t) in cand:
                still.add(_callee(t))
    d["fns"] = [f for f in d["fns"] if not (f["path"] in cand and f["path"] not in still)]
    return done
