"""SA-ERRPURE: a failing call has not touched the caller's state.

On every path from entry to an error outcome there is no store through, and no
`&mut` hand-off of, the caller-visible mutable roots (unless the callee is itself a
verified ERRPURE function whose result is returned as is)."""
from ..mir import callee_of, pl


def mut_aliases(f, roots):
    """locals that hold a `&mut` derived from the given parameter locals"""
    al = set(roots)
    ch = True
    while ch:
        ch = False
        for i, j, s in f.stmts():
            if s["s"] != "assign" or s["lhs"]["p"]:
                continue
            l = s["lhs"]["l"]
            if l in al:
                continue
            r = s["rv"]
            src = None
            if r["r"] in ("ref", "rawptr") and (r["r"] == "rawptr" or r["mut"]):
                src = r["pl"]["l"]
            elif r["r"] in ("use", "cast") and r["a"]["k"] in ("copy", "move"):
                src = r["a"]["pl"]["l"]
                if not f.locals[l]["ty"].startswith(("&mut", "*mut")):
                    src = None
            if src is not None and src in al:
                al.add(l)
                ch = True
        for i, t in f.calls():
            # a call returning &mut derived from an alias argument (e.g. index_mut, as_mut)
            d = t["dest"]
            if d["p"] or d["l"] in al:
                continue
            if f.locals[d["l"]]["ty"].startswith(("&mut", "*mut")):
                for a in t["args"]:
                    if a["k"] in ("copy", "move") and a["pl"]["l"] in al:
                        al.add(d["l"])
                        ch = True
                        break
    return al


def writes_in_block(f, i, al, allowed_callees=()):
    """(description, span) of each potential write to the aliased state in block i"""
    out = []
    b = f.blocks[i]
    for s in b["stmts"]:
        if s["s"] != "assign":
            continue
        lhs = s["lhs"]
        if lhs["l"] in al and "*" in lhs["p"]:
            out.append(("store %s" % pl(lhs), s["sp"]))
    t = b["term"]
    if t["t"] == "call":
        c = callee_of(t)
        for a in t["args"]:
            if a["k"] in ("copy", "move") and not a["pl"]["p"] and a["pl"]["l"] in al and \
                    f.locals[a["pl"]["l"]]["ty"].startswith(("&mut", "*mut")):
                if not any(c == x or c.endswith("::" + x) for x in allowed_callees):
                    out.append(("&mut handed to %s" % c, t["sp"]))
                break
    return out


def blocks_on_paths_to(f, targets):
    """blocks that lie on some entry->target path (targets included)"""
    T = set(targets)
    back = set(T)
    st = list(T)
    while st:
        n = st.pop()
        for p in f.preds.get(n, []):
            if p not in back:
                back.add(p)
                st.append(p)
    return back & f.live


def check(ctx, rule, key, f, roots, err_blocks, allowed_callees=(), what="caller state"):
    ctx.visit(f, weak=True)
    if not err_blocks:
        return ctx.ob(rule, key, False, "no error outcome found in %s" % f.short, f.loc())
    al = mut_aliases(f, roots)
    bad = []
    for i in sorted(blocks_on_paths_to(f, err_blocks)):
        for d, sp in writes_in_block(f, i, al, allowed_callees):
            bad.append((d, sp, i))
    if bad:
        d, sp, i = bad[0]
        return ctx.ob(rule, key, False, "%s (bb%d) lies on a path to an error return of %s: %s is modified before failing" % (d, i, f.short, what), f.loc(sp))
    return ctx.ob(rule, key, True, "no store/&mut hand-off on the %d blocks leading to %d error outcome(s)" % (len(blocks_on_paths_to(f, err_blocks)), len(err_blocks)), f.loc())
