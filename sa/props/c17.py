"""C17 — reused comparison targets carry nothing over (the history clause is decided by typestate)."""
from ..rules import effbs, validate, typestate, fields, vis, eqord, witness, casts, summary, features, beliefs, data

EXPL = ("Decides the history clause: typestate Zero/Unknown over the 64xu64 occupancy-mask arrays of FuzzyHashCompareTarget (two "
        "locations, through the block_hash_K_mut views) and BlockHashPositionArray, with effects inferred from bodies (Clear = whole "
        "fill(0) of representation_mut(self); Accumulate = elem |= .. without a dominating clear). At every call site of an "
        "accumulate-first function (init_from_partial and whoever passes the requirement on) the location is Zero on every path - "
        "cleared by a dominating clear on the same location or fresh from an all-zero constructor; functions that require Zero at "
        "entry are not exported (SA-VIS); the views pair mask K with length K and representation_mut returns the mask itself. "
        "Lengths and block size are re-defined by init_from_partial from the like-named fields of the source (SA-FIELDS). SA-FORMULA / "
        "SA-GUARD, the representation clause as code shape: init_from_partial performs exactly mask[symbol] |= 1 << position for every "
        "(position, symbol) of the whole input and sets the length to the input's length; is_equiv_internal answers non-false only under "
        "`self.len() == other.len()` and then as the conjunction over every (position, symbol) of `other` of mask[symbol] & (1 << position) != 0 "
        "on self.representation(). NOT decided: is_valid / is_normalized of a position array as bit arithmetic (popcount and run tests).")


def run(ctx):
    cfgs = ["rel", "unchecked", "unsafe"] if ctx.tier == "quick" else ["rel", "dbg", "unsafe", "unchecked", "nodef"]
    ctx.progs(cfgs)  # build all configurations in parallel
    for c in cfgs:
        prog = ctx.prog(c)
        ctx.guard("C17", "typestate", lambda: typestate.clear_before_accumulate(ctx, prog))
        ctx.guard("C17", "views", lambda: typestate.views_are_like_indexed(ctx, prog))
        ctx.guard("C17", "lenmask", lambda: typestate.length_follows_masks(ctx, prog))
        ctx.guard("C17", "equiv", lambda: typestate.equiv_exact(ctx, prog))
        ctx.guard("C17", "accumulate", lambda: typestate.accumulate_exact(ctx, prog))
        ctx.guard("C17", "validnorm", lambda: typestate.valid_normalized_shape(ctx, prog))
        ctx.guard("C17", "validcontent", lambda: typestate.valid_content(ctx, prog))
        ctx.guard("C17", "sequences", lambda: typestate.sequences_exact(ctx, prog))
        ctx.guard("C17", "like", lambda: fields.like_index(ctx, prog, scope=r"internals::compare::|<internals::compare::", floor=3))
        ctx.guard("C17", "complete", lambda: fields.dest_complete(ctx, prog, scope=r"internals::compare::|<internals::compare::", floor=1))
        ctx.guard("C17", "vis", lambda: vis.representation_private(ctx, prog))
        ctx.guard("C17", "panic-pure", lambda: validate.panic_purity(ctx, prog))
        if c == "unchecked":
            # the `_unchecked` forms of the comparison API are their `_internal` bodies (a re-implemented twin is a second, unchecked implementation)
            ctx.guard("C17", "twins", lambda: features.twins(ctx, prog, scope='internals::compare::|position_array::', floor=8))
        ctx.guard("C17", "distance-exits", lambda: effbs.distance_exits(ctx, prog))
        ctx.guard("C17", "full-eq", lambda: eqord.full_eq(ctx, prog))
        if c == "dbg":
            ctx.guard("C17", "contracts", lambda: validate.constructors(ctx, prog))
        ctx.guard("C17", "traits", lambda: vis.trait_census(ctx, prog, scope='position_array::|FuzzyHashCompareTarget'))
        ctx.guard("C17", "casts", lambda: casts.census(ctx, prog, scope='compare::position_array::', floor=3))
        ctx.guard("C17", "const values", lambda: data.const_census(ctx, prog, data.CONST_SCOPES["C17"], floor=1))
        ctx.guard("C17", "panic conditions", lambda: beliefs.live_census(ctx, prog, beliefs.SCOPES["C17"][0]))
        ctx.guard("C17", "element-asserts", lambda: validate.element_range_asserts(ctx, prog))
        ctx.guard("C17", "initialisers", lambda: typestate.initialisers_complete(ctx, prog))
        ctx.guard("C17", "summaries", lambda: summary.check(ctx, prog, 'compare::position_array::|internals::utils::|FuzzyHashCompareTarget::(new|init_from|block_hash_[12]|is_equiv|full_eq|log_block_size|block_size)|core::default::Default>::default', floor=10))
        ctx.guard("C17", "path summaries", lambda: summary.check_paths(ctx, prog, 'compare::position_array::|internals::utils::|FuzzyHashCompareTarget::(new|init_from|block_hash_[12]|is_equiv|full_eq|log_block_size|block_size)|core::default::Default>::default', floor=6))
        if c in ("dbg", "unsafe_dbg", "strict_dbg"):
            ctx.guard("C17", "beliefs", lambda: beliefs.census(ctx, prog, beliefs.SCOPES["C17"][0], floor=beliefs.SCOPES["C17"][1]))
    if ctx.tier == "thorough":
        ctx.cfg = "witness"
        ctx.guard("C17", "witness", lambda: witness.run(ctx, "witness", ["W3", "W4", "W7", "W8"]))
    return ctx.finish(EXPL, ["slice::fill has its documented meaning"])
