"""Operand order is form: a comparison or a commutative operation written the other way round is read the way the reviewed tree
writes it.

`a < b` and `b > a`, `x | y` and `y | x`, `n == 0` and `0 == n` are one thing; the rules and the reference tables are written with
the operand order of the reviewed tree.  sa/ref_orient.json records, per function, how the reviewed tree writes each ordered
comparison (as the pair (smaller side, larger side), strictness, and whether the smaller side is written first) and each commutative
operation (operator and the two operands in written order); operands are def-use expressions with local numbering removed.  When a
later tree writes the SAME comparison / operation of the same function the other way round - and the reviewed tree never does - the
operands are swapped back at the MIR level (and `<`/`>`, `<=`/`>=` exchanged), so that every rule sees the reviewed spelling.  A
comparison between other operands, or a changed operator (`<` for `<=`), matches no entry and is left exactly as written."""
import json
import os
import re

_REF = None
FLIP = {"Lt": "Gt", "Gt": "Lt", "Le": "Ge", "Ge": "Le"}
COMM = ("Eq", "Ne", "BitOr", "BitAnd", "BitXor", "Add", "Mul", "AddWithOverflow", "MulWithOverflow", "AddUnchecked", "MulUnchecked")


def ref():
    global _REF
    if _REF is None:
        try:
            with open(os.path.join(os.path.dirname(os.path.abspath(__file__)), "ref_orient.json")) as fh:
                _REF = json.load(fh)
        except OSError:
            _REF = {}
    return _REF


def _key(e):
    from .sym import canon, strip
    t = canon(strip(e))
    if "…" in t:
        return None
    t = re.sub(r"(local:[A-Za-z_]\w*?)_\d+\b", r"\1", t)
    if re.search(r"local:_\d+", t):
        return None   # an unnamed temporary with several definitions: no stable name
    return t


def sites(f):
    """(statement, class, written key) of every comparison / commutative operation of the body"""
    from .sym import Sym
    sy = Sym(f)
    for i, j, s in f.stmts():
        if s["s"] != "assign" or s["rv"].get("r") != "bin":
            continue
        rv = s["rv"]
        op = rv["op"]
        if op not in FLIP and op not in COMM:
            continue
        try:
            a, b = _key(sy.operand(rv["a"])), _key(sy.operand(rv["b"]))
        except Exception:
            continue
        if a is None or b is None or a == b:
            continue
        if op in FLIP:
            strict = op in ("Lt", "Gt")
            small_first = op in ("Lt", "Le")
            lo, hi = (a, b) if small_first else (b, a)
            yield rv, ("ord", lo, hi, strict), small_first
        else:
            x, y = sorted((a, b))
            yield rv, ("comm", op, x, y), a == x


def table(f):
    out = {}
    for rv, k, way in sites(f):
        out.setdefault("|".join(str(x) for x in k), set()).add(way)
    return out


def run(prog):
    """returns the list of (function, what) re-orientations done"""
    R = ref()
    done = []
    if not R:
        return done
    for f in prog.fns:
        want = R.get(f.path)
        if not want:
            continue
        for rv, k, way in list(sites(f)):
            ws = want.get("|".join(str(x) for x in k))
            if not ws or len(ws) != 1 or ws[0] == way:
                continue
            rv["a"], rv["b"] = rv["b"], rv["a"]
            if rv["op"] in FLIP:
                rv["op"] = FLIP[rv["op"]]
            done.append((f.path, "%s %s / %s" % (k[0], k[-3] if k[0] == "ord" else k[1], k[-2] if k[0] == "ord" else k[2])))
    return done
