"""Write census over the invariant-carrying types, and the SA-FIELDS / SA-TAIL rules built on it."""
import re
from ..sym import Sym, strip, show, canon, fpath, const_value, lin
from ..mir import callee_of, pl

HASH_TYPES = ("internals::hash::FuzzyHashData", "internals::hash_dual::FuzzyHashDualData",
              "internals::compare::FuzzyHashCompareTarget", "internals::compare::position_array::BlockHashPositionArray")
MUTATORS = ("copy_from_slice", "clone_from_slice", "fill")


class Write:
    __slots__ = ("root", "owner", "field", "rng", "kind", "src", "blk", "sp", "callee")

    def __init__(self, root, owner, field, rng, kind, src, blk, sp, callee=None):
        self.root, self.owner, self.field, self.rng, self.kind, self.src, self.blk, self.sp, self.callee = root, owner, field, rng, kind, src, blk, sp, callee

    def __repr__(self):
        return "W(%s.%s%s %s %s)" % (self.root, self.field, "" if self.rng is None else "[%s..%s]" % self.rng, self.kind, show(self.src) if isinstance(self.src, tuple) else self.src)


def range_of(e):
    e = strip(e)
    if e[0] == "agg":
        n = e[1].split("::")[-1]
        if n == "Range" and len(e[2]) == 2:
            return (e[2][0], e[2][1])
        if n == "RangeTo" and len(e[2]) == 1:
            return (("const", 0, None, "usize"), e[2][0])
        if n == "RangeFrom" and len(e[2]) == 1:
            return (e[2][0], None)
        if n == "RangeFull":
            return (("const", 0, None, "usize"), None)
    return "?"


def slice_expr(e):
    """(place_expr, range|None) of a slice/array reference expression; range None = whole"""
    e = strip(e)
    if e[0] == "call" and len(e[2]) == 2 and e[1].split("::")[-1] in ("index_mut", "index"):
        base, rg = slice_expr(e[2][0])
        r = range_of(e[2][1])
        if rg is None:
            return base, r
        return base, "?"
    if e[0] == "call" and len(e[2]) == 1 and e[1].split("::")[-1] in ("as_mut_slice", "as_slice", "as_mut", "as_ref", "deref_mut", "deref"):
        return slice_expr(e[2][0])
    return e, None


def owner_field(e):
    """if place expr is field F of a hash-typed object: (root_expr, owner, F, rest) else None"""
    e = strip(e)
    chain = []
    while True:
        if e[0] == "field":
            chain.append(e)
            e = e[1]
        elif e[0] in ("ref", "deref", "cast"):
            e = e[1]
        elif e[0] == "downcast":
            e = e[1]
        else:
            break
    for fe in chain:  # innermost hash-typed owner first (norm_hash.blockhash1 -> FuzzyHashData.blockhash1)
        if len(fe) > 3 and fe[3] in HASH_TYPES:
            return strip_ref(fe[1]), fe[3], fe[2]
    return None


def strip_ref(e):
    while e[0] in ("ref", "deref"):
        e = e[1]
    return e


def root_key(e):
    e = strip_ref(e)
    if e[0] == "param":
        return "param:%s" % (e[2] or e[1])
    if e[0] == "local":
        return "local:%s_%d" % (e[2] or "", e[1])
    return canon(e)


def census(f, sy=None):
    """all writes to fields of hash-typed objects performed by f itself, and &mut hand-offs of such fields"""
    sy = sy or Sym(f)
    out = []
    for i, j, s in f.stmts():
        if s["s"] != "assign":
            continue
        lhs = s["lhs"]
        fl = [e for e in lhs["p"] if isinstance(e, dict) and "f" in e and e.get("of") in HASH_TYPES]
        if fl:
            e = fl[-1]
            # root: local + projections before the field
            k = lhs["p"].index(e)
            rootpl = {"l": lhs["l"], "p": lhs["p"][:k]}
            root = sy.place(rootpl)
            rest = lhs["p"][k + 1:]
            rng = None
            if rest:
                ix = [x for x in rest if isinstance(x, dict) and ("ix" in x or "cix" in x)]
                if ix and "ix" in ix[0]:
                    ie = sy.local(ix[0]["ix"])
                    rng = (ie, ("bin", "Add", ie, ("const", 1, None, "usize")))
                elif ix:
                    c = ("const", ix[0]["cix"], None, "usize")
                    rng = (c, ("const", ix[0]["cix"] + 1, None, "usize"))
                else:
                    rng = "?"
            out.append(Write(root_key(root), e["of"], e["n"], rng, "assign", sy.rvalue(s["rv"]), i, s["sp"]))
        elif not lhs["p"] or lhs["p"] == ["*"]:
            # whole-object store: aggregate of a hash type, or *dest = value
            r = s["rv"]
            ty = f.locals[lhs["l"]]["ty"]
            if r["r"] == "agg" and r["kind"].get("adt") in HASH_TYPES:
                root = sy.place(lhs)
                for nm, o in zip(r["kind"]["fields"], r["ops"]):
                    out.append(Write(root_key(root) if lhs["p"] else "local:%s_%d" % (f.locals[lhs["l"]]["name"], lhs["l"]), r["kind"]["adt"], nm, None, "aggregate", sy.operand(o), i, s["sp"]))
            elif lhs["p"] == ["*"] and any(ty.startswith("&mut " + h) for h in HASH_TYPES):
                out.append(Write(root_key(sy.place({"l": lhs["l"], "p": []})), ty[5:].split("<")[0], "*", None, "assign-whole", sy.rvalue(r), i, s["sp"]))
    for i, t in f.calls():
        c = callee_of(t)
        for k, a in enumerate(t["args"]):
            if a["k"] not in ("copy", "move"):
                continue
            aty = a["pl"]["ty"]
            if not aty.startswith("&mut"):
                continue
            e = sy.operand(a)
            base, rng = slice_expr(e)
            of = owner_field(base)
            if of is None:
                continue
            root, owner, fld = of
            nm = c.split("::")[-1]
            if nm in MUTATORS and k == 0:
                src = sy.operand(t["args"][1]) if len(t["args"]) > 1 else None
                out.append(Write(root_key(root), owner, fld, rng, nm, src, i, t["sp"]))
            else:
                out.append(Write(root_key(root), owner, fld, rng, "handoff", None, i, t["sp"], callee=c))
    return out


def cval(e):
    """integer value of a (possibly named) constant expression, or of S1/S2-like const generics (None)"""
    if e is None:
        return None
    return const_value(e)


def covers_whole(ws, n_known=None):
    """do the writes `ws` (same field) cover [0,N)?  whole-field write, or ranges chaining 0 -> end"""
    if any(w.rng is None for w in ws):
        return True
    segs = []
    for w in ws:
        if w.rng == "?" or w.rng is None:
            continue
        a, b = w.rng
        segs.append((canon(strip(a)), None if b is None else canon(strip(b)), cval(a), cval(b) if b is not None else None))
    # chain from 0
    cur_txt = None
    cur_val = 0
    progressed = True
    used = set()
    while progressed:
        progressed = False
        for k, (at, bt, av, bv) in enumerate(segs):
            if k in used:
                continue
            starts_here = (av is not None and cur_val is not None and av <= cur_val) or (cur_txt is not None and at == cur_txt)
            if starts_here:
                used.add(k)
                if bt is None and bv is None:
                    return True
                cur_txt, cur_val = bt, bv
                if n_known is not None and bv is not None and bv >= n_known:
                    return True
                progressed = True
    return False


# ---- SA-FIELDS: destination completely defined, like-indexed copies ------------------------------------------

RF = "SA-FIELDS"
FIELDS_OF = {
    "internals::hash::FuzzyHashData": ("blockhash1", "blockhash2", "len_blockhash1", "len_blockhash2", "log_blocksize"),
    "internals::hash_dual::FuzzyHashDualData": ("rle_block1", "rle_block2", "norm_hash"),
    "internals::compare::FuzzyHashCompareTarget": ("blockhash1", "blockhash2", "len_blockhash1", "len_blockhash2", "log_blocksize"),
}


# reviewed partial writers: (function suffix, fields deliberately not written) -> (reason, structural condition)
PARTIAL_WRITERS = {
    ("compare::FuzzyHashCompareTarget::init_from_partial", ("blockhash1", "blockhash2")):
        ("the mask arrays are accumulated through the position-array views; clear-before-accumulate is decided by SA-TYPESTATE at every call site; requires: not exported", lambda f: not f.exported),
    ("hash_dual::FuzzyHashDualData::<S1, S2, C1, C2>::normalize_in_place", ("norm_hash",)):
        ("in-place transformer: dropping the reverse-normalisation data leaves the normalised part as is; both RLE blocks are reset together", lambda f: True),
}


def doc_fields(ctx):
    ctx.rule(RF, "write census over the hash types: a function that writes fields of a `&mut` hash-typed destination defines every field on every normal return; a value copied from a field of another hash object goes to the like-named (like-indexed) field")


def in_scope(f, scope):
    import re as _re
    return scope is None or _re.search(scope, f.path) is not None


def like_index(ctx, prog, scope=None, floor=30):
    """copies between hash objects go from field F to field F (blockhash1->blockhash1, len2->len2, ...)"""
    doc_fields(ctx)
    n = 0
    for f in prog.fns:
        if not in_scope(f, scope):
            continue
        for w in census(f):
            if w.kind == "handoff" or w.src is None or not isinstance(w.src, tuple):
                continue
            src = w.src
            if w.kind in ("copy_from_slice", "clone_from_slice"):
                src, _ = slice_expr(src)
            of = owner_field(src)
            if of is None:
                continue
            # only plain copies (the source expression *is* a field of a hash object)
            s = strip(src)
            while s[0] in ("ref", "deref", "cast"):
                s = s[1]
            if s[0] == "call" and "clone" in s[1] and s[2]:
                s = strip(s[2][0])
                while s[0] in ("ref", "deref", "cast"):
                    s = s[1]
            if s[0] != "field":
                continue
            n += 1
            ctx.visit(f, weak=True)
            ctx.ob(RF, "%s: %s <- source field of the same name" % (f.short, w.field), of[2] == w.field,
                   "%s.%s = %s" % (w.root, w.field, show(w.src)), f.loc(w.sp))
    ctx.floor(RF, n, floor, "field-to-field copies between hash objects%s" % ("" if scope is None else " in scope"))


def dest_complete(ctx, prog, scope=None, floor=6):
    """every function writing through a `&mut` hash-typed parameter defines all of its fields on every normal return"""
    doc_fields(ctx)
    n = 0
    for f in prog.fns:
        if not in_scope(f, scope):
            continue
        ws = [w for w in census(f) if w.root.startswith("param:") and w.owner in FIELDS_OF]
        if not ws:
            continue
        sy = Sym(f)
        for root in sorted({(w.root, w.owner) for w in ws}):
            rw = [w for w in ws if (w.root, w.owner) == root]
            # pure hand-off functions (normalize_in_place_internal) transform in place: not a (re)definition
            if all(w.kind == "handoff" for w in rw):
                continue
            # in-place transformers that only touch a strict subset deliberately (dual normalize_in_place clears RLE only;
            # compare target partial initialiser) are handled by their own rules when they are not exported `into`/`init` forms
            n += 1
            ctx.visit(f, weak=True)
            need = FIELDS_OF[root[1]]
            # normal returns: return blocks not dominated by an Err construction
            errs = set()
            for i, j, s in f.stmts():
                if s["s"] == "assign" and s["lhs"]["l"] == 0 and s["rv"]["r"] == "agg" and s["rv"]["kind"].get("variant") == "Err":
                    errs.add(i)
            oks = [i for i, j, s in f.stmts() if s["s"] == "assign" and s["lhs"]["l"] == 0 and not s["lhs"]["p"] and i not in errs]
            oks = oks or f.return_blocks()
            missing = []
            for fld in need:
                fw = [w for w in rw if w.field == fld and (w.kind != "handoff" or not w.callee.endswith("index_mut"))]
                dom = [w for w in fw if all(f.dominates(w.blk, o) for o in oks)]
                if not dom:
                    missing.append(fld)
                    continue
                if fld.startswith(("blockhash", "rle_block")):
                    hand = [w for w in dom if w.kind == "handoff"]
                    if not hand and not covers_whole(dom, 64):
                        missing.append(fld + " (partially)")
            exc = None
            for (suffix, flds), (reason, cond) in PARTIAL_WRITERS.items():
                if f.path.endswith(suffix) and tuple(missing) == flds:
                    exc = (reason, cond(f))
            if missing and exc:
                ctx.ob(RF, "%s: partial writer of `%s` is a reviewed exception" % (f.short, root[0][6:]), exc[1],
                       "%s (fields left: %s)" % (exc[0], ", ".join(missing)), f.loc())
                continue
            ctx.ob(RF, "%s: defines every field of its `%s` destination on every normal return" % (f.short, root[0][6:]), not missing,
                   "all of %s written" % (", ".join(need)) if not missing else "not (wholly) written: %s" % ", ".join(missing), f.loc())
    ctx.floor(RF, n, floor, "functions writing through a &mut hash-typed parameter%s" % ("" if scope is None else " in scope"))
