"""RLE encoding formulas (C07): encode/decode are an inverse pair by shape; the encoder emits 4,4,..,remainder groups;
the compressor hands the encoder (position of the last kept symbol, run length)."""
from ..sym import Sym, strip, show, canon, match, const_value, is_param
from ..mir import callee_of
from .data import scalar

R = "SA-FORMULA"


def encoding(ctx, prog):
    ctx.rule(R, "the returned expression tree (single-assignment temporaries expanded, casts ignored, commutative operands unordered) equals the documented formula")
    bp, mp, br, mr, term = (scalar(prog, "rle_encoding::BITS_POSITION"), scalar(prog, "rle_encoding::MASK_POSITION"), scalar(prog, "rle_encoding::BITS_RUN_LENGTH"),
                            scalar(prog, "rle_encoding::MAX_RUN_LENGTH"), scalar(prog, "rle_encoding::TERMINATOR"))
    ctx.ob("SA-DATA", "RLE constants: 6 position bits + 2 length bits, mask 63, max run 4, terminator 0", (bp, mp, br, mr, term) == (6, 63, 2, 4, 0) and mp == (1 << bp) - 1 and mr == 1 << br and bp + br == 8,
           "BITS_POSITION=%d MASK=%d BITS_RUN_LENGTH=%d MAX_RUN_LENGTH=%d TERMINATOR=%d" % (bp, mp, br, mr, term))
    f = prog.fn("rle_encoding::encode")
    ctx.visit(f)
    e = Sym(f).local(0)
    BP = ("named", "rle_encoding::BITS_POSITION", 6)
    ok = match(e, ("bin", "BitOr", ("param", "pos"), ("bin", "Shl", ("bin", "Sub", ("param", "len"), ("v", 1)), BP)))
    ctx.ob(R, "rle_encoding::encode(pos, len) = pos | ((len - 1) << BITS_POSITION)", ok, show(e), f.loc())
    g = prog.fn("rle_encoding::decode")
    ctx.visit(g)
    e = strip(Sym(g).local(0))
    ok = e[0] == "agg" and len(e[2]) == 2 and match(e[2][0], ("bin", "BitAnd", ("param", "value"), ("named", "rle_encoding::MASK_POSITION", 63))) and \
        match(e[2][1], ("bin", "Add", ("bin", "Shr", ("param", "value"), BP), ("v", 1)))
    ctx.ob(R, "rle_encoding::decode(v) = (v & MASK_POSITION, (v >> BITS_POSITION) + 1)  (inverse of encode for 1<=pos<=63, 1<=len<=4)", ok, show(e), g.loc())
    # the encoder: groups of MAX_RUN_LENGTH then the remainder
    u = prog.fn("hash_dual::algorithms::update_rle_block")
    ctx.visit(u)
    sy = Sym(u)
    MS = ("named", "block_hash::MAX_SEQUENCE_SIZE", 3)
    MR = ("named", "rle_encoding::MAX_RUN_LENGTH", 4)
    ext = ("bin", "Sub", ("bin", "Sub", ("param", "len"), MS), ("v", 1))
    fill = ("bin", "Div", ext, MR)
    ret = sy.local(0)
    ok = match(ret, ("bin", "Add", ("bin", "Add", ("param", "rle_offset"), fill), ("v", 1)))
    ctx.ob(R, "update_rle_block returns rle_offset + (len - MAX_SEQ - 1)/4 + 1", ok, show(ret)[:160], u.loc())
    okf = oke = False
    whyf = whye = ""
    for i, t in u.calls():
        if callee_of(t).split("::")[-1] == "fill":
            dst = strip(sy.operand(t["args"][0]))
            val = sy.operand(t["args"][1])
            whyf = "%s <- %s" % (show(dst)[:140], show(val)[:80])
            if dst[0] == "call" and dst[1].split("::")[-1] == "index_mut":
                rg = strip(dst[2][1])
                okf = is_param(dst[2][0], "rle_block") and rg[0] == "agg" and rg[1].endswith("Range::Range") and match(rg[2][0], ("param", "rle_offset")) and \
                    match(rg[2][1], ("bin", "Add", ("param", "rle_offset"), fill)) and match(val, ("call", "rle_encoding::encode", [("param", "pos"), MR]))
    for i, j, s in u.stmts():
        if s["s"] == "assign" and s["lhs"]["l"] == 1 and any(isinstance(x, dict) and "ix" in x for x in s["lhs"]["p"]):
            ix = [x for x in s["lhs"]["p"] if isinstance(x, dict) and "ix" in x][0]["ix"]
            ie = sy.local(ix)
            v = sy.rvalue(s["rv"])
            whye = "rle_block[%s] = %s" % (show(ie)[:80], show(v)[:120])
            oke = match(ie, ("bin", "Add", ("param", "rle_offset"), fill)) and \
                match(v, ("call", "rle_encoding::encode", [("param", "pos"), ("bin", "Add", ("bin", "Rem", ext, MR), ("v", 1))]))
    ctx.ob(R, "update_rle_block fills [offset, offset + (len-4)/4) with encode(pos, 4)", okf, whyf, u.loc())
    ctx.ob(R, "update_rle_block stores encode(pos, (len-4) % 4 + 1) right after the filled groups", oke, whye, u.loc())
    # the compressor's calls: (position of the last kept symbol = len - 1, run length = seq + 1)
    c = prog.fn("hash_dual::algorithms::compress_block_hash_with_rle")
    ctx.visit(c)
    cs = Sym(c)
    n = 0
    for i, t in c.calls():
        if callee_of(t).endswith("update_rle_block"):
            n += 1
            a = [strip(cs.operand(x)) for x in t["args"]]
            ok = is_param(a[0], "rle_block_out") and a[1][0] == "local" and a[2][0] == "bin" and a[2][1] == "Sub" and const_value(a[2][3]) == 1 and a[2][2][0] == "local" and \
                a[3][0] == "bin" and a[3][1] == "Add" and const_value(a[3][3]) == 1 and a[3][2][0] == "local"
            names = (c.locals[a[2][2][1]]["name"], c.locals[a[3][2][1]]["name"]) if ok else None
            ctx.ob(R, "compress_block_hash_with_rle calls update_rle_block(rle_block_out, offset, <stored length> - 1, <repeat counter> + 1)", ok, "args %s" % ([show(x)[:40] for x in a],), c.loc(t["sp"]))
    ctx.floor(R, n, 2, "encoder calls in the compressor")
