"""SA-ERRFLOW: error discipline and data flow of the reader / buffer front ends (C18, C03)."""
from ..sym import Sym, strip, show, is_param, fpath, canon, match, path_conds, bool_atom
from ..mir import callee_of, pl, is_local
from .fold import whole_input

R = "SA-ERRFLOW"


def doc(ctx):
    ctx.rule(R, "every call returning Result in the front ends is consumed by exactly one accepted idiom (`?` whose Break arm returns the residual; direct return; unwrap); no finaliser / Ok is reachable after a Break; the bytes fed are exactly buffer[0..len] of this iteration's read; the loop leaves only on len == 0")


def uses_of_local(f, l):
    """(kind, block, payload) for each use of local l as an operand / place base in live blocks"""
    out = []
    for i, j, s in f.stmts():
        if s["s"] != "assign":
            continue
        r = s["rv"]
        ops = []
        if r["r"] in ("use", "un", "cast", "repeat"):
            ops = [r["a"]]
        elif r["r"] == "bin":
            ops = [r["a"], r["b"]]
        elif r["r"] == "agg":
            ops = r["ops"]
        for o in ops:
            if o["k"] in ("copy", "move") and o["pl"]["l"] == l:
                out.append(("stmt", i, s))
        if r["r"] in ("ref", "rawptr", "discr") and r["pl"]["l"] == l:
            out.append(("ref" if r["r"] != "discr" else "discr", i, s))
    for i, t in f.calls():
        for k, a in enumerate(t["args"]):
            if a["k"] in ("copy", "move") and a["pl"]["l"] == l:
                out.append(("arg", i, (t, k)))
    for i in f.live:
        t = f.blocks[i]["term"]
        if t["t"] == "switch" and t["on"]["k"] in ("copy", "move") and t["on"]["pl"]["l"] == l:
            out.append(("switch", i, t))
    return out


def result_calls(f):
    for i, t in f.calls():
        d = t["dest"]
        if d["p"]:
            continue
        if f.locals[d["l"]]["ty"].startswith("core::result::Result<"):
            c = callee_of(t)
            if c.endswith("FromResidual<core::result::Result<core::convert::Infallible, E>>>::from_residual") or "from_residual" in c:
                continue
            yield i, t


def classify_consumption(f, sy, i, t):
    """how the Result produced by call t is consumed: ('return',) ('try', break_block, continue_block) ('unwrap',) or ('bad', why)"""
    d = t["dest"]["l"]
    if d == 0:
        return ("return",)
    all_uses = uses_of_local(f, d)
    uses = [u for u in all_uses if u[0] != "discr"]
    # `match r { Err(e) => return Err(e), Ok(..) => .. }` / `if let Err(e) = r { return Err(e); }`: the hand-written `?`
    discrs = [u for u in all_uses if u[0] == "discr"]
    if len(discrs) == 1 and all(u[0] == "stmt" for u in uses):
        db = discrs[0][1]
        sw = f.blocks[db]["term"]
        if sw["t"] == "switch":
            err_arm = [a[1] for a in sw["arms"] if a[0] == "1"] or ([sw["otherwise"]] if [a[0] for a in sw["arms"]] == ["0"] else [])
            ok_arm = [a[1] for a in sw["arms"] if a[0] == "0"] or ([sw["otherwise"]] if [a[0] for a in sw["arms"]] == ["1"] else [])
            if err_arm and ok_arm:
                good = False
                for b in f.reach_from(err_arm[0]):
                    for st in f.blocks[b]["stmts"]:
                        if st["s"] == "assign" and st["lhs"]["l"] == 0 and st["rv"]["r"] == "agg" and st["rv"]["kind"].get("variant") == "Err":
                            e = sy.operand(st["rv"]["ops"][0])
                            r, names = fpath(e)
                            if r[0] == "call" and r[3] == i and names == ("<Err>", "0"):
                                good = True
                # the error payload is used nowhere else (every statement use lies on the Err arm)
                on_err = f.reach_from(err_arm[0]) - f.reach_from(ok_arm[0])
                if good and all(u[1] in on_err or u[1] in f.reach_from(err_arm[0]) for u in uses):
                    return ("try", err_arm[0], ok_arm[0], None)
    if len(uses) != 1:
        return ("bad", "result of %s is used %d times (dropped, inspected or duplicated)" % (callee_of(t).split("::")[-1], len(uses)))
    kind, b, payload = uses[0]
    if kind != "arg":
        return ("bad", "result of %s is consumed by a non-call use" % callee_of(t).split("::")[-1])
    ct, k = payload
    cc = callee_of(ct)
    if cc.endswith("Try>::branch") or cc.endswith("Try::branch"):
        nb = ct["to"]
        sw = f.blocks[nb]["term"]
        if sw["t"] != "switch":
            return ("bad", "Try::branch result is not matched")
        cont = [a[1] for a in sw["arms"] if a[0] == "0"]
        brk = [a[1] for a in sw["arms"] if a[0] == "1"]
        if not cont or not brk:
            return ("bad", "Try::branch match lacks a Continue or Break arm")
        # Break arm: from_residual(Break.0) into _0
        bt = f.blocks[brk[0]]["term"]
        if not (bt["t"] == "call" and "from_residual" in callee_of(bt) and bt["dest"]["l"] == 0):
            return ("bad", "Break arm does not return the residual")
        e = sy.operand(bt["args"][0])
        r, names = fpath(e)
        if not (r[0] == "call" and r[3] == b and names == ("<Break>", "0")):
            return ("bad", "Break arm returns %s, not this call's residual" % show(e))
        return ("try", brk[0], cont[0], ct)
    if cc.endswith("Result::<T, E>::unwrap") or cc.endswith("Result::<T, E>::expect"):
        return ("unwrap", ct)
    # `r.map_err(From::from)` returned as is: what `Ok(r?)` means
    if cc.endswith("Result::<T, E>::map_err") and ct["dest"]["l"] == 0 and not ct["dest"]["p"] and k == 0 and len(ct["args"]) == 2:
        fn = ct["args"][1]
        if fn["k"] == "const" and ((fn.get("fn") or "") == "core::convert::From::from" or
                                    ("as core::convert::From<" in (fn.get("txt") or "") and (fn.get("txt") or "").endswith(">::from"))):
            return ("return",)
    return ("bad", "result of %s is passed to %s (not `?`, return or unwrap)" % (callee_of(t).split("::")[-1], cc))


def discipline(ctx, prog, f):
    """rule A+B for one function; returns dict callee-suffix -> classification"""
    ctx.visit(f)
    sy = Sym(f)
    found = {}
    for i, t in result_calls(f):
        c = callee_of(t)
        cl = classify_consumption(f, sy, i, t)
        key = "%s: result of %s is propagated" % (f.short, c)
        if cl[0] == "bad":
            ctx.ob(R, key, False, cl[1], f.loc(t["sp"]))
            found[c] = cl
            continue
        why = {"return": "returned directly", "try": "`?`: Break arm returns the residual", "unwrap": "unwrap (fail-stop)"}[cl[0]]
        ok = True
        if cl[0] == "try":
            # nothing that produces a hash is reachable from the Break arm
            for b in f.reach_from(cl[1]):
                bt = f.blocks[b]["term"]
                if bt["t"] == "call" and (".finalize" in callee_of(bt) or "::finalize" in callee_of(bt) or callee_of(bt).endswith("hash_stream_common")):
                    ok = False
                    why = "a finaliser (%s) is reachable after the error branch" % callee_of(bt)
                for s in f.blocks[b]["stmts"]:
                    if s["s"] == "assign" and s["lhs"]["l"] == 0 and s["rv"]["r"] == "agg" and s["rv"]["kind"].get("variant") == "Ok":
                        ok = False
                        why = "an Ok value is built after the error branch"
        ctx.ob(R, key, ok, why, f.loc(t["sp"]))
        found[c] = cl
    return found


def _stream_common_rotated(ctx, prog, f, sy, found, reads):
    """the same loop written with a priming read: `let mut len = read()?; while len != 0 { update(&buf[0..len]); len = read()?; }`.
    Judged by the same five statements as the one-read form: every read is `read(reader, &mut <whole buffer>)` and `?`-propagated; the one
    `update` feeds buffer[0..len] where `len` is assigned from the Ok payload of a read and from nothing else, and the assignment of a
    read's payload lies on every way from that read to the update; no read is reachable from a successful read without passing the
    update; the loop is left to `finalize` only under len == 0; the only Ok value is finalize's."""
    ctx.ob(R, "hash_stream_common: exactly one read call site", True, "2 (priming read + read at the end of the body: judged as the rotated form)", f.loc())
    bad = []
    bufs = set()
    conts = {}
    for ri, rt in reads:
        a0, a1 = strip(sy.operand(rt["args"][0])), strip(sy.operand(rt["args"][1]))
        if not (is_param(a0, "reader") and a1[0] == "local" and f.locals[a1[1]]["ty"].startswith("[u8;")):
            bad.append("read(%s, %s)" % (show(a0), show(a1)))
        bufs.add(canon(a1))
        cl = classify_consumption(f, sy, ri, rt)
        if cl[0] != "try":
            bad.append("a read result is not `?`-propagated: %s" % (cl[1] if len(cl) > 1 else cl[0]))
        else:
            conts[ri] = cl[2]
    ctx.ob(R, "hash_stream_common: read(reader, &mut <whole local buffer>)", not bad and len(bufs) == 1, "; ".join(bad) or "2 reads into %s" % sorted(bufs), f.loc())
    if bad or len(bufs) != 1 or len(conts) != 2:
        return len(found)
    ups = [(i, t) for i, t in f.calls() if callee_of(t).endswith("Generator::update")]
    ok = len(ups) == 1
    why = "%d update calls" % len(ups)
    L = None
    if ok:
        ui, ut = ups[0]
        g, sl = strip(sy.operand(ut["args"][0])), strip(sy.operand(ut["args"][1]))
        why = "update(%s, %s)" % (show(g), show(sl))
        ok = is_param(g, "generator") and sl[0] == "call" and sl[1].endswith("::index") and canon(strip(sl[2][0])) in bufs
        if ok:
            rg = strip(sl[2][1])
            ok = rg[0] == "agg" and rg[1].endswith("ops::Range::Range") and strip(rg[2][0])[0] == "const" and strip(rg[2][0])[1] == 0 and strip(rg[2][1])[0] == "local"
            if ok:
                L = strip(rg[2][1])[1]
                ds = f.defs.get(L, [])
                srcs = {}
                for (b, _i, k, x) in ds:
                    r, names = fpath(strip(sy.rvalue(x))) if k == "rv" else (None, None)
                    if r is None or r[0] != "call" or names != ("<Continue>", "0"):
                        ok = False
                        why = "`len` has a definition that is not the Ok payload of a read"
                        break
                    srcs[b] = r
                if ok:
                    # each read's payload assignment lies on every way from that read to the update / to another read
                    for ri, cont in conts.items():
                        rt_ = [t for i, t in reads if i == ri][0]
                        bblk = [u[1] for u in uses_of_local(f, rt_["dest"]["l"]) if u[0] == "arg"]
                        mine = [b for b, r in srcs.items() if bblk and r[3] == bblk[0]]
                        if len(mine) != 1:
                            ok = False
                            why = "the payload of a read is not assigned to `len` exactly once"
                            break
                        d = mine[0]
                        if d != cont and (ui in f.reach_from(cont, avoid={d}) or any(r2 in f.reach_from(cont, avoid={d}) for r2, _ in reads)):
                            ok = False
                            why = "the update (or a read) is reachable from a read without its payload becoming `len`"
                            break
                    ok = ok and len(srcs) == 2
    ctx.ob(R, "hash_stream_common: feeds exactly buffer[0..len], len = Ok payload of this iteration's read", ok, why, f.loc())
    if len(ups) == 1:
        ui = ups[0][0]
        again = [ri for ri, cont in conts.items() if any(r2 in f.reach_from(cont, avoid={ui}) for r2, _ in reads)]
        ctx.ob(R, "hash_stream_common: no iteration returns to read without feeding the chunk", not again,
               "every Continue path to a read passes update" if not again else "a path re-reads without update", f.loc())
    fins = [(i, t) for i, t in f.calls() if "Generator::finalize" in callee_of(t)]
    ok = len(fins) == 1 and L is not None
    why = "%d finalize calls" % len(fins)
    if ok:
        fi, ft = fins[0]
        ats = [bool_atom(c) for c in path_conds(f, sy, fi)]
        ok = any(a and a[0] == "Eq" and strip(a[1])[0] == "local" and strip(a[1])[1] == L and strip(a[2])[0] == "const" and strip(a[2])[1] == 0 for a in ats)
        why = "finalize reached only when len == 0" if ok else "finalize reachable without len == 0: %s" % [a for a in ats]
        ok = ok and is_param(strip(sy.operand(ft["args"][0])), "generator")
    ctx.ob(R, "hash_stream_common: the read loop is left (to finalize) only when read returned 0", ok, why, f.loc())
    oks = []
    for i, j, s_ in f.stmts():
        if s_["s"] == "assign" and s_["lhs"]["l"] == 0 and s_["rv"]["r"] == "agg" and s_["rv"]["kind"].get("variant") == "Ok":
            oks.append(strip(sy.operand(s_["rv"]["ops"][0])))
    good = []
    for e in oks:
        r, names = fpath(e)
        if names == ("<Continue>", "0") and r[0] == "call" and "branch" in r[1] and strip(r[2][0])[0] == "call" and "Generator::finalize" in strip(r[2][0])[1] and \
                is_param(strip(strip(r[2][0])[2][0]), "generator"):
            good.append(e)
    if not oks:
        for i, t in f.calls():
            if t["dest"]["l"] == 0 and callee_of(t).endswith("Result::<T, E>::map_err"):
                a0 = strip(sy.operand(t["args"][0]))
                if a0[0] == "call" and "Generator::finalize" in a0[1] and is_param(strip(a0[2][0]), "generator"):
                    oks, good = [a0], [a0]
    ctx.ob(R, "hash_stream_common: the only Ok value is the result of finalize(generator)", len(oks) == 1 and len(good) == 1,
           "Ok payloads: %s" % [show(e)[:80] for e in oks], f.loc())
    return len(found) + 1


def stream_common(ctx, prog):
    doc(ctx)
    f = prog.fn("generate_easy_std::hash_stream_common")
    sy = Sym(f)
    found = discipline(ctx, prog, f)
    # the generator handed in is only fed and finalised here: a size declaration, a reset or any other call on it changes what the
    # stream hashes to (a short first read is not the end of the input)
    gen_calls = []
    for i, t in f.calls():
        for a in t["args"]:
            try:
                if is_param(strip(sy.operand(a)), "generator"):
                    gen_calls.append(callee_of(t).split("::")[-1])
            except Exception:
                pass
    ctx.ob(R, "hash_stream_common: the generator is used by `update` and `finalize` only", sorted(gen_calls) == ["finalize", "update"],
           "calls on the generator: %s" % sorted(gen_calls), f.loc())
    reads = [(i, t) for i, t in f.calls() if callee_of(t).endswith("io::Read::read")]
    if len(reads) == 2:
        return _stream_common_rotated(ctx, prog, f, sy, found, reads)
    ctx.ob(R, "hash_stream_common: exactly one read call site", len(reads) == 1, "%d" % len(reads), f.loc())
    if len(reads) != 1:
        return 0
    ri, rt = reads[0]
    # read(reader, &mut buffer[whole])
    a0, a1 = strip(sy.operand(rt["args"][0])), strip(sy.operand(rt["args"][1]))
    buf_local = a1
    ok = is_param(a0, "reader") and a1[0] == "local" and f.locals[a1[1]]["ty"].startswith("[u8;")
    ctx.ob(R, "hash_stream_common: read(reader, &mut <whole local buffer>)", ok, "read(%s, %s)" % (show(a0), show(a1)), f.loc(rt["sp"]))
    cl = found.get(callee_of(rt))
    if not cl or cl[0] != "try":
        return len(found)
    cont = cl[2]
    branch_blk = None
    for u in uses_of_local(f, rt["dest"]["l"]):
        if u[0] == "arg":
            branch_blk = u[1]
    # update(generator, &buffer[0..len]) with len = Continue payload of this read
    ups = [(i, t) for i, t in f.calls() if callee_of(t).endswith("Generator::update")]
    ok = len(ups) == 1
    why = "%d update calls" % len(ups)
    if ok:
        ui, ut = ups[0]
        g, sl = strip(sy.operand(ut["args"][0])), strip(sy.operand(ut["args"][1]))
        why = "update(%s, %s)" % (show(g), show(sl))
        ok = is_param(g, "generator") and sl[0] == "call" and sl[1].endswith("::index") and canon(strip(sl[2][0])) == canon(buf_local)
        if ok:
            rg = strip(sl[2][1])
            ok = rg[0] == "agg" and rg[1].endswith("ops::Range::Range") and strip(rg[2][0])[0] == "const" and strip(rg[2][0])[1] == 0
            if ok:
                r, names = fpath(rg[2][1])
                # `len` local = (branch_result as Continue).0 ; user variable `len` is single-assigned
                ok = r[0] == "call" and r[3] == branch_blk and names == ("<Continue>", "0")
        ok = ok and f.dominates(cont, ui)
    ctx.ob(R, "hash_stream_common: feeds exactly buffer[0..len], len = Ok payload of this iteration's read", ok, why, f.loc())
    # the update lies on every path from the non-zero arm back to the read (no skipped chunk)
    if len(ups) == 1:
        ui = ups[0][0]
        # loop header = block of read; from `cont`, paths to read that avoid update must go through finalize (exit)
        reach = f.reach_from(cont, avoid={ui})
        ctx.ob(R, "hash_stream_common: no iteration returns to read without feeding the chunk", ri not in reach,
               "every Continue path back to read passes update" if ri not in reach else "a path re-reads without update", f.loc())
    # loop exit only on len == 0: the finalize call block is controlled by Eq(len, 0)
    fins = [(i, t) for i, t in f.calls() if "Generator::finalize" in callee_of(t)]
    ok = len(fins) == 1
    why = "%d finalize calls" % len(fins)
    if ok:
        fi, ft = fins[0]
        ats = [bool_atom(c) for c in path_conds(f, sy, fi)]
        ok = False
        for a in ats:
            if a and a[0] == "Eq":
                r, names = fpath(a[1])
                if r[0] == "call" and names == ("<Continue>", "0") and strip(a[2])[0] == "const" and strip(a[2])[1] == 0:
                    ok = True
        why = "finalize reached only when len == 0" if ok else "finalize reachable without len == 0: %s" % [a for a in ats]
        g0 = strip(sy.operand(ft["args"][0]))
        ok = ok and is_param(g0, "generator")
    ctx.ob(R, "hash_stream_common: the read loop is left (to finalize) only when read returned 0", ok, why, f.loc())
    # every hash it returns is the finaliser's result (no constant / locally built answer that skips finalisation and its
    # declared-size check)
    oks = []
    for i, j, s in f.stmts():
        if s["s"] == "assign" and s["lhs"]["l"] == 0 and s["rv"]["r"] == "agg" and s["rv"]["kind"].get("variant") == "Ok":
            oks.append(strip(sy.operand(s["rv"]["ops"][0])))
    good = []
    for e in oks:
        r, names = fpath(e)
        if names == ("<Continue>", "0") and r[0] == "call" and "branch" in r[1] and strip(r[2][0])[0] == "call" and "Generator::finalize" in strip(r[2][0])[1] and \
                is_param(strip(strip(r[2][0])[2][0]), "generator"):
            good.append(e)
    if not oks:
        # `finalize(generator).map_err(From::from)` returned as is
        for i, t in f.calls():
            if t["dest"]["l"] == 0 and callee_of(t).endswith("Result::<T, E>::map_err"):
                a0 = strip(sy.operand(t["args"][0]))
                if a0[0] == "call" and "Generator::finalize" in a0[1] and is_param(strip(a0[2][0]), "generator"):
                    oks, good = [a0], [a0]
    ctx.ob(R, "hash_stream_common: the only Ok value is the result of finalize(generator)", len(oks) == 1 and len(good) == 1,
           "Ok payloads: %s" % [show(e)[:80] for e in oks], f.loc())
    return len(found)


def stream_and_file(ctx, prog):
    doc(ctx)
    n = 0
    f = prog.fn("generate_easy_std::hash_stream")
    sy = Sym(f)
    n += len(discipline(ctx, prog, f))
    ok = False
    why = ""
    for i, t in f.calls():
        if callee_of(t).endswith("hash_stream_common") and t["dest"]["l"] == 0:
            g, r = strip(sy.operand(t["args"][0])), strip(sy.operand(t["args"][1]))
            why = "hash_stream_common(%s, %s)" % (show(g), show(r))
            g = sy.origin(g)
            ok = g[0] == "call" and g[1].endswith("Generator::new") and is_param(r, "reader")
    ctx.ob(R, "hash_stream: returns hash_stream_common(&mut Generator::new(), reader)", ok, why, f.loc())
    f = prog.fn("generate_easy_std::hash_file")
    sy = Sym(f)
    fd = discipline(ctx, prog, f)
    n += len(fd)
    commons = [(i, t) for i, t in f.calls() if callee_of(t).endswith("hash_stream_common")]
    sets = [(i, t) for i, t in f.calls() if callee_of(t).endswith("Generator::set_fixed_input_size")]
    ok = len(commons) == 1 and len(sets) == 1 and commons[0][1]["dest"]["l"] == 0
    why = "%d hash_stream_common, %d set_fixed_input_size" % (len(commons), len(sets))
    if ok:
        ci, ct = commons[0]
        si, st = sets[0]
        gen_c, file_c = strip(sy.operand(ct["args"][0])), strip(sy.operand(ct["args"][1]))
        gen_s, size = strip(sy.operand(st["args"][0])), strip(sy.operand(st["args"][1]))
        why = "set_fixed_input_size(%s, %s); hash_stream_common(%s, %s)" % (show(gen_s), show(size), show(gen_c), show(file_c))
        # size = Metadata::len(&(branch(File::metadata(&file)) as Continue).0)
        ok = canon(gen_c) == canon(gen_s) and sy.origin(gen_c)[0] == "call" and sy.origin(gen_c)[1].endswith("Generator::new")
        ok = ok and size[0] == "call" and size[1].endswith("fs::Metadata::len")
        if ok:
            r, names = fpath(size[2][0])
            ok = names == ("<Continue>", "0") and r[0] == "call" and "branch" in r[1]
            if ok:
                md = strip(r[2][0])
                ok = md[0] == "call" and md[1].endswith("fs::File::metadata") and canon(strip(md[2][0])) == canon(file_c)
        # file = (branch(File::open(path)) as Continue).0
        if ok:
            r, names = fpath(sy.origin(file_c))
            ok = names == ("<Continue>", "0") and r[0] == "call" and "branch" in r[1] and strip(r[2][0])[0] == "call" and \
                strip(r[2][0])[1].endswith("fs::File::open") and is_param(strip(r[2][0])[2][0], "path")
        # the declaration dominates the hashing and is consumed with `?`
        ok = ok and f.dominates(si, ci)
        cl = fd.get(callee_of(st))
        ok = ok and cl is not None and cl[0] == "try" and f.dominates(cl[2], ci)
    ctx.ob(R, "hash_file: declares Metadata::len of the very file it then reads, with `?`, before hash_stream_common on the same generator", ok, why, f.loc())
    # a hash can only come out of the shared read loop: no finaliser and no locally built Ok in the two wrappers
    for g in (prog.fn("generate_easy_std::hash_stream"), f):
        bad = []
        for i, t in g.calls():
            if "Generator::finalize" in callee_of(t):
                bad.append("calls %s" % callee_of(t).split("::")[-1])
        for i, j, s in g.stmts():
            if s["s"] == "assign" and s["lhs"]["l"] == 0 and s["rv"]["r"] == "agg" and s["rv"]["kind"].get("variant") == "Ok":
                bad.append("builds Ok locally")
        ctx.ob(R, "%s: every hash it returns is produced by hash_stream_common (no shortcut finalisation)" % g.short, not bad, "; ".join(bad) or "only the delegated call can produce Ok", g.loc())
    return n


def errs_only(f, sy):
    """return blocks that can only return an error (the `?` exits)"""
    out = set()
    for r in f.return_blocks():
        back = errpure_blocks_to(f, r)
        oks = [b for b in back for st in f.blocks[b]["stmts"] if st["s"] == "assign" and st["lhs"]["l"] == 0 and st["rv"]["r"] == "agg" and st["rv"]["kind"].get("variant") == "Ok"]
        if not oks:
            out.add(r)
    return out


def errpure_blocks_to(f, target):
    back = {target}
    st = [target]
    while st:
        n = st.pop()
        for p in f.preds.get(n, []):
            if p not in back:
                back.add(p)
                st.append(p)
    return back & f.live


def buf(ctx, prog):
    doc(ctx)
    f = prog.fn("generate_easy::hash_buf")
    sy = Sym(f)
    fd = discipline(ctx, prog, f)
    sets = [(i, t) for i, t in f.calls() if callee_of(t).endswith("Generator::set_fixed_input_size_in_usize")]
    ups = [(i, t) for i, t in f.calls() if callee_of(t).endswith("Generator::update")]
    fins = [(i, t) for i, t in f.calls() if callee_of(t).endswith("Generator::finalize")]
    ok = len(sets) == 1 and len(ups) == 1 and len(fins) == 1
    why = "%d/%d/%d declare/update/finalize calls" % (len(sets), len(ups), len(fins))
    if ok:
        (si, st), (ui, ut), (fi, ft) = sets[0], ups[0], fins[0]
        g1, sz = strip(sy.operand(st["args"][0])), strip(sy.operand(st["args"][1]))
        g2, b = strip(sy.operand(ut["args"][0])), sy.operand(ut["args"][1])
        g3 = strip(sy.operand(ft["args"][0]))
        why = "declare(%s, %s); update(%s, %s); finalize(%s)" % (show(g1), show(sz), show(g2), show(b), show(g3))
        ok = canon(g1) == canon(g2) == canon(g3) and sy.origin(g1)[0] == "call" and sy.origin(g1)[1].endswith("Generator::new")
        ok = ok and (match(sz, ("call", "len", [("param", "buffer")])) or match(sz, ("len", ("param", "buffer"))))
        ok = ok and whole_input(b, "buffer")
        ok = ok and f.dominates(si, ui) and f.dominates(ui, fi)
        # Ok value is finalize().unwrap()
        okv = False
        n_ok = 0
        for i, j, s in f.stmts():
            if s["s"] == "assign" and s["lhs"]["l"] == 0 and s["rv"]["r"] == "agg" and s["rv"]["kind"].get("variant") == "Ok":
                n_ok += 1
                e = strip(sy.operand(s["rv"]["ops"][0]))
                okv = e[0] == "call" and e[1].endswith("unwrap") and strip(e[2][0])[0] == "call" and strip(e[2][0])[3] == fi
        # the ONLY Ok (no answer built without the generator, e.g. for `small` buffers), and the three steps lie on every path to it
        ok = ok and okv and n_ok == 1
        if n_ok != 1:
            why += "; %d Ok values built" % n_ok
    ctx.ob(R, "hash_buf: declares buffer.len(), feeds the whole buffer once, returns finalize() of the same generator", ok, why, f.loc())
    return len(fd)


def io_error_wrap(ctx, prog):
    """`?` on an I/O error converts it with From<std::io::Error>: the conversion wraps the very error it was given"""
    f = None
    for g in prog.fns:
        if g.impl_trait == "core::convert::From<std::io::Error>" and g.path.endswith("::from") and "GeneratorOrIOError" in g.impl_self:
            f = g
    if f is None:
        return ctx.ob(R, "From<std::io::Error> for GeneratorOrIOError exists", False, "impl not found")
    ctx.visit(f)
    e = strip(Sym(f).local(0))
    ok = e[0] == "agg" and e[1].endswith("GeneratorOrIOError::IOError") and len(e[2]) == 1 and is_param(strip(e[2][0]), "value") and not list(f.calls())
    ctx.ob(R, "From<std::io::Error> for GeneratorOrIOError wraps the given error itself (IOError(value)), nothing rebuilt from its parts", ok, show(e)[:160], f.loc())
    g = None
    for h in prog.fns:
        if h.impl_trait == "core::convert::From<internals::generate::GeneratorError>" and h.path.endswith("::from") and "GeneratorOrIOError" in h.impl_self:
            g = h
    if g is not None:
        ctx.visit(g)
        e = strip(Sym(g).local(0))
        ok = e[0] == "agg" and e[1].endswith("GeneratorOrIOError::GeneratorError") and len(e[2]) == 1 and is_param(strip(e[2][0]), "value")
        ctx.ob(R, "From<GeneratorError> for GeneratorOrIOError wraps the given error (GeneratorError(value))", ok, show(e)[:160], g.loc())
