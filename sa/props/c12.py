"""C12 — fixed-size hint, reset and the generator's error contract (structural clauses)."""
from ..rules import generator as gen, piece, errflow, summary, beliefs, engine, data

EXPL = ("Decides, on the type-checked MIR of /repo: (1) SA-FIELDS: Generator::reset and BlockHashContext::reset give every field the "
        "same symbolic value as new(), except three reasoned exceptions each with a structural side condition (h_last only used under "
        "is_last and set together with it; contexts 1.. reset by the engine before bhidx_end passes them; blockhash[..63) never read "
        "element-wise); (2) SA-GUARD: the two refusals of set_fixed_input_size have exactly the stated conditions (size > 192 GiB; "
        "previous Some(e) with e != size) and finalisation fails with FixedSizeMismatch exactly when a declared size differs from the "
        "processed size, so no Ok is reachable then; (3) SA-ERRPURE: no store to *self on any path to an Err of set_fixed_input_size(_in_usize); "
        "(4) SA-STEP: inside the engine step a fork happens exactly from a piece-less context while bhidx_end <= bhidx_end_limit, the limit "
        "recorded by a declaration being min(NUM_VALID-1, index(size)+1), and the step table has no other row that depends on the declaration "
        "besides the elimination border; the initial state (which reset restores) is the reviewed one; (5) SA-DELEGATE: all public finalisers obtain their result from finalize_raw_internal. NOT decided: that a correct hint "
        "leaves the hash value unchanged (fork-limit arithmetic).")


def run(ctx):
    cfgs = ["rel", "dbg", "unsafe"] if ctx.tier == "quick" else ["rel", "dbg", "unsafe", "unsafe_dbg", "nodef", "fnv"]
    ctx.progs(cfgs)  # build all configurations in parallel
    for c in cfgs:
        prog = ctx.prog(c)
        ctx.guard("C12", "guards", lambda: gen.guards_set_fixed(ctx, prog))
        ctx.guard("C12", "ok-effects", lambda: gen.ok_effects_set_fixed(ctx, prog))
        ctx.guard("C12", "errpure", lambda: gen.errpure_set_fixed(ctx, prog))
        ctx.guard("C12", "finalize", lambda: gen.guards_finalize(ctx, prog, need=("mismatch",)))
        ctx.guard("C12", "delegate", lambda: gen.finalizers_delegate(ctx, prog))
        ctx.guard("C12", "writers", lambda: gen.field_writers(ctx, prog))
        ctx.guard("C12", "reset", lambda: gen.reset_equals_new(ctx, prog))
        ctx.guard("C12", "reset-side", lambda: gen.reset_side_conditions(ctx, prog))
        # exception 1 of reset == new (contexts above the active range keep their old contents) is sound only if the digest never looks
        # above bhidx_end - 1: the block-size guess starts at min(.., bhidx_end - 1) and only goes down
        ctx.guard("C12", "guess-range", lambda: engine.step_thresholds(ctx, prog))
        ctx.guard("C12", "init", lambda: piece.initial_state(ctx, prog))
        if c != "nodef":
            # the front ends that declare a size on the caller's behalf declare the right one (buffer length / metadata of the opened file)
            ctx.guard("C12", "buf", lambda: errflow.buf(ctx, prog))
            ctx.guard("C12", "file", lambda: errflow.stream_and_file(ctx, prog))
        if not c.startswith("unsafe"):
            ctx.guard("C12", "piece", lambda: piece.piece_effects(ctx, prog))
        ctx.guard("C12", "const values", lambda: data.const_census(ctx, prog, data.CONST_SCOPES["C12"], floor=1))
        ctx.guard("C12", "panic conditions", lambda: beliefs.live_census(ctx, prog, beliefs.SCOPES["C12"][0]))
        ctx.guard("C12", "overflow-borders", lambda: gen.overflow_borders(ctx, prog))
        ctx.guard("C12", "summaries", lambda: summary.check(ctx, prog, 'Generator::(new|set_fixed_input_size_in_usize)$|<internals::generate::Generator as core::default::Default|generate_easy', floor=2))
        ctx.guard("C12", "path summaries", lambda: summary.check_paths(ctx, prog, 'Generator::(new|set_fixed_input_size_in_usize)$|<internals::generate::Generator as core::default::Default|generate_easy', floor=0))
        if c in ("dbg", "unsafe_dbg", "strict_dbg"):
            ctx.guard("C12", "beliefs", lambda: beliefs.census(ctx, prog, beliefs.SCOPES["C12"][0], floor=beliefs.SCOPES["C12"][1]))
    return ctx.finish(EXPL, ["rustc MIR faithfully represents the program", "symbolic values of single-assignment MIR temporaries compared as canonical text"])
