"""A result carried in a NEW local variable to a single exit is read as the early returns it replaces.

`return false;` inside a loop, and `ok = false; break;` followed by `ok` at the end, are one behaviour; so are six `return Err(..)`
and one `result = Err(..); break;` per site with `result` as the tail expression.  The rules read result sites (what is returned
under which conditions); a flag or result variable hides them behind a join.  For named locals that the reviewed tree does not have
in that function (sa/ref_locals.json) - and only for those, so the reviewed tree itself is never touched - this pass does, at the
MIR level, what a compiler's jump threading does:

* tail duplication: a small block X (no call, at most a dozen statements) reached by `goto` from a block P, where P knows which
  single assignment of the variable reaches X (or knows the constant a `switch` of X tests) while X as a whole does not, is copied
  to the end of P;
* substitution: a read of the variable that exactly one assignment reaches is replaced by the assigned constant, or - for
  `x = move v` - by the assigned value when its operands are constants or single-assignment temporaries;
* a `switch` on a constant becomes a `goto`.

All three are semantics-preserving on any program; they are applied only along paths that start at an assignment of such a new
variable, up to a fixed budget.  What the rules then see is the program with the variable's value written where it is returned."""
import copy
import json
import os

_REF = None
MAX_STMTS = 14
BUDGET = 80


def ref_locals():
    global _REF
    if _REF is None:
        try:
            with open(os.path.join(os.path.dirname(os.path.abspath(__file__)), "ref_locals.json")) as fh:
                _REF = json.load(fh)
        except OSError:
            _REF = {}
    return _REF


def _succs(t):
    k = t["t"]
    if k == "goto":
        return [t["to"]]
    if k == "switch":
        return [a[1] for a in t["arms"]] + ([t["otherwise"]] if t.get("otherwise") is not None else [])
    if k in ("call", "drop", "assert"):
        return [x for x in (t.get("to"), t.get("unwind")) if x is not None]
    return []


def _operands(node, out):
    """every operand dict (k = copy / move / const) below node, except inside spans"""
    if isinstance(node, dict):
        if node.get("k") in ("copy", "move", "const"):
            out.append(node)
            return
        for k, v in node.items():
            if k != "sp":
                _operands(v, out)
    elif isinstance(node, list):
        for v in node:
            _operands(v, out)


def _places(node, out):
    if isinstance(node, dict):
        if "l" in node and "p" in node:
            out.append(node)
        for k, v in node.items():
            if k != "sp":
                _places(v, out)
    elif isinstance(node, list):
        for v in node:
            _places(v, out)


def _whole_use(o, v):
    return o.get("k") in ("copy", "move") and o["pl"]["l"] == v and not o["pl"]["p"]


def _eligible(fn, v):
    """assigned only as a whole by plain statements, read only as a whole operand"""
    for b in fn["blocks"]:
        for s in b["stmts"]:
            if s["s"] == "assign":
                if s["lhs"]["l"] == v and s["lhs"]["p"]:
                    return False
                rv = s["rv"]
                if rv.get("r") in ("ref", "rawptr", "discr", "len", "copyforderef") and isinstance(rv.get("pl"), dict) and rv["pl"].get("l") == v:
                    return False
                ops = []
                _operands(rv, ops)
                for o in ops:
                    if o.get("k") in ("copy", "move") and o["pl"]["l"] == v and o["pl"]["p"]:
                        return False
                pls = []
                _places(s["lhs"], pls)
                for p in pls:
                    for e in p["p"]:
                        if isinstance(e, dict) and e.get("ix") == v:
                            return False
            elif s["s"] != "assign" and ('"l": %d,' % v) in json.dumps({k: x for k, x in s.items() if k != "sp"}):
                return False
        t = b["term"]
        if t["t"] in ("call", "drop", "assert"):
            if ('"l": %d,' % v) in json.dumps({k: x for k, x in t.items() if k != "sp"}):
                return False
    return True


def _carrier(fn, v, vs):
    """v only carries a result to an exit or a flag to a test: every read is `_0 = v`, `w = v` for another such variable, or
    `t = v; switch t` - never an operand of arithmetic, a comparison, an aggregate or a call (a variable that is computed WITH is an
    ordinary variable: the rules read those as they are)"""
    for b in fn["blocks"]:
        sw = b["term"]["on"]["pl"]["l"] if b["term"]["t"] == "switch" and b["term"]["on"].get("k") in ("copy", "move") and not b["term"]["on"]["pl"]["p"] else None
        if sw == v:
            continue
        for s in b["stmts"]:
            if s["s"] != "assign":
                continue
            ops = []
            _operands(s["rv"], ops)
            if not any(o.get("k") in ("copy", "move") and o["pl"]["l"] == v for o in ops):
                continue
            rv = s["rv"]
            if not (rv.get("r") == "use" and _whole_use(rv["a"], v) and not s["lhs"]["p"]):
                return False
            t = s["lhs"]["l"]
            if t == 0 or t in vs or t == sw:
                continue
            return False
    return True


def _defs_in(b, v):
    return [j for j, s in enumerate(b["stmts"]) if s["s"] == "assign" and s["lhs"]["l"] == v and not s["lhs"]["p"]]


def _reaching(fn, v):
    """in-state per block: set of (block, stmt) definitions of v that reach the block's entry"""
    blocks = fn["blocks"]
    n = len(blocks)
    preds = [[] for _ in range(n)]
    for i, b in enumerate(blocks):
        for s in _succs(b["term"]):
            if 0 <= s < n:
                preds[s].append(i)
    last = [(_defs_in(b, v) or [None])[-1] for b in blocks]
    ins = [set() for _ in range(n)]
    outs = [set() for _ in range(n)]
    reach = {0}
    work = [0]
    while work:
        i = work.pop()
        for s in _succs(blocks[i]["term"]):
            if 0 <= s < n and s not in reach:
                reach.add(s)
                work.append(s)
    changed = True
    while changed:
        changed = False
        for i in range(n):
            if i not in reach:
                continue
            si = set()
            for p in preds[i]:
                if p in reach:
                    si |= outs[p]
            so = {(i, last[i])} if last[i] is not None else si
            if si != ins[i] or so != outs[i]:
                ins[i], outs[i] = si, so
                changed = True
    return ins, outs, preds, reach


def _reach_from(fn, starts):
    seen = set()
    work = [x for x in starts if x is not None]
    while work:
        x = work.pop()
        if x in seen or not (0 <= x < len(fn["blocks"])):
            continue
        seen.add(x)
        work.extend(_succs(fn["blocks"][x]["term"]))
    return seen


def _mentions(b, vs):
    ops = []
    _operands(b["stmts"], ops)
    if b["term"]["t"] == "switch":
        _operands(b["term"]["on"], ops)
    return any(o.get("k") in ("copy", "move") and o["pl"]["l"] in vs for o in ops)


def _const_env(b):
    """locals whose last assignment in the block is a constant"""
    env = {}
    for s in b["stmts"]:
        if s["s"] == "assign" and not s["lhs"]["p"]:
            rv = s["rv"]
            if rv.get("r") == "use" and rv["a"].get("k") == "const" and rv["a"].get("v") is not None:
                env[s["lhs"]["l"]] = rv["a"]
            else:
                env.pop(s["lhs"]["l"], None)
    return env


def _small(b):
    return not b.get("cleanup") and len(b["stmts"]) <= MAX_STMTS and b["term"]["t"] in ("goto", "switch", "return")


def _single_def_locals(fn):
    cnt = {}
    for b in fn["blocks"]:
        for s in b["stmts"]:
            if s["s"] == "assign":
                cnt[s["lhs"]["l"]] = cnt.get(s["lhs"]["l"], 0) + (1 if not s["lhs"]["p"] else 2)
        t = b["term"]
        if t["t"] == "call":
            cnt[t["dest"]["l"]] = cnt.get(t["dest"]["l"], 0) + 1
    return {l for l, c in cnt.items() if c == 1}


def _fold_block(fn, i, vs, ins_by_v, single):
    """substitute reads of the new variables / block-local constants, fold `switch` on a constant; returns True when changed"""
    b = fn["blocks"][i]
    changed = False
    cur = {v: (next(iter(ins_by_v[v][i])) if len(ins_by_v[v][i]) == 1 else None) for v in vs}   # reaching single def or None
    if any(len(ins_by_v[v][i]) == 0 for v in vs):
        for v in vs:
            if len(ins_by_v[v][i]) == 0:
                cur[v] = None
    env = {}

    def rv_of(d):
        return fn["blocks"][d[0]]["stmts"][d[1]]["rv"]
    for j, s in enumerate(b["stmts"]):
        if s["s"] != "assign":
            continue
        rv = s["rv"]
        # whole-statement substitution: x = use(v) with a single reaching assignment of v
        if rv.get("r") == "use" and rv["a"].get("k") in ("copy", "move") and not rv["a"]["pl"]["p"] and rv["a"]["pl"]["l"] in vs and s["lhs"]["l"] != rv["a"]["pl"]["l"]:
            v = rv["a"]["pl"]["l"]
            d = cur.get(v)
            if d is not None:
                r = rv_of(d)
                ops = []
                _operands(r, ops)
                pls = []
                _places(r, pls)
                # the assigned value may be repeated at the read only if it means the same there: operands are constants or whole
                # single-assignment temporaries (no memory is read), and none of those temporaries can be computed again between the
                # assignment and the read (a loop iteration in between would give it another value)
                safe = all(o.get("k") == "const" or (o["pl"]["l"] in single and not o["pl"]["p"]) for o in ops) \
                    and all(p["l"] in single and not p["p"] for p in pls) and r.get("r") in ("use", "agg", "cast", "bin", "un")
                if safe and not (d[0] == i and d[1] < j):
                    tdefs = set()
                    for o in ops:
                        if o.get("k") != "const":
                            for bi2, b2 in enumerate(fn["blocks"]):
                                if _defs_in(b2, o["pl"]["l"]) or (b2["term"]["t"] == "call" and b2["term"]["dest"]["l"] == o["pl"]["l"]):
                                    tdefs.add(bi2)
                    after = _reach_from(fn, _succs(fn["blocks"][d[0]]["term"]))
                    for bt in tdefs:
                        if bt in after and (bt == i or i in _reach_from(fn, _succs(fn["blocks"][bt]["term"]))):
                            safe = False
                if safe and not (r.get("r") == "use" and r["a"].get("k") in ("copy", "move") and r["a"]["pl"]["l"] in vs):
                    s["rv"] = copy.deepcopy(r)
                    changed = True
                    rv = s["rv"]
        ops = []
        _operands(rv, ops)
        for o in ops:
            if o.get("k") in ("copy", "move") and not o["pl"]["p"]:
                l = o["pl"]["l"]
                c = None
                if l in vs and cur.get(l) is not None:
                    r = rv_of(cur[l])
                    if r.get("r") == "use" and r["a"].get("k") == "const":
                        c = r["a"]
                elif l in env:
                    c = env[l]
                if c is not None:
                    o.clear()
                    o.update(copy.deepcopy(c))
                    changed = True
        # `!const`
        if rv.get("r") == "un" and rv.get("op") == "Not" and rv["a"].get("k") == "const" and rv["a"].get("ty") == "bool" and rv["a"].get("v") in ("0", "1"):
            nv = "0" if rv["a"]["v"] == "1" else "1"
            s["rv"] = {"r": "use", "a": {"k": "const", "ty": "bool", "v": nv, "txt": "true" if nv == "1" else "false"}}
            rv = s["rv"]
            changed = True
        if not s["lhs"]["p"]:
            l = s["lhs"]["l"]
            if l in vs:
                cur[l] = (i, j)
            if rv.get("r") == "use" and rv["a"].get("k") == "const" and rv["a"].get("v") is not None:
                env[l] = rv["a"]
            else:
                env.pop(l, None)
    t = b["term"]
    if t["t"] == "switch":
        on = t["on"]
        c = None
        if on.get("k") == "const":
            c = on
        elif on.get("k") in ("copy", "move") and not on["pl"]["p"]:
            l = on["pl"]["l"]
            if l in env:
                c = env[l]
            elif l in vs and cur.get(l) is not None:
                r = rv_of(cur[l])
                if r.get("r") == "use" and r["a"].get("k") == "const":
                    c = r["a"]
        if c is not None and c.get("v") is not None:
            to = t.get("otherwise")
            for a in t["arms"]:
                if str(a[0]) == str(c["v"]):
                    to = a[1]
            if to is not None:
                b["term"] = {"t": "goto", "to": to}
                changed = True
    return changed


def _thread(fn, vs):
    blocks = fn["blocks"]
    budget = BUDGET
    did = 0
    tainted = {i for i, b in enumerate(blocks) if any(_defs_in(b, v) for v in vs)}
    for _round in range(400):
        single = _single_def_locals(fn)
        ins_by_v, outs_by_v = {}, {}
        preds = reach = None
        for v in vs:
            ins_by_v[v], outs_by_v[v], preds, reach = _reaching(fn, v)
        changed = False
        for i in sorted(reach):
            if _fold_block(fn, i, vs, ins_by_v, single):
                changed = True
                tainted.add(i)
        if changed:
            continue
        # tail duplication
        for p in sorted(tainted):
            if p not in reach or budget <= 0:
                continue
            pb = blocks[p]
            if pb["term"]["t"] != "goto":
                continue
            x = pb["term"]["to"]
            if x == p or not (0 <= x < len(blocks)):
                continue
            xb = blocks[x]
            if not xb["stmts"] and xb["term"]["t"] == "goto" and not xb.get("cleanup") and xb["term"]["to"] != x:
                pb["term"] = {"t": "goto", "to": xb["term"]["to"]}   # an empty block is skipped
                changed = True
                break
            if not _small(xb) or len([q for q in preds[x] if q in reach]) < 2:
                continue
            env = _const_env(pb)
            gain = False
            for v in vs:
                if len(outs_by_v[v][p]) == 1 and len(ins_by_v[v][x]) > 1 and _mentions(xb, {v}):
                    gain = True
            if xb["term"]["t"] == "switch" and xb["term"]["on"].get("k") in ("copy", "move") and not xb["term"]["on"]["pl"]["p"]:
                l = xb["term"]["on"]["pl"]["l"]
                if l in env and not any(s["s"] == "assign" and s["lhs"]["l"] == l for s in xb["stmts"]):
                    gain = True
            if not gain and xb["term"]["t"] == "goto":
                # pass-through: something further down the chain reads a variable whose single reaching assignment P knows
                y, hops = xb["term"]["to"], 0
                while hops < 4 and 0 <= y < len(blocks) and _small(blocks[y]):
                    yb = blocks[y]
                    if any(len(outs_by_v[v][p]) == 1 and len(ins_by_v[v][y]) > 1 and _mentions(yb, {v}) and not _defs_in(xb, v) for v in vs):
                        gain = True
                        break
                    if yb["term"]["t"] != "goto":
                        break
                    y = yb["term"]["to"]
                    hops += 1
            if not gain:
                continue
            pb["stmts"] = pb["stmts"] + copy.deepcopy(xb["stmts"])
            pb["term"] = copy.deepcopy(xb["term"])
            budget -= 1
            did += 1
            changed = True
            break   # states are stale: recompute
        if not changed:
            break
    # a variable that is no longer read keeps no assignments (they would only make it look like state)
    for v in vs:
        used = False
        for b in blocks:
            ops = []
            _operands([s.get("rv") for s in b["stmts"] if s["s"] == "assign"], ops)
            _operands({k: x for k, x in b["term"].items() if k != "sp"}, ops)
            if any(o.get("k") in ("copy", "move") and o["pl"]["l"] == v for o in ops):
                used = True
        if not used and did:
            for b in blocks:
                b["stmts"] = [s for s in b["stmts"] if not (s["s"] == "assign" and s["lhs"]["l"] == v and not s["lhs"]["p"])]
    return did


def run(d, cfg=None):
    ref = ref_locals()
    out = []
    if not ref:
        return out
    for fn in d["fns"]:
        ent = ref.get(fn["path"])
        if ent is None:
            continue
        names = ent.get(cfg) if cfg in ent else ent.get("*")
        if names is None:
            continue
        names = set(names)
        have = {loc["name"] for loc in fn["locals"] if loc.get("name")}
        if not names <= have:
            continue   # a reviewed variable is gone: this is a renaming (or a rewrite), not an added result variable
        vs = {l for l, loc in enumerate(fn["locals"]) if l > fn.get("argc", 0) and loc.get("name") and loc["name"] not in names}
        vs = {v for v in vs if _eligible(fn, v) and sum(len(_defs_in(b, v)) for b in fn["blocks"]) >= 2}
        for _ in range(3):
            keep = {v for v in vs if _carrier(fn, v, vs)}
            if keep == vs:
                break
            vs = keep
        if not vs:
            continue
        # an unnamed temporary assigned on several arms whose only readers are `v = move t` for such a variable is part of it
        # (`result = if a { X } else { Y };`)
        for _ in range(3):
            more = set()
            for t, loc in enumerate(fn["locals"]):
                if t in vs or t <= fn.get("argc", 0) or loc.get("name") or t == 0:
                    continue
                if sum(len(_defs_in(b, t)) for b in fn["blocks"]) < 2:
                    continue
                reads, ok = 0, True
                for b in fn["blocks"]:
                    for s in b["stmts"]:
                        if s["s"] != "assign":
                            continue
                        ops = []
                        _operands(s["rv"], ops)
                        for o in ops:
                            if o.get("k") in ("copy", "move") and o["pl"]["l"] == t:
                                reads += 1
                                if not (s["rv"].get("r") == "use" and not o["pl"]["p"] and not s["lhs"]["p"] and s["lhs"]["l"] in vs):
                                    ok = False
                    ops = []
                    _operands({k: x for k, x in b["term"].items() if k != "sp"}, ops)
                    if any(o.get("k") in ("copy", "move") and o["pl"]["l"] == t for o in ops):
                        ok = False
                if ok and reads and _eligible(fn, t):
                    more.add(t)
            if not more:
                break
            vs |= more
        try:
            saved = copy.deepcopy(fn["blocks"])
            k = _thread(fn, vs)
        except Exception:
            fn["blocks"] = saved
            k = 0
        if k:
            out.append((fn["path"], ",".join(sorted(fn["locals"][v]["name"] for v in vs if fn["locals"][v].get("name"))), k))
    return out
