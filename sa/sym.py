"""Symbolic expressions over MIR temporaries (def-use chase) and path conditions.

Expressions are nested tuples:
  ('param', i, name) ('const', value|None, name|None, ty) ('bin', op, a, b) ('un', op, a)
  ('cast', a, to) ('field', base, name) ('deref', a) ('ref', a) ('index', base, idx)
  ('call', callee, (args...), site) ('local', n, name) ('discr', a) ('agg', kind, (ops...))
  ('len', a) ('unknown', text)
Only locals with a single definition in the live CFG are expanded; everything
else stays opaque (`local`), so an expression never equates two different
run-time values of a mutable variable by accident unless the rule says so.
"""
from .mir import callee_of, is_local, const_val, pl

WITH_OVF = {"AddWithOverflow": "Add", "SubWithOverflow": "Sub", "MulWithOverflow": "Mul"}
UNCHK = {"AddUnchecked": "Add", "SubUnchecked": "Sub", "MulUnchecked": "Mul", "ShlUnchecked": "Shl", "ShrUnchecked": "Shr"}

# calls that are value-transparent for our purposes (identity on the designated argument)
TRANSPARENT = (
    "core::convert::AsRef::as_ref", "core::ops::Deref::deref", "core::ops::DerefMut::deref_mut",
    "core::convert::Into::into", "core::convert::From::from", "core::borrow::Borrow::borrow",
    "core::clone::Clone::clone", "core::convert::AsMut::as_mut",
)


import re as _re
_FROM_INT = _re.compile(r"^core::convert::num::<impl core::convert::From<(u8|u16|u32|u64|i8|i16|i32|i64|bool)> for (u16|u32|u64|u128|usize|i16|i32|i64|i128|isize)>::from$")


class Sym:
    def __init__(self, f, expand_params=True):
        self.f = f
        self.memo = {}
        self.stale = {}
        self._ms = None
        self.stale_off = False
        self.stack = set()
        # locals whose address is taken mutably are memory cells, not values: keep them opaque
        self.cells = set()
        for i, j, s in f.stmts(live_only=False):
            if s["s"] == "assign" and s["rv"]["r"] in ("ref", "rawptr") and (s["rv"]["r"] == "rawptr" or s["rv"]["mut"]):
                p = s["rv"]["pl"]
                if "*" not in p["p"]:
                    self.cells.add(p["l"])

    def origin(self, e):
        """for an opaque memory-cell local with a single initialising definition: that definition's value"""
        e = strip(e)
        if e[0] == "local" and e[1] in self.stale:
            return self.stale[e[1]]
        if e[0] == "local" and e[1] in self.cells:
            ds = self.f.defs.get(e[1], [])
            if len(ds) == 1:
                blk, idx, kind, x = ds[0]
                return self.rvalue(x) if kind == "rv" else self.call(x, blk)
        return e

    # ---- locals ------------------------------------------------------------------
    def local(self, l):
        f = self.f
        if l in self.memo:
            return self.memo[l]
        if l in self.stack:
            return ("local", l, f.locals[l]["name"])
        if 1 <= l <= f.argc:
            ds = f.defs.get(l, [])
            if not ds:
                return ("param", l, f.locals[l]["name"])
            return ("local", l, f.locals[l]["name"])
        ds = f.defs.get(l, [])
        if len(ds) != 1 or l in self.cells:
            return ("local", l, f.locals[l]["name"])
        self.stack.add(l)
        try:
            blk, idx, kind, x = ds[0]
            if kind == "rv":
                e = self.rvalue(x)
            else:
                e = self.call(x, blk)
        finally:
            self.stack.discard(l)
        if not self.stale_off and self._stale_snapshot(l, ds[0], e):
            # `let x = m; ... m = ..; use(x)`: x is not the current value of m where it is used - keep it opaque
            self.stale[l] = e
            e = ("local", l, f.locals[l]["name"])
        self.memo[l] = e
        return e

    def _stale_snapshot(self, l, d, e):
        """does the single-assignment local `l` copy a variable that may be re-assigned between that copy and a use of `l`?"""
        f = self.f
        ms = set()
        for x in walk(e):
            if x[0] == "local" and x[1] != l and len(f.defs.get(x[1], [])) > (0 if 1 <= x[1] <= f.argc else 1):
                ms.add(x[1])
        blk, idx, kind, _x = d
        dpos = (blk, len(f.blocks[blk]["stmts"]) if kind == "call" else idx)
        us = f.uses.get(l, [])
        if not us:
            return False
        # memory read by the definition and overwritten before a use (`let old = *p; *p = ..; use(old)`)
        if kind == "rv" and self._mem_stores():
            reads = set()

            def collect(x, addr):
                # `addr`: x is only the operand of an address-of (a reference is not a snapshot of the memory it points to)
                if not isinstance(x, tuple) or not x or not isinstance(x[0], str):
                    return
                if x[0] == "ref":
                    collect(x[1], True)
                    return
                if x[0] in ("field", "deref", "index"):
                    if not addr:
                        reads.add(canon(strip(x)))
                    collect(x[1], addr and x[0] != "deref")
                    if x[0] == "index":
                        collect(x[2], False)
                    return
                for y in x[1:]:
                    if isinstance(y, tuple):
                        if y and isinstance(y[0], str):
                            collect(y, False)
                        else:
                            for z in y:
                                collect(z, False)
            collect(e, False)
            for (mpos, pc) in self._mem_stores():
                if mpos == dpos:
                    continue
                if any(pc == r or pc.startswith(r + ".") or pc.startswith(r + "[") or r.startswith(pc + ".") or r.startswith(pc + "[") for r in reads):
                    if f.pos_reach(dpos, mpos, dpos) and any(u != mpos and f.pos_reach(mpos, u, dpos) for u in us):
                        return True
        for m in ms:
            for (mb, mi, mk, _mx) in f.defs.get(m, []):
                mpos = (mb, len(f.blocks[mb]["stmts"]) if mk == "call" else mi)
                if mpos == dpos:
                    continue
                if not f.pos_reach(dpos, mpos, dpos):
                    continue
                for u in us:
                    if u != mpos and f.pos_reach(mpos, u, dpos) or u == mpos and False:
                        return True
        return False

    def _mem_stores(self):
        """(position, canonical place) of every store through a projection (memory write) in the body"""
        if self._ms is None:
            self._ms = []
            f = self.f
            prev = self.stale_off
            saved = self.memo
            self.memo = {}
            self.stale_off = True
            try:
                for i, j, s in f.stmts():
                    if s["s"] == "assign" and s["lhs"]["p"]:
                        try:
                            self._ms.append(((i, j), canon(strip(self.place(s["lhs"])))))
                        except RecursionError:
                            pass
            finally:
                self.stale_off = prev
                self.memo = saved
        return self._ms

    def call(self, t, blk=None):
        c = callee_of(t)
        args = tuple(self.operand(a) for a in t["args"])
        if len(args) == 1 and is_identity_fn(self.f.prog, c):
            return args[0]
        # lossless integer widening spelled `T::from(x)` is the cast `x as T`
        m = _FROM_INT.match(c)
        if m and len(args) == 1:
            return ("cast", args[0], m.group(2))
        return ("call", c, args, blk, tuple(t.get("gargs") or ()))

    def place(self, p):
        e = self.local(p["l"])
        for el in p["p"]:
            if el == "*":
                e = deref(e)
            elif "f" in el:
                if e[0] == "downcast" and e[2] == "Some" and el["n"] == "0":
                    b = strip(e[1])
                    if b[0] == "call" and b[1].endswith("::checked_sub") and len(b[2]) == 2:
                        # the payload of `a.checked_sub(b)` is `a - b` (and it exists exactly when a >= b: see bool_atom)
                        e = ("bin", "Sub", b[2][0], b[2][1])
                        continue
                e = field(e, el["n"], el["f"], el.get("of", ""))
            elif "ix" in el:
                e = ("index", e, self.local(el["ix"]))
            elif "cix" in el:
                e = ("index", e, ("const", el["cix"], None, "usize"))
            elif "dc" in el:
                e = ("downcast", e, el["dc"])
            elif "sub" in el:
                e = ("subslice", e, el["sub"][0], el["sub"][1], el["fe"])
            else:
                e = ("unknown", str(el))
        return e

    def operand(self, o):
        if o is None:
            return ("unknown", "none")
        if o["k"] in ("copy", "move"):
            return self.place(o["pl"])
        if o["k"] == "const":
            v = const_val(o)
            name = o.get("def") or o.get("tyconst")
            if o.get("fn"):
                return ("const", None, "fn " + o["fn"], o["ty"])
            if o.get("pv") is not None:
                # a reference to a scalar constant: `&64` - strip() looks through the reference and finds the value
                inner_ty = (o.get("ty") or "").lstrip("&").strip()
                return ("ref", ("const", int(o["pv"]), None, inner_ty))
            if o.get("promoted"):
                name = "promoted:" + (o.get("def") or "")
            if v is None and name is None:
                return ("const", None, o["txt"], o["ty"])
            return ("const", v, name, o["ty"])
        return ("unknown", o.get("txt", ""))

    def rvalue(self, r):
        k = r["r"]
        if k == "use":
            return self.operand(r["a"])
        if k == "ref" or k == "rawptr":
            return ref(self.place(r["pl"]))
        if k == "bin":
            o = r["op"]
            a, b = self.operand(r["a"]), self.operand(r["b"])
            if o in WITH_OVF:
                return ("agg", "Tuple", (("bin", WITH_OVF[o], a, b), ("unknown", "ovf")))
            return ("bin", UNCHK.get(o, o), a, b)
        if k == "un":
            if r["op"] == "PtrMetadata":
                return ("len", self.operand(r["a"]))
            return ("un", r["op"], self.operand(r["a"]))
        if k == "cast":
            return ("cast", self.operand(r["a"]), r["to"])
        if k == "agg":
            kd = r["kind"]
            nm = kd.get("adt") or kd.get("agg")
            if kd.get("adt"):
                nm = nm + "::" + kd["variant"]
            elif kd.get("def"):
                nm = "Closure:" + kd["def"]
            return ("agg", nm, tuple(self.operand(x) for x in r["ops"]))
        if k == "discr":
            return ("discr", self.place(r["pl"]))
        if k == "repeat":
            return ("repeat", self.operand(r["a"]), r["n"])
        return ("unknown", r.get("txt", "")[:60])


def is_identity_fn(prog, path):
    """crate-local fn whose whole body is `return arg1` (e.g. intrinsics::likely/unlikely): decided from its MIR"""
    cache = prog.__dict__.setdefault("_identity_cache", {})
    if path in cache:
        return cache[path]
    g = prog.get(path)
    r = False
    if g is not None and g.argc == 1 and len(g.live) == 1:
        b = g.blocks[0]
        st = [x for x in b["stmts"] if x["s"] == "assign"]
        if b["term"]["t"] == "return" and len(st) == 1 and st[0]["lhs"]["l"] == 0 and not st[0]["lhs"]["p"]:
            rv = st[0]["rv"]
            r = rv["r"] == "use" and rv["a"]["k"] in ("copy", "move") and rv["a"]["pl"]["l"] == 1 and not rv["a"]["pl"]["p"]
    cache[path] = r
    return r


def deref(e):
    if e[0] == "ref":
        return e[1]
    return ("deref", e)


def ref(e):
    if e[0] == "deref":
        return e[1]
    return ("ref", e)


def field(e, name, idx, of=""):
    if e[0] == "agg" and e[1] == "Tuple" and idx < len(e[2]):
        return e[2][idx]
    return ("field", e, name, of)


def strip(e):
    """remove refs/derefs/transparent calls/widening casts: the 'same value' core of an expression"""
    while True:
        if e[0] in ("ref", "deref"):
            e = e[1]
        elif e[0] == "cast":
            e = e[1]
        elif e[0] == "call" and e[1].startswith(TRANSPARENT) and e[2]:
            e = e[2][0]
        else:
            return e


def show(e, depth=0):
    if depth > 12:
        return "…"
    k = e[0]
    d = depth + 1
    if k == "param":
        return e[2] or "arg%d" % e[1]
    if k == "local":
        return (e[2] or "") + "_%d" % e[1]
    if k == "const":
        if e[2]:
            return e[2].split("::")[-1] if not e[2].startswith("fn ") else e[2]
        return str(e[1])
    if k == "bin":
        return "(%s %s %s)" % (show(e[2], d), e[1], show(e[3], d))
    if k == "un":
        return "%s(%s)" % (e[1], show(e[2], d))
    if k == "cast":
        return "(%s as %s)" % (show(e[1], d), e[2])
    if k == "field":
        return "%s.%s" % (show(e[1], d), e[2])
    if k == "deref":
        return "*%s" % show(e[1], d)
    if k == "ref":
        return "&%s" % show(e[1], d)
    if k == "index":
        return "%s[%s]" % (show(e[1], d), show(e[2], d))
    if k == "call":
        return "%s(%s)" % (e[1].split("::")[-1] if "<" not in e[1] else e[1], ", ".join(show(a, d) for a in e[2]))
    if k == "discr":
        return "discr(%s)" % show(e[1], d)
    if k == "agg":
        return "%s{%s}" % (e[1], ", ".join(show(a, d) for a in e[2]))
    if k == "len":
        return "len(%s)" % show(e[1], d)
    if k == "downcast":
        return "(%s as %s)" % (show(e[1], d), e[2])
    if k == "init":
        return "%s@entry" % e[1]
    if k == "phi":
        return "phi(%s)" % ", ".join(show(x, d) for x in e[3])
    return "%s" % (e,)


def walk(e):
    """all sub-expressions"""
    yield e
    for x in e[1:]:
        if isinstance(x, tuple):
            if x and isinstance(x[0], str):
                yield from walk(x)
            else:
                for y in x:
                    if isinstance(y, tuple) and y and isinstance(y[0], str):
                        yield from walk(y)


def mentions(e, pred):
    return any(pred(x) for x in walk(e))


# ---- path conditions ---------------------------------------------------------------

def edge_cond(f, sy, blk, target):
    """condition under which control goes from switch block `blk` to successor `target`:
    returns (expr, 'eq'|'ne', value_or_set) or None if blk is not a (live) switch / both arms same."""
    t = f.blocks[blk]["term"]
    if t["t"] != "switch":
        return None
    e = sy.operand(t["on"])
    vals = [int(a[0]) for a in t["arms"] if a[1] == target]
    if t["otherwise"] == target:
        others = [int(a[0]) for a in t["arms"] if a[1] != target]
        if vals:
            return None  # reached by both explicit value and otherwise: no clean condition
        return (e, "notin", tuple(sorted(others)))
    if not vals:
        return None
    return (e, "in", tuple(sorted(vals)))


def controlling_edges(f, target):
    """switch edges (blk, succ) that every entry->target path must take"""
    out = []
    live = f.live
    for s in sorted(live):
        t = f.blocks[s]["term"]
        if t["t"] != "switch":
            continue
        succs = set(f.lsuccs(s))
        if len(succs) < 2:
            continue
        if target == s:
            continue
        for e in succs:
            # is target reachable from entry without using edge s->e ?
            seen = set()
            st = [0]
            reach = False
            while st:
                n = st.pop()
                if n in seen:
                    continue
                seen.add(n)
                if n == target:
                    reach = True
                    break
                for x in f.lsuccs(n):
                    if n == s and x == e:
                        continue
                    st.append(x)
            if not reach:
                out.append((s, e))
    return out


def path_conds(f, sy, target, _depth=0):
    """list of necessary conditions (expr, rel, values, edge) for reaching block `target`.
    A condition on a multi-assigned boolean temporary (the result of `a || b`, `a && b`) is expanded: if only one
    definition can yield the required truth value, the conditions of that definition's block and its value are added."""
    out = []
    for s, e in controlling_edges(f, target):
        c = edge_cond(f, sy, s, e)
        if c is None:
            continue
        out.append(c + ((s, e),))
        if _depth < 4 and c[0][0] == "local":
            a = bool_atom(c)
            if a and a[0] == "truth":
                l = a[1][1]
                want = a[2]
                prod = []
                for (blk, idx, kind, x) in f.defs.get(l, []):
                    if kind == "rv":
                        v = sy.rvalue(x)
                        if v[0] == "const" and v[1] in (0, 1) and v[2] is None:
                            if bool(v[1]) == want:
                                prod.append((blk, None))
                        else:
                            prod.append((blk, v))
                    else:
                        prod.append((blk, sy.call(x, blk)))
                if len(prod) == 1:
                    blk, v = prod[0]
                    out += path_conds(f, sy, blk, _depth + 1)
                    if v is not None:
                        out.append((v, "in" if want else "notin", (1,) if want else (1,), (blk, blk)) if False else
                                   (v, "notin", (0,), (blk, blk)) if want else (v, "in", (0,), (blk, blk)))
    return out


def bool_atom(c):
    """normalise a condition on a boolean/comparison expression to (op, a, b) with op in
    Lt Le Gt Ge Eq Ne, or ('truth', expr, bool). Returns None when not boolean-like."""
    e, rel, vals = c[0], c[1], c[2]
    if e[0] == "discr":
        b = strip(e[1])
        if b[0] == "call" and (b[1].endswith("Ord>::cmp") or b[1].endswith("Ord::cmp") or _re.search(r"impl core::cmp::Ord for \w+>::cmp$", b[1])) and len(b[2]) == 2:
            # `match a.cmp(&b) { Less => .., Equal => .., Greater => .. }`: a test on the Ordering is a comparison of a and b
            # (discriminants: Less = -1 in whatever width it is printed, Equal = 0, Greater = 1)
            got = set()
            for v in vals:
                v = int(v)
                got.add(v if v in (0, 1) else -1)
            allowed = got if rel == "in" else ({-1, 0, 1} - got)
            op = {frozenset({-1}): "Lt", frozenset({0}): "Eq", frozenset({1}): "Gt", frozenset({-1, 0}): "Le", frozenset({0, 1}): "Ge",
                  frozenset({-1, 1}): "Ne"}.get(frozenset(allowed))
            if op:
                return (op, b[2][0], b[2][1])
        if b[0] == "call" and b[1].endswith("::checked_sub") and len(b[2]) == 2 and tuple(vals) in ((0,), (1,)):
            some = (tuple(vals) == (1,)) == (rel == "in")
            return ("Ge" if some else "Lt", b[2][0], b[2][1])
    truth = None
    if rel == "in" and vals == (0,):
        truth = False
    elif rel == "notin" and vals == (0,):
        truth = True
    elif rel == "in" and vals == (1,):
        truth = True
    elif rel == "notin" and vals == (1,):
        truth = False
    if truth is None:
        return None
    neg = False
    while e[0] == "un" and e[1] == "Not":
        e = e[2]
        neg = not neg
    if neg:
        truth = not truth
    if e[0] == "bin" and e[1] in ("Lt", "Le", "Gt", "Ge", "Eq", "Ne"):
        op = e[1]
        if not truth:
            op = {"Lt": "Ge", "Le": "Gt", "Gt": "Le", "Ge": "Lt", "Eq": "Ne", "Ne": "Eq"}[op]
        return (op, e[2], e[3])
    return ("truth", e, truth)


def interval(atom, subject_pred, maxv=(1 << 64) - 1):
    """for atom (op,a,b) where exactly one side satisfies subject_pred and the other is a constant:
    the closed interval [lo,hi] of subject values satisfying it (Ne -> None)."""
    if atom is None or atom[0] in ("truth", "raw"):
        return None
    op, a, b = atom
    sa, sb = strip(a), strip(b)
    if subject_pred(sa) and sb[0] == "const" and sb[1] is not None:
        c = sb[1]
    elif subject_pred(sb) and sa[0] == "const" and sa[1] is not None:
        c = sa[1]
        op = {"Lt": "Gt", "Le": "Ge", "Gt": "Lt", "Ge": "Le", "Eq": "Eq", "Ne": "Ne"}[op]
    else:
        return None
    if op == "Lt":
        return (0, c - 1)
    if op == "Le":
        return (0, c)
    if op == "Gt":
        return (c + 1, maxv)
    if op == "Ge":
        return (c, maxv)
    if op == "Eq":
        return (c, c)
    return None


# ---- access paths ---------------------------------------------------------------------

def fpath(e):
    """access path of an expression: (root_expr, (field names...)); refs/derefs/casts are transparent,
    downcasts appear as '<Variant>' components"""
    names = []
    while True:
        if e[0] in ("ref", "deref"):
            e = e[1]
        elif e[0] == "field":
            names.append(e[2])
            e = e[1]
        elif e[0] == "downcast":
            names.append("<%s>" % e[2])
            e = e[1]
        elif e[0] == "cast":
            e = e[1]
        elif e[0] == "call" and e[1].startswith(TRANSPARENT) and e[2]:
            e = e[2][0]
        else:
            break
    names.reverse()
    return e, tuple(names)


def is_path(e, root_name, names):
    r, n = fpath(e)
    if r[0] in ("param", "local") and (r[2] == root_name) and n == tuple(names):
        return True
    return False


def is_param(e, name):
    r, n = fpath(e)
    return r[0] == "param" and r[2] == name and n == ()


def const_named(e, suffix):
    e = strip(e)
    return e[0] == "const" and e[2] is not None and (e[2] == suffix or e[2].endswith("::" + suffix))


def const_value(e):
    e = strip(e)
    return e[1] if e[0] == "const" else None


def canon(e, depth=0):
    """canonical text of an expression with full item paths (for comparing two expressions)"""
    if depth > 14:
        return "…"
    k = e[0]
    d = depth + 1
    if k == "param":
        return "param:%s" % (e[2] or e[1])
    if k == "local":
        return "local:%s_%d" % (e[2] or "", e[1])
    if k == "const":
        if e[1] is not None and e[2] is None:
            return "%d" % e[1]
        return "%s=%s" % (e[2], e[1]) if e[1] is not None else str(e[2])
    if k == "bin":
        return "%s(%s,%s)" % (e[1], canon(e[2], d), canon(e[3], d))
    if k == "un":
        return "%s(%s)" % (e[1], canon(e[2], d))
    if k == "cast":
        return "(%s as %s)" % (canon(e[1], d), e[2])
    if k == "field":
        return "%s.%s" % (canon(e[1], d), e[2])
    if k in ("deref", "ref"):
        return canon(e[1], d)
    if k == "index":
        return "%s[%s]" % (canon(e[1], d), canon(e[2], d))
    if k == "call":
        ga = "::<%s>" % ",".join(e[4]) if len(e) > 4 and e[4] and not e[1].startswith(("core::", "<", "std::", "alloc::")) else ""
        return "%s%s(%s)" % (e[1], ga, ",".join(canon(a, d) for a in e[2]))
    if k == "discr":
        return "discr(%s)" % canon(e[1], d)
    if k == "agg":
        return "%s{%s}" % (e[1], ",".join(canon(a, d) for a in e[2]))
    if k == "len":
        return "len(%s)" % canon(e[1], d)
    if k == "downcast":
        return "(%s as %s)" % (canon(e[1], d), e[2])
    if k == "repeat":
        return "[%s;%s]" % (canon(e[1], d), e[2])
    if k == "init":
        return "init:%s" % e[1]
    if k == "phi":
        return "phi(%s)" % ",".join(canon(x, d) for x in e[3])
    return str(e)


# ---- linear normaliser -----------------------------------------------------------------

def lin(e):
    """linear form of an integer expression: (dict var->coef, const) or None.
    Variables are canonical texts of non-linear sub-expressions.  Casts are looked through
    (callers use this only where operands are widened small integers); wrapping_add/sub/
    saturating ops on widened operands are treated as exact (+/-)."""
    e0 = e
    while e[0] == "cast":
        e = e[1]
    if e[0] == "const" and e[1] is not None:
        return ({}, e[1])
    if e[0] == "bin" and e[1] in ("Add", "Sub"):
        a, b = lin(e[2]), lin(e[3])
        if a is None or b is None:
            return None
        return _lcomb(a, b, 1 if e[1] == "Add" else -1)
    if e[0] == "call":
        nm = e[1].split("::")[-1]
        if nm in ("wrapping_add", "wrapping_sub") and len(e[2]) == 2:
            a, b = lin(e[2][0]), lin(e[2][1])
            if a is None or b is None:
                return None
            return _lcomb(a, b, 1 if nm == "wrapping_add" else -1)
    if e[0] in ("ref", "deref"):
        return lin(e[1])
    return ({canon(e): 1}, 0)


def _lcomb(a, b, sign):
    d = dict(a[0])
    for k, v in b[0].items():
        d[k] = d.get(k, 0) + sign * v
        if d[k] == 0:
            del d[k]
    return (d, a[1] + sign * b[1])


def signed(v, ty):
    """reinterpret a constant's bits as signed for iN types"""
    bits = {"i8": 8, "i16": 16, "i32": 32, "i64": 64, "isize": 64}.get(ty)
    if bits and v >= 1 << (bits - 1):
        return v - (1 << bits)
    return v


# ---- expression patterns ---------------------------------------------------------------
COMMUTATIVE = {"Add", "Mul", "BitAnd", "BitOr", "BitXor", "Eq", "Ne"}


def fold_const(e):
    """value of a constant expression (`MAX - 1`, `1 << BITS`), None when it is not one"""
    e = strip(e)
    if e[0] == "const" and isinstance(e[1], int):
        return e[1]
    if e[0] == "cast":
        return fold_const(e[1])
    if e[0] == "bin":
        a, b = fold_const(e[2]), fold_const(e[3])
        if a is None or b is None:
            return None
        try:
            return {"Add": a + b, "Sub": a - b, "Mul": a * b, "Shl": a << b, "Shr": a >> b, "BitAnd": a & b, "BitOr": a | b}.get(e[1])
        except Exception:
            return None
    return None


def _pat_value(p):
    if p[0] == "v":
        return p[1]
    if p[0] == "named" and len(p) > 2:
        return p[2]
    return None


def _pow2_alt(e, pat, env):
    """unsigned arithmetic with a power of two written with shifts and masks: x / 2^k = x >> k, x % 2^k = x & (2^k - 1), x * 2^k = x << k"""
    c = _pat_value(pat[3])
    if c is None or c <= 0 or c & (c - 1):
        return False
    k = c.bit_length() - 1
    if pat[1] == "Div" and e[1] == "Shr":
        return fold_const(e[3]) == k and match(e[2], pat[2], env)
    if pat[1] == "Mul" and e[1] == "Shl":
        return fold_const(e[3]) == k and match(e[2], pat[2], env)
    if pat[1] == "Rem" and e[1] == "BitAnd":
        return (fold_const(e[3]) == c - 1 and match(e[2], pat[2], env)) or (fold_const(e[2]) == c - 1 and match(e[3], pat[2], env))
    return False


def match(e, pat, env=None):
    """structural match of expression `e` against pattern `pat` (casts/refs on `e` are looked through).
    patterns: ('param', name) ('v', int) ('named', suffix[, int]) ('bin', op, p, q) ('call', suffix, [p..])
              ('path', root_name, (fields..)) ('any',) ('bind', key) ('un', op, p) ('index', p, q) ('len', p)"""
    if env is None:
        env = {}
    e = strip(e)
    k = pat[0]
    if k == "any":
        return True
    if k == "bind":
        c = canon(e)
        if pat[1] in env:
            return env[pat[1]] == c
        env[pat[1]] = c
        return True
    if k == "param":
        return is_param(e, pat[1])
    if k == "path":
        return is_path(e, pat[1], pat[2])
    if k == "init":
        return e[0] == "init" and e[1] == pat[1]
    if k == "v":
        return e[0] == "const" and e[1] == pat[1]
    if k == "named":
        return const_named(e, pat[1]) and (len(pat) < 3 or e[1] == pat[2])
    if k == "bin":
        if e[0] == "bin" and e[1] != pat[1] and pat[1] in ("Div", "Rem", "Mul") and _pow2_alt(e, pat, env):
            return True
        if e[0] != "bin" or e[1] != pat[1]:
            return False
        if match(e[2], pat[2], env) and match(e[3], pat[3], env):
            return True
        if pat[1] in COMMUTATIVE:
            return match(e[2], pat[3], env) and match(e[3], pat[2], env)
        return False
    if k == "un":
        return e[0] == "un" and e[1] == pat[1] and match(e[2], pat[2], env)
    if k == "call":
        if e[0] != "call" or not (e[1] == pat[1] or e[1].endswith("::" + pat[1]) or e[1].endswith(pat[1])):
            return False
        if len(pat) > 2:
            if len(e[2]) != len(pat[2]):
                return False
            if all(match(a, p, env) for a, p in zip(e[2], pat[2])):
                return True
            if len(pat) > 3 and pat[3] == "comm" and len(pat[2]) == 2:
                return match(e[2][0], pat[2][1], env) and match(e[2][1], pat[2][0], env)
            return False
        return True
    if k == "index":
        return e[0] == "index" and match(e[1], pat[1], env) and match(e[2], pat[2], env)
    if k == "len":
        return e[0] == "len" and match(e[1], pat[1], env)
    raise ValueError("bad pattern %r" % (pat,))
