// ffz-mir: fact extractor for the static analysis of a4lg/ffuzzy.
//
// A rustc driver (RUSTC_WORKSPACE_WRAPPER) that, for the crate `ssdeep`,
// serialises the type-checked program as JSON: every MIR body (with resolved
// callees, field names, named constants and their values, macro backtraces),
// ADT field visibilities, trait impls and evaluated const tables.
// It is a serialiser only; all judgement lives in /verif/sa.
#![feature(rustc_private)]
extern crate rustc_abi;
extern crate rustc_driver;
extern crate rustc_hir;
extern crate rustc_interface;
extern crate rustc_middle;
extern crate rustc_span;

use rustc_driver::{Callbacks, Compilation};
use rustc_hir::def::DefKind;
use rustc_hir::def_id::{DefId, LOCAL_CRATE};
use rustc_interface::interface::Compiler;
use rustc_middle::mir::{
    self, Const as MConst, Operand, Place, Rvalue, StatementKind, TerminatorKind,
};
use rustc_middle::ty::{self, TyCtxt};
use std::fmt::Write as _;

fn esc(s: &str) -> String {
    let mut o = String::with_capacity(s.len() + 2);
    o.push('"');
    for c in s.chars() {
        match c {
            '"' => o.push_str("\\\""),
            '\\' => o.push_str("\\\\"),
            '\n' => o.push_str("\\n"),
            '\r' => o.push_str("\\r"),
            '\t' => o.push_str("\\t"),
            c if (c as u32) < 0x20 => {
                let _ = write!(o, "\\u{:04x}", c as u32);
            }
            c => o.push(c),
        }
    }
    o.push('"');
    o
}

struct Cx<'tcx> {
    tcx: TyCtxt<'tcx>,
    did: DefId,
}

impl<'tcx> Cx<'tcx> {
    fn place(&self, body: &mir::Body<'tcx>, p: &Place<'tcx>) -> String {
        let mut s = format!("{{\"l\":{},\"p\":[", p.local.as_usize());
        let mut first = true;
        let mut ty = mir::PlaceTy::from_ty(body.local_decls[p.local].ty);
        for elem in p.projection.iter() {
            if !first {
                s.push(',');
            }
            first = false;
            match elem {
                mir::ProjectionElem::Deref => s.push_str("\"*\""),
                mir::ProjectionElem::Field(f, _) => {
                    let (name, owner) = match ty.ty.kind() {
                        ty::Adt(adt, _) => {
                            let v = match ty.variant_index {
                                Some(v) => v,
                                None => rustc_abi::FIRST_VARIANT,
                            };
                            (
                                adt.variant(v).fields[f].name.to_string(),
                                self.tcx.def_path_str(adt.did()),
                            )
                        }
                        _ => (format!("{}", f.as_usize()), String::new()),
                    };
                    let _ = write!(
                        s,
                        "{{\"f\":{},\"n\":{},\"of\":{}}}",
                        f.as_usize(),
                        esc(&name),
                        esc(&owner)
                    );
                }
                mir::ProjectionElem::Index(l) => {
                    let _ = write!(s, "{{\"ix\":{}}}", l.as_usize());
                }
                mir::ProjectionElem::ConstantIndex { offset, min_length, from_end } => {
                    let _ = write!(
                        s,
                        "{{\"cix\":{},\"min\":{},\"fe\":{}}}",
                        offset, min_length, from_end
                    );
                }
                mir::ProjectionElem::Subslice { from, to, from_end } => {
                    let _ = write!(s, "{{\"sub\":[{},{}],\"fe\":{}}}", from, to, from_end);
                }
                mir::ProjectionElem::Downcast(name, v) => {
                    let _ = write!(
                        s,
                        "{{\"dc\":{},\"v\":{}}}",
                        esc(&name.map(|n| n.to_string()).unwrap_or_default()),
                        v.as_usize()
                    );
                }
                other => {
                    let _ = write!(s, "{{\"other\":{}}}", esc(&format!("{:?}", other)));
                }
            }
            ty = ty.projection_ty(self.tcx, elem);
        }
        let _ = write!(s, "],\"ty\":{}}}", esc(&ty.ty.to_string()));
        s
    }

    fn konst(&self, c: &mir::ConstOperand<'tcx>) -> String {
        let tcx = self.tcx;
        let ty = c.const_.ty();
        let mut s = format!("{{\"k\":\"const\",\"ty\":{}", esc(&ty.to_string()));
        if let MConst::Unevaluated(uv, _) = c.const_ {
            let _ = write!(s, ",\"def\":{}", esc(&tcx.def_path_str(uv.def)));
            if uv.promoted.is_some() {
                s.push_str(",\"promoted\":true");
            }
            let ga: Vec<String> = uv.args.iter().map(|a| esc(&a.to_string())).collect();
            if !ga.is_empty() {
                let _ = write!(s, ",\"cargs\":[{}]", ga.join(","));
            }
        }
        if let MConst::Ty(_, ct) = c.const_ {
            let _ = write!(s, ",\"tyconst\":{}", esc(&format!("{}", ct)));
        }
        let typing_env = ty::TypingEnv::post_analysis(tcx, self.did);
        if ty.is_integral() || ty.is_bool() || ty.is_char() {
            if let Some(si) = c.const_.try_eval_scalar_int(tcx, typing_env) {
                let bits = si.to_bits(si.size());
                let _ = write!(s, ",\"v\":{}", esc(&bits.to_string()));
            }
        }
        if let ty::FnDef(d, _) = ty.kind() {
            let _ = write!(s, ",\"fn\":{}", esc(&tcx.def_path_str(*d)));
        }
        // a reference to a scalar constant (`&BORDER` promoted for `a.cmp(&BORDER)`): the value behind the reference
        let mut have_pv = false;
        if let ty::Ref(_, inner, _) = ty.kind() {
            if inner.is_integral() || inner.is_bool() {
                if let Ok(val) = c.const_.eval(tcx, typing_env, c.span) {
                    if let mir::ConstValue::Scalar(mir::interpret::Scalar::Ptr(p, _)) = val {
                        let (prov, off) = p.into_raw_parts();
                        if let mir::interpret::GlobalAlloc::Memory(m) = tcx.global_alloc(prov.alloc_id()) {
                            if let Ok(lay) = tcx.layout_of(typing_env.as_query_input(*inner)) {
                                let sz = lay.size.bytes() as usize;
                                let a = m.inner();
                                let o = off.bytes() as usize;
                                if sz > 0 && sz <= 16 && o + sz <= a.len() {
                                    let bytes = a.inspect_with_uninit_and_ptr_outside_interpreter(o..o + sz);
                                    let mut v: u128 = 0;
                                    for (i, b) in bytes.iter().enumerate() {
                                        v |= (*b as u128) << (8 * i);
                                    }
                                    let _ = write!(s, ",\"pv\":{}", esc(&v.to_string()));
                                    have_pv = true;
                                }
                            }
                        }
                    }
                }
            }
        }
        // inside a generic function the promoted constant as a whole cannot be evaluated; its body can be read: `_1 = const X; _0 = &_1`
        // with X a constant that does not depend on the parameters
        if !have_pv {
            if let (ty::Ref(_, inner, _), MConst::Unevaluated(uv, _)) = (ty.kind(), c.const_) {
                if let (true, Some(pi)) = (inner.is_integral() || inner.is_bool(), uv.promoted) {
                    if uv.def.is_local() {
                        let proms = tcx.promoted_mir(uv.def);
                        if let Some(pb) = proms.get(pi) {
                            let mut vals: Vec<(String, String)> = vec![];
                            let mut other = 0;
                            for bb in pb.basic_blocks.iter() {
                                for st in &bb.statements {
                                    if let StatementKind::Assign(b) = &st.kind {
                                        match &b.1 {
                                            Rvalue::Use(Operand::Constant(c2), ..) => {
                                                if let Some(si) = c2.const_.try_eval_scalar_int(tcx, typing_env) {
                                                    let d2 = if let MConst::Unevaluated(u2, _) = c2.const_ { tcx.def_path_str(u2.def) } else { String::new() };
                                                    vals.push((si.to_bits(si.size()).to_string(), d2));
                                                } else {
                                                    other += 1;
                                                }
                                            }
                                            Rvalue::Ref(..) => {}
                                            _ => other += 1,
                                        }
                                    }
                                }
                            }
                            if vals.len() == 1 && other == 0 && pb.basic_blocks.len() == 1 {
                                let _ = write!(s, ",\"pv\":{},\"pdef\":{}", esc(&vals[0].0), esc(&vals[0].1));
                            }
                        }
                    }
                }
            }
        }
        let txt: String = format!("{}", c.const_).chars().take(200).collect();
        let _ = write!(s, ",\"txt\":{}}}", esc(&txt));
        s
    }

    fn operand(&self, body: &mir::Body<'tcx>, o: &Operand<'tcx>) -> String {
        match o {
            Operand::Copy(p) => format!("{{\"k\":\"copy\",\"pl\":{}}}", self.place(body, p)),
            Operand::Move(p) => format!("{{\"k\":\"move\",\"pl\":{}}}", self.place(body, p)),
            Operand::Constant(c) => self.konst(c),
            other => format!("{{\"k\":\"other\",\"txt\":{}}}", esc(&format!("{:?}", other))),
        }
    }

    fn rvalue(&self, body: &mir::Body<'tcx>, r: &Rvalue<'tcx>) -> String {
        match r {
            Rvalue::Use(o, ..) => format!("{{\"r\":\"use\",\"a\":{}}}", self.operand(body, o)),
            Rvalue::Ref(_, bk, p) => format!(
                "{{\"r\":\"ref\",\"mut\":{},\"pl\":{}}}",
                matches!(bk, mir::BorrowKind::Mut { .. }),
                self.place(body, p)
            ),
            Rvalue::RawPtr(k, p) => format!(
                "{{\"r\":\"rawptr\",\"kind\":{},\"pl\":{}}}",
                esc(&format!("{:?}", k)),
                self.place(body, p)
            ),
            Rvalue::BinaryOp(op, ab) => format!(
                "{{\"r\":\"bin\",\"op\":{},\"a\":{},\"b\":{}}}",
                esc(&format!("{:?}", op)),
                self.operand(body, &ab.0),
                self.operand(body, &ab.1)
            ),
            Rvalue::UnaryOp(op, a) => format!(
                "{{\"r\":\"un\",\"op\":{},\"a\":{}}}",
                esc(&format!("{:?}", op)),
                self.operand(body, a)
            ),
            Rvalue::Cast(k, a, t) => format!(
                "{{\"r\":\"cast\",\"kind\":{},\"a\":{},\"to\":{}}}",
                esc(&format!("{:?}", k)),
                self.operand(body, a),
                esc(&t.to_string())
            ),
            Rvalue::Aggregate(k, ops) => {
                let kind = match &**k {
                    mir::AggregateKind::Adt(d, v, ..) => {
                        let adt = self.tcx.adt_def(*d);
                        let fields: Vec<String> = adt
                            .variant(*v)
                            .fields
                            .iter()
                            .map(|f| esc(&f.name.to_string()))
                            .collect();
                        format!(
                            "{{\"adt\":{},\"variant\":{},\"fields\":[{}]}}",
                            esc(&self.tcx.def_path_str(*d)),
                            esc(&adt.variant(*v).name.to_string()),
                            fields.join(",")
                        )
                    }
                    mir::AggregateKind::Tuple => "{\"agg\":\"Tuple\"}".to_string(),
                    mir::AggregateKind::Array(_) => "{\"agg\":\"Array\"}".to_string(),
                    mir::AggregateKind::Closure(d, _) => {
                        format!("{{\"agg\":\"Closure\",\"def\":{}}}", esc(&self.tcx.def_path_str(*d)))
                    }
                    other => format!(
                        "{{\"agg\":{}}}",
                        esc(&format!("{:?}", other).chars().take(80).collect::<String>())
                    ),
                };
                let ops: Vec<String> = ops.iter().map(|o| self.operand(body, o)).collect();
                format!("{{\"r\":\"agg\",\"kind\":{},\"ops\":[{}]}}", kind, ops.join(","))
            }
            Rvalue::Repeat(o, n) => format!(
                "{{\"r\":\"repeat\",\"a\":{},\"n\":{}}}",
                self.operand(body, o),
                esc(&format!("{}", n))
            ),
            Rvalue::Discriminant(p) => {
                format!("{{\"r\":\"discr\",\"pl\":{}}}", self.place(body, p))
            }
            Rvalue::CopyForDeref(p) => format!(
                "{{\"r\":\"use\",\"a\":{{\"k\":\"copy\",\"pl\":{}}}}}",
                self.place(body, p)
            ),
            other => format!(
                "{{\"r\":\"other\",\"txt\":{}}}",
                esc(&format!("{:?}", other).chars().take(200).collect::<String>())
            ),
        }
    }

    fn span(&self, sp: rustc_span::Span) -> String {
        let sm = self.tcx.sess.source_map();
        let lo = sm.lookup_char_pos(sp.lo());
        let mut macros: Vec<String> = Vec::new();
        for ed in sp.macro_backtrace() {
            if let rustc_span::ExpnKind::Macro(_, name) = ed.kind {
                macros.push(name.to_string());
            }
        }
        let cs = sp.source_callsite();
        let clo = sm.lookup_char_pos(cs.lo());
        format!(
            "{{\"file\":{},\"line\":{},\"cs_file\":{},\"cs_line\":{},\"macros\":[{}]}}",
            esc(&format!("{}", lo.file.name.prefer_local_unconditionally())),
            lo.line,
            esc(&format!("{}", clo.file.name.prefer_local_unconditionally())),
            clo.line,
            macros.iter().map(|m| esc(m)).collect::<Vec<_>>().join(",")
        )
    }
}

fn dump_bodies<'tcx>(tcx: TyCtxt<'tcx>, out: &mut String) {
    let ev = tcx.effective_visibilities(());
    let mut first_fn = true;
    for ldid in tcx.mir_keys(()) {
        let did = ldid.to_def_id();
        let kind = tcx.def_kind(did);
        // generic constants (associated constants over const parameters) cannot be evaluated here: their initialiser is dumped as a
        // body of its own, so that the rules can read the expression (e.g. MAX_LEN_IN_STR over S1, S2)
        let is_generic_const = matches!(kind, DefKind::AssocConst { .. } | DefKind::Const { .. })
            && tcx.generics_of(did).requires_monomorphization(tcx)
            && !(matches!(kind, DefKind::AssocConst { .. })
                && tcx.opt_parent(did).map_or(false, |p| matches!(tcx.def_kind(p), DefKind::Trait))
                && !tcx.defaultness(did).has_value());
        // initialisers of the other (evaluable) constants are dumped too, flagged `plain_const`: the analyser keeps them apart and
        // uses them only to read a constant that the reviewed tree did not have as the expression that defines it
        let is_plain_const = !is_generic_const
            && matches!(kind, DefKind::AssocConst { .. } | DefKind::Const { .. })
            && !tcx.generics_of(did).requires_monomorphization(tcx)
            && !(matches!(kind, DefKind::AssocConst { .. })
                && tcx.opt_parent(did).map_or(false, |p| matches!(tcx.def_kind(p), DefKind::Trait))
                && !tcx.defaultness(did).has_value());
        if !matches!(kind, DefKind::Fn | DefKind::AssocFn | DefKind::Closure) && !is_generic_const && !is_plain_const {
            continue;
        }
        let plain_const = is_plain_const;
        let is_generic_const = is_generic_const || is_plain_const;
        let body = if is_generic_const { tcx.mir_for_ctfe(did) } else { tcx.optimized_mir(did) };
        let cx = Cx { tcx, did };
        if !first_fn {
            out.push_str(",\n");
        }
        first_fn = false;
        let is_closure = matches!(kind, DefKind::Closure);
        let exported = ev.is_exported(*ldid);
        let reachable = ev.is_reachable(*ldid);
        let is_unsafe = if is_closure || is_generic_const {
            false
        } else {
            tcx.fn_sig(did).skip_binder().safety().is_unsafe()
        };
        // impl / trait context
        let mut impl_trait = String::new();
        let mut impl_self = String::new();
        let mut derived = false;
        let mut in_trait = String::new();
        if !is_closure {
            if let Some(parent) = tcx.opt_parent(did) {
                match tcx.def_kind(parent) {
                    DefKind::Impl { of_trait } => {
                        impl_self = tcx
                            .type_of(parent)
                            .instantiate_identity()
                            .skip_norm_wip()
                            .to_string();
                        if of_trait {
                            let tr = tcx.impl_trait_ref(parent).instantiate_identity().skip_norm_wip();
                            impl_trait = trait_str(tcx, tr);
                        }
                        derived = tcx.is_automatically_derived(parent);
                    }
                    DefKind::Trait => {
                        in_trait = tcx.def_path_str(parent);
                    }
                    _ => {}
                }
            }
        }
        let _ = write!(
            out,
            "{{\"path\":{},\"plain_const\":{},\"kind\":{},\"exported\":{},\"reachable\":{},\"unsafe\":{},\"impl_trait\":{},\"impl_self\":{},\"in_trait\":{},\"derived\":{},\"span\":{},\"argc\":{},\"locals\":[",
            esc(&tcx.def_path_str(did)),
            plain_const,
            esc(&format!("{:?}", kind)),
            exported,
            reachable,
            is_unsafe,
            esc(&impl_trait),
            esc(&impl_self),
            esc(&in_trait),
            derived,
            cx.span(body.span),
            body.arg_count
        );
        let mut names: std::collections::HashMap<usize, String> = Default::default();
        for vdi in &body.var_debug_info {
            if let mir::VarDebugInfoContents::Place(p) = &vdi.value {
                if p.projection.is_empty() {
                    names.insert(p.local.as_usize(), vdi.name.to_string());
                }
            }
        }
        for (i, (l, d)) in body.local_decls.iter_enumerated().enumerate() {
            if i > 0 {
                out.push(',');
            }
            let _ = write!(
                out,
                "{{\"ty\":{},\"name\":{},\"mut\":{}}}",
                esc(&d.ty.to_string()),
                esc(names.get(&l.as_usize()).map(|s| s.as_str()).unwrap_or("")),
                d.mutability.is_mut()
            );
        }
        out.push_str("],\"blocks\":[");
        for (bi, (_bb, data)) in body.basic_blocks.iter_enumerated().enumerate() {
            if bi > 0 {
                out.push(',');
            }
            let _ = write!(out, "{{\"cleanup\":{},\"stmts\":[", data.is_cleanup);
            let mut fs = true;
            for st in &data.statements {
                let js = match &st.kind {
                    StatementKind::Assign(b) => format!(
                        "{{\"s\":\"assign\",\"lhs\":{},\"rv\":{},\"sp\":{}}}",
                        cx.place(body, &b.0),
                        cx.rvalue(body, &b.1),
                        cx.span(st.source_info.span)
                    ),
                    StatementKind::SetDiscriminant { place, variant_index } => format!(
                        "{{\"s\":\"setdiscr\",\"lhs\":{},\"v\":{}}}",
                        cx.place(body, place),
                        variant_index.as_usize()
                    ),
                    StatementKind::StorageLive(_)
                    | StatementKind::StorageDead(_)
                    | StatementKind::Nop
                    | StatementKind::FakeRead(..)
                    | StatementKind::PlaceMention(..)
                    | StatementKind::AscribeUserType(..)
                    | StatementKind::Coverage(..)
                    | StatementKind::ConstEvalCounter => continue,
                    other => format!(
                        "{{\"s\":\"other\",\"txt\":{},\"sp\":{}}}",
                        esc(&format!("{:?}", other).chars().take(200).collect::<String>()),
                        cx.span(st.source_info.span)
                    ),
                };
                if !fs {
                    out.push(',');
                }
                fs = false;
                out.push_str(&js);
            }
            out.push_str("],\"term\":");
            let term = data.terminator();
            let sp = cx.span(term.source_info.span);
            let tj = match &term.kind {
                TerminatorKind::Goto { target } => {
                    format!("{{\"t\":\"goto\",\"to\":{}}}", target.as_usize())
                }
                TerminatorKind::SwitchInt { discr, targets } => {
                    let arms: Vec<String> = targets
                        .iter()
                        .map(|(v, t)| format!("[{},{}]", esc(&v.to_string()), t.as_usize()))
                        .collect();
                    format!(
                        "{{\"t\":\"switch\",\"on\":{},\"arms\":[{}],\"otherwise\":{},\"sp\":{}}}",
                        cx.operand(body, discr),
                        arms.join(","),
                        targets.otherwise().as_usize(),
                        sp
                    )
                }
                TerminatorKind::Return => format!("{{\"t\":\"return\",\"sp\":{}}}", sp),
                TerminatorKind::Unreachable => "{\"t\":\"unreachable\"}".to_string(),
                TerminatorKind::UnwindResume => "{\"t\":\"resume\"}".to_string(),
                TerminatorKind::Drop { place, target, .. } => format!(
                    "{{\"t\":\"drop\",\"pl\":{},\"to\":{}}}",
                    cx.place(body, place),
                    target.as_usize()
                ),
                TerminatorKind::Assert { cond, expected, msg, target, .. } => {
                    let m = match &**msg {
                        mir::AssertKind::BoundsCheck { len, index } => format!(
                            "{{\"a\":\"bounds\",\"len\":{},\"index\":{}}}",
                            cx.operand(body, len),
                            cx.operand(body, index)
                        ),
                        mir::AssertKind::Overflow(op, a, b) => format!(
                            "{{\"a\":\"overflow\",\"op\":{},\"x\":{},\"y\":{}}}",
                            esc(&format!("{:?}", op)),
                            cx.operand(body, a),
                            cx.operand(body, b)
                        ),
                        mir::AssertKind::OverflowNeg(a) => {
                            format!("{{\"a\":\"overflowneg\",\"x\":{}}}", cx.operand(body, a))
                        }
                        mir::AssertKind::DivisionByZero(a) => {
                            format!("{{\"a\":\"div0\",\"x\":{}}}", cx.operand(body, a))
                        }
                        mir::AssertKind::RemainderByZero(a) => {
                            format!("{{\"a\":\"rem0\",\"x\":{}}}", cx.operand(body, a))
                        }
                        other => format!(
                            "{{\"a\":\"other\",\"txt\":{}}}",
                            esc(&format!("{:?}", other).chars().take(80).collect::<String>())
                        ),
                    };
                    format!(
                        "{{\"t\":\"assert\",\"cond\":{},\"expected\":{},\"msg\":{},\"to\":{},\"sp\":{}}}",
                        cx.operand(body, cond),
                        expected,
                        m,
                        target.as_usize(),
                        sp
                    )
                }
                TerminatorKind::Call { func, args, destination, target, .. } => {
                    let fty = func.ty(&body.local_decls, tcx);
                    let (callee, resolved, gargs, local_callee) =
                        if let ty::FnDef(cdid, gargs) = fty.kind() {
                            let typing_env = ty::TypingEnv::post_analysis(tcx, did);
                            let (r, rl) =
                                match ty::Instance::try_resolve(tcx, typing_env, *cdid, gargs) {
                                    Ok(Some(inst)) => (
                                        tcx.def_path_str(inst.def_id()),
                                        inst.def_id().is_local(),
                                    ),
                                    _ => (String::new(), false),
                                };
                            (
                                tcx.def_path_str(*cdid),
                                r,
                                gargs
                                    .iter()
                                    .map(|a| esc(&a.to_string()))
                                    .collect::<Vec<_>>()
                                    .join(","),
                                rl || cdid.is_local(),
                            )
                        } else {
                            (format!("<indirect:{}>", fty), String::new(), String::new(), false)
                        };
                    let a: Vec<String> = args.iter().map(|a| cx.operand(body, &a.node)).collect();
                    // for indirect calls keep the operand
                    let fop = match func {
                        Operand::Constant(_) => String::from("null"),
                        o => cx.operand(body, o),
                    };
                    format!(
                        "{{\"t\":\"call\",\"callee\":{},\"resolved\":{},\"local\":{},\"gargs\":[{}],\"args\":[{}],\"dest\":{},\"to\":{},\"fop\":{},\"sp\":{}}}",
                        esc(&callee),
                        esc(&resolved),
                        local_callee,
                        gargs,
                        a.join(","),
                        cx.place(body, destination),
                        target.map(|t| t.as_usize().to_string()).unwrap_or("null".into()),
                        fop,
                        sp
                    )
                }
                other => format!(
                    "{{\"t\":\"other\",\"txt\":{}}}",
                    esc(&format!("{:?}", other).chars().take(100).collect::<String>())
                ),
            };
            out.push_str(&tj);
            out.push('}');
        }
        out.push_str("]}");
    }
}

fn dump_adts<'tcx>(tcx: TyCtxt<'tcx>, out: &mut String) {
    let ev = tcx.effective_visibilities(());
    let mut first = true;
    for ldid in tcx.hir_crate_items(()).definitions() {
        let did = ldid.to_def_id();
        let kind = tcx.def_kind(did);
        if !matches!(kind, DefKind::Struct | DefKind::Enum | DefKind::Union) {
            continue;
        }
        let adt = tcx.adt_def(did);
        if !first {
            out.push_str(",\n");
        }
        first = false;
        let _ = write!(
            out,
            "{{\"path\":{},\"kind\":{},\"exported\":{},\"variants\":[",
            esc(&tcx.def_path_str(did)),
            esc(&format!("{:?}", kind)),
            ev.is_exported(ldid)
        );
        for (vi, v) in adt.variants().iter().enumerate() {
            if vi > 0 {
                out.push(',');
            }
            let _ = write!(out, "{{\"name\":{},\"fields\":[", esc(&v.name.to_string()));
            for (fi, f) in v.fields.iter().enumerate() {
                if fi > 0 {
                    out.push(',');
                }
                let vis = match f.vis {
                    ty::Visibility::Public => "pub".to_string(),
                    ty::Visibility::Restricted(m) => {
                        if m.is_crate_root() {
                            "crate".to_string()
                        } else {
                            format!("in:{}", tcx.def_path_str(m))
                        }
                    }
                };
                let fty = tcx.type_of(f.did).instantiate_identity().skip_norm_wip();
                let _ = write!(
                    out,
                    "{{\"name\":{},\"vis\":{},\"ty\":{}}}",
                    esc(&f.name.to_string()),
                    esc(&vis),
                    esc(&fty.to_string())
                );
            }
            out.push_str("]}");
        }
        out.push_str("]}");
    }
}

fn dump_consts<'tcx>(tcx: TyCtxt<'tcx>, out: &mut String) {
    let mut first = true;
    for ldid in tcx.hir_crate_items(()).definitions() {
        let did = ldid.to_def_id();
        let kind = tcx.def_kind(did);
        let is_c = matches!(
            kind,
            DefKind::Const { .. } | DefKind::AssocConst { .. } | DefKind::Static { .. }
        );
        if !is_c {
            continue;
        }
        if tcx.generics_of(did).requires_monomorphization(tcx) {
            // still record the name so rules can see it exists
            if !first {
                out.push_str(",\n");
            }
            first = false;
            let _ = write!(
                out,
                "{{\"path\":{},\"generic\":true,\"ty\":{}}}",
                esc(&tcx.def_path_str(did)),
                esc(&tcx.type_of(did).instantiate_identity().skip_norm_wip().to_string())
            );
            continue;
        }
        // trait assoc consts without default have no body
        if matches!(kind, DefKind::AssocConst { .. }) {
            if let Some(p) = tcx.opt_parent(did) {
                if matches!(tcx.def_kind(p), DefKind::Trait) && !tcx.defaultness(did).has_value() {
                    continue;
                }
            }
        }
        let ty = tcx.type_of(did).instantiate_identity().skip_norm_wip();
        let mut entry = format!(
            "{{\"path\":{},\"ty\":{}",
            esc(&tcx.def_path_str(did)),
            esc(&ty.to_string())
        );
        let val = if matches!(kind, DefKind::Static { .. }) {
            None
        } else {
            tcx.const_eval_poly(did).ok()
        };
        if let Some(cv) = val {
            match cv {
                mir::ConstValue::Scalar(sc) => {
                    if let mir::interpret::Scalar::Int(si) = sc {
                        let _ = write!(entry, ",\"v\":{}", esc(&si.to_bits(si.size()).to_string()));
                    } else if let mir::interpret::Scalar::Ptr(p, _) = sc {
                        // pointer to an allocation (e.g. &[u8; N] or &str data)
                        let (prov, off) = p.into_raw_parts();
                        if let mir::interpret::GlobalAlloc::Memory(m) =
                            tcx.global_alloc(prov.alloc_id())
                        {
                            let a = m.inner();
                            let len = a.len();
                            let bytes = a.inspect_with_uninit_and_ptr_outside_interpreter(0..len);
                            let _ = write!(
                                entry,
                                ",\"ptr_off\":{},\"bytes\":{}",
                                off.bytes(),
                                esc(&hex(bytes))
                            );
                        }
                    }
                }
                mir::ConstValue::ZeroSized => {
                    entry.push_str(",\"zst\":true");
                }
                mir::ConstValue::Slice { alloc_id, meta } => {
                    if let mir::interpret::GlobalAlloc::Memory(m) = tcx.global_alloc(alloc_id) {
                        let a = m.inner();
                        let len = a.len();
                        let bytes = a.inspect_with_uninit_and_ptr_outside_interpreter(0..len);
                        let _ = write!(entry, ",\"slice_len\":{},\"bytes\":{}", meta, esc(&hex(bytes)));
                    }
                }
                mir::ConstValue::Indirect { alloc_id, offset } => {
                    if let mir::interpret::GlobalAlloc::Memory(m) = tcx.global_alloc(alloc_id) {
                        let a = m.inner();
                        let len = a.len();
                        let bytes = a.inspect_with_uninit_and_ptr_outside_interpreter(0..len);
                        let _ = write!(
                            entry,
                            ",\"off\":{},\"bytes\":{}",
                            offset.bytes(),
                            esc(&hex(bytes))
                        );
                        // relocations: pointers into other allocations (e.g. [&str; N])
                        let mut rel = String::from("[");
                        let mut fr = true;
                        for (off, prov) in a.provenance().ptrs().iter() {
                            if let mir::interpret::GlobalAlloc::Memory(m2) =
                                tcx.global_alloc(prov.alloc_id())
                            {
                                let a2 = m2.inner();
                                let b2 = a2
                                    .inspect_with_uninit_and_ptr_outside_interpreter(0..a2.len());
                                if !fr {
                                    rel.push(',');
                                }
                                fr = false;
                                let _ = write!(
                                    rel,
                                    "{{\"at\":{},\"bytes\":{}}}",
                                    off.bytes(),
                                    esc(&hex(b2))
                                );
                            }
                        }
                        rel.push(']');
                        let _ = write!(entry, ",\"relocs\":{}", rel);
                    }
                }
            }
        }
        entry.push('}');
        if !first {
            out.push_str(",\n");
        }
        first = false;
        out.push_str(&entry);
    }
}

fn trait_str<'tcx>(tcx: TyCtxt<'tcx>, tr: ty::TraitRef<'tcx>) -> String {
    let mut s = tcx.def_path_str(tr.def_id);
    let rest: Vec<String> = tr.args.iter().skip(1).map(|a| a.to_string()).collect();
    if !rest.is_empty() {
        s.push('<');
        s.push_str(&rest.join(", "));
        s.push('>');
    }
    s
}

fn hex(b: &[u8]) -> String {
    let mut s = String::with_capacity(b.len() * 2);
    for x in b {
        let _ = write!(s, "{:02x}", x);
    }
    s
}

fn dump_impls<'tcx>(tcx: TyCtxt<'tcx>, out: &mut String) {
    let mut first = true;
    for ldid in tcx.hir_crate_items(()).definitions() {
        let did = ldid.to_def_id();
        if let DefKind::Impl { of_trait } = tcx.def_kind(did) {
            let self_ty = tcx.type_of(did).instantiate_identity().skip_norm_wip().to_string();
            let tr = if of_trait {
                let t = tcx.impl_trait_ref(did).instantiate_identity().skip_norm_wip();
                trait_str(tcx, t)
            } else {
                String::new()
            };
            let items: Vec<String> = tcx
                .associated_items(did)
                .in_definition_order()
                .map(|i| esc(&tcx.def_path_str(i.def_id)))
                .collect();
            if !first {
                out.push_str(",\n");
            }
            first = false;
            let _ = write!(
                out,
                "{{\"self\":{},\"trait\":{},\"derived\":{},\"items\":[{}]}}",
                esc(&self_ty),
                esc(&tr),
                tcx.is_automatically_derived(did),
                items.join(",")
            );
        }
    }
}

fn dump_sigs<'tcx>(tcx: TyCtxt<'tcx>, out: &mut String) {
    // signatures of all fn-like items including trait method declarations
    let ev = tcx.effective_visibilities(());
    let mut first = true;
    for ldid in tcx.hir_crate_items(()).definitions() {
        let did = ldid.to_def_id();
        let kind = tcx.def_kind(did);
        if !matches!(kind, DefKind::Fn | DefKind::AssocFn) {
            continue;
        }
        let sig = tcx.fn_sig(did).skip_binder().skip_binder();
        let ins: Vec<String> = sig.inputs().iter().map(|t| esc(&t.to_string())).collect();
        if !first {
            out.push_str(",\n");
        }
        first = false;
        // generic parameter names in substitution order (parent generics first)
        let mut gnames: Vec<String> = Vec::new();
        {
            let g = tcx.generics_of(did);
            for i in 0..g.count() {
                gnames.push(esc(&g.param_at(i, tcx).name.to_string()));
            }
        }
        let _ = write!(
            out,
            "{{\"path\":{},\"generics\":[{}],\"inputs\":[{}],\"output\":{},\"unsafe\":{},\"exported\":{},\"reachable\":{},\"has_body\":{}}}",
            esc(&tcx.def_path_str(did)),
            gnames.join(","),
            ins.join(","),
            esc(&sig.output().to_string()),
            sig.safety().is_unsafe(),
            ev.is_exported(ldid),
            ev.is_reachable(ldid),
            tcx.is_mir_available(did)
        );
    }
}

struct Cb;
impl Callbacks for Cb {
    fn after_analysis<'tcx>(&mut self, _c: &Compiler, tcx: TyCtxt<'tcx>) -> Compilation {
        if tcx.crate_name(LOCAL_CRATE).as_str() != "ssdeep" {
            return Compilation::Continue;
        }
        let dest = match std::env::var("FFZ_OUT") {
            Ok(d) => d,
            Err(_) => return Compilation::Continue,
        };
        let mut out = String::from("{\"fns\":[\n");
        dump_bodies(tcx, &mut out);
        out.push_str("\n],\n\"adts\":[\n");
        dump_adts(tcx, &mut out);
        out.push_str("\n],\n\"consts\":[\n");
        dump_consts(tcx, &mut out);
        out.push_str("\n],\n\"impls\":[\n");
        dump_impls(tcx, &mut out);
        out.push_str("\n],\n\"sigs\":[\n");
        dump_sigs(tcx, &mut out);
        out.push_str("\n]}\n");
        std::fs::write(&dest, out).unwrap();
        eprintln!("ffz-mir: wrote {}", dest);
        Compilation::Continue
    }
}

fn main() {
    let mut args: Vec<String> = std::env::args().collect();
    if args.len() > 1 && (args[1].ends_with("rustc") || args[1].contains("/rustc")) {
        args.remove(1);
    }
    rustc_driver::run_compiler(&args, &mut Cb);
}
