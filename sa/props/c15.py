"""C15 — conversions between hash variants lose nothing (field-level clauses)."""
from ..rules import fields, tail, convert, eqord, vis, rle, summary, normal, beliefs, data

EXPL = ("Decides with the write census over MIR: every conversion copies each field from the like-named (like-indexed) field of the "
        "source; every function writing through a &mut hash destination defines all five fields on every normal return, arrays "
        "wholly (whole assignment, or copy/fill ranges chaining [0,N)) or fresh+prefix; narrowing fails exactly for len_blockhash2 > 32 "
        "and then no store to the destination lies on the error path; From/TryFrom/from_* are single calls of the named conversions; "
        "raw->normalised always passes through the one in-place normaliser with the source's own NORM flag; normalised->raw reaches no "
        "normaliser; dual<->plain goes through compress/expand with like-indexed (array,length,RLE) triples. NOT decided: commutation of "
        "conversion chains as a value statement (it follows only informally from the per-conversion field facts).")


CONV = r"(into_mut_|to_long_form|to_raw_form|try_into_mut_short|from_short_form|from_raw_form|from_normalized|core::convert::(Try)?From<internals::hash|::normalize$|::clone_normalized$|init_from_raw_form|hash_dual::algorithms::(compress|expand))"


def run(ctx):
    cfgs = ["rel"] if ctx.tier == "quick" else ["rel", "dbg", "unsafe", "nodef", "strict"]
    ctx.progs(cfgs)  # build all configurations in parallel
    for c in cfgs:
        prog = ctx.prog(c)
        ctx.guard("C15", "like", lambda: fields.like_index(ctx, prog, scope=CONV, floor=25))
        ctx.guard("C15", "complete", lambda: fields.dest_complete(ctx, prog, scope=CONV, floor=5))
        ctx.guard("C15", "writers", lambda: tail.classify_writers(ctx, prog, scope=CONV, floor=8))
        ctx.guard("C15", "expand", lambda: tail.compress_expand(ctx, prog))
        ctx.guard("C15", "narrow", lambda: convert.narrowing(ctx, prog))
        ctx.guard("C15", "expand-step", lambda: rle.expand_step(ctx, prog))
        ctx.guard("C15", "expand-copy", lambda: rle.expand_copy(ctx, prog))
        ctx.guard("C15", "traits", lambda: convert.trait_forms(ctx, prog))
        ctx.guard("C15", "funnel", lambda: convert.normaliser_funnel(ctx, prog))
        ctx.guard("C15", "runs", lambda: normal.run_limit_agreement(ctx, prog))
        ctx.guard("C15", "traits", lambda: vis.trait_census(ctx, prog, scope='core::convert::'))
        ctx.guard("C15", "sym", lambda: eqord.len_index_symmetry(ctx, prog, scope=CONV, floor=4))
        ctx.guard("C15", "const values", lambda: data.const_census(ctx, prog, data.CONST_SCOPES["C15"], floor=1))
        ctx.guard("C15", "panic conditions", lambda: beliefs.live_census(ctx, prog, beliefs.SCOPES["C15"][0]))
        ctx.guard("C15", "normalize-step", lambda: normal.normalize_step(ctx, prog))
        ctx.guard("C15", "summaries", lambda: summary.check(ctx, prog, 'core::convert::|::to_long_form|::from_short_form|::to_raw_form|::from_raw_form|::from_normalized|::to_normalized|::as_normalized|::clone_normalized|::normalize$|::into_mut', floor=8))
        ctx.guard("C15", "generic consts", lambda: summary.check_consts(ctx, prog, floor=13))
        ctx.guard("C15", "path summaries", lambda: summary.check_paths(ctx, prog, 'core::convert::|::to_long_form|::from_short_form|::to_raw_form|::from_raw_form|::from_normalized|::to_normalized|::as_normalized|::clone_normalized|::normalize$|::into_mut', floor=0))
        if c in ("dbg", "unsafe_dbg", "strict_dbg"):
            ctx.guard("C15", "beliefs", lambda: beliefs.census(ctx, prog, beliefs.SCOPES["C15"][0], floor=beliefs.SCOPES["C15"][1]))
    return ctx.finish(EXPL, ["copy_from_slice/fill/clone_from_slice have their documented meaning", "source objects are valid (their own tail is zero)"])
