"""Write census over the invariant-carrying types, and the SA-FIELDS / SA-TAIL rules built on it."""
import re
from ..sym import Sym, strip, show, canon, fpath, const_value, lin
from ..mir import callee_of, pl

HASH_TYPES = ("internals::hash::FuzzyHashData", "internals::hash_dual::FuzzyHashDualData",
              "internals::compare::FuzzyHashCompareTarget", "internals::compare::position_array::BlockHashPositionArray")
MUTATORS = ("copy_from_slice", "clone_from_slice", "fill")


class Write:
    __slots__ = ("root", "owner", "field", "rng", "kind", "src", "blk", "sp", "callee")

    def __init__(self, root, owner, field, rng, kind, src, blk, sp, callee=None):
        self.root, self.owner, self.field, self.rng, self.kind, self.src, self.blk, self.sp, self.callee = root, owner, field, rng, kind, src, blk, sp, callee

    def __repr__(self):
        return "W(%s.%s%s %s %s)" % (self.root, self.field, "" if self.rng is None else "[%s..%s]" % self.rng, self.kind, show(self.src) if isinstance(self.src, tuple) else self.src)


def range_of(e):
    e = strip(e)
    if e[0] == "agg":
        n = e[1].split("::")[-1]
        if n == "Range" and len(e[2]) == 2:
            return (e[2][0], e[2][1])
        if n == "RangeTo" and len(e[2]) == 1:
            return (("const", 0, None, "usize"), e[2][0])
        if n == "RangeFrom" and len(e[2]) == 1:
            return (e[2][0], None)
        if n == "RangeFull":
            return (("const", 0, None, "usize"), None)
    return "?"


def slice_expr(e):
    """(place_expr, range|None) of a slice/array reference expression; range None = whole"""
    e = strip(e)
    if e[0] == "call" and len(e[2]) == 2 and e[1].split("::")[-1] in ("index_mut", "index"):
        base, rg = slice_expr(e[2][0])
        r = range_of(e[2][1])
        if rg is None:
            return base, r
        return base, "?"
    if e[0] == "call" and len(e[2]) == 1 and e[1].split("::")[-1] in ("as_mut_slice", "as_slice", "as_mut", "as_ref", "deref_mut", "deref"):
        return slice_expr(e[2][0])
    return e, None


def owner_field(e):
    """if place expr is field F of a hash-typed object: (root_expr, owner, F, rest) else None"""
    e = strip(e)
    chain = []
    while True:
        if e[0] == "field":
            chain.append(e)
            e = e[1]
        elif e[0] in ("ref", "deref", "cast"):
            e = e[1]
        elif e[0] == "downcast":
            e = e[1]
        else:
            break
    for fe in reversed(chain):
        if len(fe) > 3 and fe[3] in HASH_TYPES:
            return strip_ref(fe[1]), fe[3], fe[2]
    return None


def strip_ref(e):
    while e[0] in ("ref", "deref"):
        e = e[1]
    return e


def root_key(e):
    e = strip_ref(e)
    if e[0] == "param":
        return "param:%s" % (e[2] or e[1])
    if e[0] == "local":
        return "local:%s_%d" % (e[2] or "", e[1])
    return canon(e)


def census(f, sy=None):
    """all writes to fields of hash-typed objects performed by f itself, and &mut hand-offs of such fields"""
    sy = sy or Sym(f)
    out = []
    for i, j, s in f.stmts():
        if s["s"] != "assign":
            continue
        lhs = s["lhs"]
        fl = [e for e in lhs["p"] if isinstance(e, dict) and "f" in e and e.get("of") in HASH_TYPES]
        if fl:
            e = fl[0]
            # root: local + projections before the field
            k = lhs["p"].index(e)
            rootpl = {"l": lhs["l"], "p": lhs["p"][:k]}
            root = sy.place(rootpl)
            rest = lhs["p"][k + 1:]
            rng = None
            if rest:
                ix = [x for x in rest if isinstance(x, dict) and ("ix" in x or "cix" in x)]
                if ix and "ix" in ix[0]:
                    ie = sy.local(ix[0]["ix"])
                    rng = (ie, ("bin", "Add", ie, ("const", 1, None, "usize")))
                elif ix:
                    c = ("const", ix[0]["cix"], None, "usize")
                    rng = (c, ("const", ix[0]["cix"] + 1, None, "usize"))
                else:
                    rng = "?"
            out.append(Write(root_key(root), e["of"], e["n"], rng, "assign", sy.rvalue(s["rv"]), i, s["sp"]))
        elif not lhs["p"] or lhs["p"] == ["*"]:
            # whole-object store: aggregate of a hash type, or *dest = value
            r = s["rv"]
            ty = f.locals[lhs["l"]]["ty"]
            if r["r"] == "agg" and r["kind"].get("adt") in HASH_TYPES:
                root = sy.place(lhs)
                for nm, o in zip(r["kind"]["fields"], r["ops"]):
                    out.append(Write(root_key(root) if lhs["p"] else "local:%s_%d" % (f.locals[lhs["l"]]["name"], lhs["l"]), r["kind"]["adt"], nm, None, "aggregate", sy.operand(o), i, s["sp"]))
            elif lhs["p"] == ["*"] and any(ty.startswith("&mut " + h) for h in HASH_TYPES):
                out.append(Write(root_key(sy.place({"l": lhs["l"], "p": []})), ty[5:].split("<")[0], "*", None, "assign-whole", sy.rvalue(r), i, s["sp"]))
    for i, t in f.calls():
        c = callee_of(t)
        for k, a in enumerate(t["args"]):
            if a["k"] not in ("copy", "move"):
                continue
            aty = a["pl"]["ty"]
            if not aty.startswith("&mut"):
                continue
            e = sy.operand(a)
            base, rng = slice_expr(e)
            of = owner_field(base)
            if of is None:
                continue
            root, owner, fld = of
            nm = c.split("::")[-1]
            if nm in MUTATORS and k == 0:
                src = sy.operand(t["args"][1]) if len(t["args"]) > 1 else None
                out.append(Write(root_key(root), owner, fld, rng, nm, src, i, t["sp"]))
            else:
                out.append(Write(root_key(root), owner, fld, rng, "handoff", None, i, t["sp"], callee=c))
    return out


def cval(e):
    """integer value of a (possibly named) constant expression, or of S1/S2-like const generics (None)"""
    if e is None:
        return None
    return const_value(e)


def covers_whole(ws, n_known=None):
    """do the writes `ws` (same field) cover [0,N)?  whole-field write, or ranges chaining 0 -> end"""
    if any(w.rng is None for w in ws):
        return True
    segs = []
    for w in ws:
        if w.rng == "?" or w.rng is None:
            continue
        a, b = w.rng
        segs.append((canon(strip(a)), None if b is None else canon(strip(b)), cval(a), cval(b) if b is not None else None))
    # chain from 0
    cur_txt = None
    cur_val = 0
    progressed = True
    used = set()
    while progressed:
        progressed = False
        for k, (at, bt, av, bv) in enumerate(segs):
            if k in used:
                continue
            starts_here = (av is not None and cur_val is not None and av <= cur_val) or (cur_txt is not None and at == cur_txt)
            if starts_here:
                used.add(k)
                if bt is None and bv is None:
                    return True
                cur_txt, cur_val = bt, bv
                if n_known is not None and bv is not None and bv >= n_known:
                    return True
                progressed = True
    return False
