"""C11 — no safe operation yields an invalid hash object (the structural clauses; widest check)."""
from ..rules import rle, validate, tail, fields, eqord, vis, panic, parser, typestate, witness, normal, convert, casts, summary, beliefs, blocksize, data

EXPL = ("Decides: SA-VIS: the representation of all hash/target/generator types is private, no exported safe function hands out &mut "
        "into it, accumulating initialisers/views/encoders/_internal functions are not exported, exported *_unchecked are unsafe - so "
        "the writers found by the census are all writers; SA-VALIDATE: on the call chain of every exported safe constructor taking raw "
        "internals, each debug-only belief (debug_assert!/invariant!) over caller-supplied data or the object under construction has a "
        "release-live twin on the same operands (F2, fixed, violated this); SA-FIELDS/SA-TAIL: every writer of block-hash storage "
        "defines the whole destination (arrays wholly, or fresh+prefix, or cleared from the stored length) and RLE blocks are only "
        "written canonically; SA-TYPESTATE: comparison-target masks are cleared before accumulation at every call site; SA-PANIC: "
        "SA-GUARD/SA-ERRPURE: the in-place narrowing conversion fails exactly when block hash 2 does not fit and has not written "
        "the destination when it fails (a half-written destination is an invalid object); SA-PANIC: is_valid / full_eq / Debug for all object kinds have no undischarged panic edge for ANY content (object invariants are not "
        "assumed except on the `if self.is_valid()` arm); parsing is total (shared with C04). NOT decided: that every value written "
        "is the right one (e.g. symbol range of generator output relies on its prefix argument; stated exception in SA-TAIL).")


def run(ctx):
    cfgs = ["rel", "dbg"] if ctx.tier == "quick" else ["rel", "dbg", "strict", "unsafe", "unchecked", "nodef"]
    ctx.progs(cfgs)  # build all configurations in parallel
    for c in cfgs:
        prog = ctx.prog(c)
        if c in ("dbg",):
            # beliefs are evaluated (visible) only with debug assertions on
            ctx.guard("C11", "validate", lambda: validate.constructors(ctx, prog))
            ctx.guard("C11", "beliefs", lambda: beliefs.census(ctx, prog, beliefs.SCOPES["C11"][0], floor=beliefs.SCOPES["C11"][1]))
            continue
        ctx.guard("C11", "vis", lambda: vis.representation_private(ctx, prog))
        ctx.guard("C11", "validator", lambda: normal.validator_content(ctx, prog))
        ctx.guard("C11", "validator-outcomes", lambda: normal.validator_outcomes(ctx, prog))
        ctx.guard("C11", "run-counters", lambda: normal.run_counters(ctx, prog, ("validator",)))
        ctx.guard("C11", "writers", lambda: tail.classify_writers(ctx, prog))
        ctx.guard("C11", "tail-n", lambda: tail.normalize_in_place(ctx, prog))
        ctx.guard("C11", "tail-c", lambda: tail.compress_expand(ctx, prog))
        ctx.guard("C11", "rle", lambda: tail.rle_write_census(ctx, prog))
        ctx.guard("C11", "complete", lambda: fields.dest_complete(ctx, prog))
        ctx.guard("C11", "like", lambda: fields.like_index(ctx, prog))
        ctx.guard("C11", "sym", lambda: eqord.len_index_symmetry(ctx, prog))
        ctx.guard("C11", "typestate", lambda: typestate.clear_before_accumulate(ctx, prog))
        ctx.guard("C11", "lenmask", lambda: typestate.length_follows_masks(ctx, prog))
        ctx.guard("C11", "validcontent", lambda: typestate.valid_content(ctx, prog))
        ctx.guard("C11", "sequences", lambda: typestate.sequences_exact(ctx, prog))
        ctx.guard("C11", "total-valid", lambda: panic.totality_of_validity(ctx, prog))
        ctx.guard("C11", "total-parse", lambda: parser.totality(ctx, prog))
        ctx.guard("C11", "fresh", lambda: parser.symbol_store(ctx, prog))
        ctx.guard("C11", "narrow", lambda: convert.narrowing(ctx, prog))
        ctx.guard("C11", "panic-pure", lambda: validate.panic_purity(ctx, prog))
        ctx.guard("C11", "rle-validator", lambda: rle.validator_refusals(ctx, prog))
        ctx.guard("C11", "full-eq", lambda: eqord.full_eq(ctx, prog))
        ctx.guard("C11", "traits", lambda: vis.trait_census(ctx, prog, scope=None))
        ctx.guard("C11", "casts", lambda: casts.census(ctx, prog, scope=None, floor=15))
        ctx.guard("C11", "bs-conversions", lambda: blocksize.log_conversions(ctx, prog))
        ctx.guard("C11", "bs-tables", lambda: data.block_size_tables(ctx, prog))
        ctx.guard("C11", "const values", lambda: data.const_census(ctx, prog, data.CONST_SCOPES["C11"], floor=1))
        ctx.guard("C11", "panic conditions", lambda: beliefs.live_census(ctx, prog, beliefs.SCOPES["C11"][0]))
        ctx.guard("C11", "element-asserts", lambda: validate.element_range_asserts(ctx, prog))
        ctx.guard("C11", "normalize-step", lambda: normal.normalize_step(ctx, prog))
        ctx.guard("C11", "initialisers", lambda: typestate.initialisers_complete(ctx, prog))
        ctx.guard("C11", "summaries", lambda: summary.check(ctx, prog, r'internals::(hash|hash_dual|compare|utils)::(?!.*(Windows|compare_easy))', floor=50))
        ctx.guard("C11", "generic consts", lambda: summary.check_consts(ctx, prog, floor=13))
        ctx.guard("C11", "path summaries", lambda: summary.check_paths(ctx, prog, r'internals::(hash|hash_dual|compare|utils)::(?!.*(Windows|compare_easy))', floor=39))
    if ctx.tier == "thorough":
        ctx.cfg = "witness"
        ctx.guard("C11", "witness", lambda: witness.run(ctx, "witness", ["W1", "W2", "W3", "W4", "W6", "W7", "W8"]))
        ctx.guard("C11", "witness-u", lambda: witness.run(ctx, "witness_unchecked", ["U1", "U2", "U3"]))
    return ctx.finish(EXPL, ["Generator::finalize_raw_internal's sz/sz+1 bookkeeping is a stated exception of SA-TAIL", "core APIs panic only as documented"])
