#!/bin/sh
# Build the fact extractor offline (zero dependencies; nightly toolchain with rustc-dev).
set -e
cd "$(dirname "$0")/driver"
CARGO_NET_OFFLINE=true cargo build --release --offline
test -x target/release/ffz-mir
mkdir -p ../.work ../evidence
echo "setup ok"
