"""SA-SUMMARY: branch-free functions keep the value they had on the reviewed tree.

About a third of the crate's bodies are accessors, thin delegators and constructors without a single branch: their whole meaning is
one resolved def-use expression (plus, for a few, a list of stores / `&mut` hand-offs).  That normal form - temporaries inlined,
callees resolved, parameters by position, user locals numbered by first appearance - is recorded for the reviewed tree in
sa/ref_summaries.json and compared on every run.  It is not a text match: renaming, re-ordering of independent statements,
explaining variables and inlined helpers leave it unchanged; returning another field, swapping two arguments of a delegated call,
dropping a store or adding a branch changes it.  Functions that gain a branch are reported as `no longer branch-free`."""
import json
import os
import re

R = "SA-SUMMARY"
# formatting glue (argument order of `write!` is syntax, not behaviour) is left to the dedicated rules
EXCLUDE = re.compile(r"::fmt$|FromStr>::from_str$")
_REF = None


def straight(f):
    for i in f.live:
        t = f.blocks[i]["term"]
        if t["t"] == "switch" and len(set(f.lsuccs(i))) > 1:
            return False
        if t["t"] == "assert":
            pass
    # no loops
    try:
        order = f.rpo()
        pos = {b: k for k, b in enumerate(order)}
        for b in order:
            for s in f.lsuccs(b):
                if pos.get(s, 1 << 30) <= pos[b]:
                    return False
    except Exception:
        return False
    return True


def summary(f):
    from .features import effect_canon
    lines = effect_canon(f, cells=True)
    # whole-variable assignments are not effects: a variable assigned once is replaced by its value wherever it is used
    stores = {}
    for l in lines:
        m = re.match(r"^STORE (local:\w+) = (.*)$", l)
        if m:
            stores.setdefault(m.group(1), []).append(m.group(2))
    single = {k: v[0] for k, v in stores.items() if len(v) == 1 and k != "local:ret"}
    out = []
    for l in lines:
        m = re.match(r"^STORE (local:\w+) = ", l)
        if m and m.group(1) in single:
            continue
        out.append(l)
    for _ in range(4):
        changed = False
        for k, v in single.items():
            rx = re.compile(re.escape(k) + r"(?!\w)")
            new_out = [rx.sub(lambda _m: "(%s)" % v, l) for l in out]
            if new_out != out:
                out, changed = new_out, True
        if not changed:
            break
    lines = out
    names = {}

    def L(m):
        k = m.group(1)
        if k not in names:
            names[k] = "v%d" % len(names)
        return "local:" + names[k]
    return [re.sub(r"local:(\w+)", L, l) for l in lines]


def ref():
    global _REF
    if _REF is None:
        try:
            with open(os.path.join(os.path.dirname(os.path.dirname(os.path.abspath(__file__))), "ref_summaries.json")) as fh:
                _REF = json.load(fh)
        except OSError:
            _REF = {}
    return _REF


def check(ctx, prog, scope, floor=1):
    ctx.rule(R, "branch-free bodies (accessors, delegators, constructors) have the normal form - returned expression, stores, `&mut` hand-offs, with resolved callees and positional parameters - recorded for the reviewed tree")
    rx = re.compile(scope)
    refs = ref()
    n = 0
    for path, fs in sorted(prog.by_path.items()):
        if not rx.search(path) or len(fs) != 1:
            continue
        key = "%s|%s" % (path, "*")
        ent = refs.get(path, {})
        want = ent.get(prog.cfg)
        if want is None and "*" in ent and prog.cfg in ent.get("in", []):
            want = ent["*"]
        if want is None:
            continue
        f = fs[0]
        n += 1
        if (prog.cfg, f.path) in ctx.analysed["functions"]:
            continue   # a dedicated rule of this check already reads this body: the normal form adds nothing there
        if EXCLUDE.search(path):
            continue
        ctx.visit(f)
        if not straight(f):
            ctx.ob(R, "%s is branch-free and has its reviewed value" % f.short, False, "no longer branch-free", f.loc())
            continue
        got = summary(f)
        # values are def-use expressions, so the ORDER of independent effects carries no information: compare as multisets
        ok = sorted(got) == sorted(want)
        why = "%d effect line(s)" % len(got)
        if not ok:
            for k, (a, b) in enumerate(zip(sorted(got), sorted(want))):
                if a != b:
                    why = "line %d: `%s` (reviewed: `%s`)" % (k, a[:140], b[:140])
                    break
            else:
                why = "%d lines, reviewed %d: %s" % (len(got), len(want), (got[len(want):] or want[len(got):])[:2])
        ctx.ob(R, "%s is branch-free and has its reviewed value" % f.short, ok, why, f.loc())
    ctx.floor(R, n, floor, "branch-free bodies in scope")
