"""SA-BELIEF: debug-only beliefs (`debug_assert!`, and `invariant!` which is a `debug_assert!` when debug assertions are on) are part
of the behaviour of a debug build: a belief that is false for some in-contract input makes the debug build panic where the release
build answers.  Their truth is a statement about run-time values and is not decided here.  What is decided: the population of
beliefs is the reviewed one.  Each site of today's tree was read once (caller contracts of `_internal` bodies, object invariants of
validated types, loop bounds; the `invariant!` ones are in addition paired with run-time checks by SA-INVPAIR).  A site beyond that
population is accepted only when the analysis can discharge it:
  (a) a later run-time check of the same function fails exactly when it is false (the pairing of SA-INVPAIR),
  (b) a live (release) branch that dominates it already established the same predicate,
  (c) it repeats, on the operands handed over, a belief of a crate function it calls (hoisting a callee's belief),
  (d) it is the negation-free copy of a release-live `assert!` of the same function.
Anything else is reported as an unreviewed debug-only belief.  Removing a belief never alarms."""
import json, os, re
from collections import Counter
from ..sym import Sym, strip, canon, show, path_conds, bool_atom
from ..mir import callee_of
from . import validate

R = "SA-BELIEF"
_REF = None
CONFIGS = ("dbg", "unsafe_dbg", "strict_dbg")
# property -> (functions whose beliefs are part of the behaviour the property speaks about, floor = half of the counted sites:
# removing a belief is behaviour-preserving and must not alarm; the floor only guards against a vacuous pass)
SCOPES = {
    "C01": (r"internals::generate", 12), "C03": (r"internals::generate", 12), "C12": (r"internals::generate", 12),
    "C13": (r"internals::generate", 12), "C18": (r"internals::generate", 12), "C19": (r"internals::generate::hashes", 1),
    "C02": (r"internals::compare|compare_easy|block_size::|block_hash::", 26), "C10": (r"internals::compare|compare_easy|block_size::|block_hash::", 26),
    "C17": (r"internals::compare", 20), "C20": (r"block_size::|internals::compare::FuzzyHashCompareTarget", 14),
    "C04": (r"internals::hash::|internals::hash_dual::", 46), "C05": (r"internals::hash::", 29), "C06": (r"internals::hash::|internals::hash_dual::", 46),
    "C07": (r"internals::hash_dual::|internals::hash::algorithms", 22), "C11": (r"internals::(hash|hash_dual|compare)::", 65),
    "C15": (r"internals::(hash|hash_dual)::", 46), "C16": (r"internals::(hash|hash_dual)::", 46),
}


def fn_key(path):
    return re.sub(r"\{closure#\d+\}", "{closure}", path)


def pred_key(prog, e, truth):
    t = validate.closure_canon(prog, e)
    t = re.sub(r"local:\w+", "local", t)
    return ("" if truth else "!") + t


def sites(prog, f):
    sy = Sym(f)
    out = []
    for kind, e, truth, sp in validate.guards_of(f, sy):
        if kind == "belief":
            out.append((pred_key(prog, e, truth), e, truth, sp))
    return sy, out


def population(prog, scope=None):
    pop = {}
    for f in prog.fns:
        if f.derived or (scope is not None and not scope.search(f.path)):
            continue
        try:
            _, ss = sites(prog, f)
        except RecursionError:
            continue
        for k, e, truth, sp in ss:
            pop.setdefault(fn_key(f.path), Counter())[k] += 1
    return pop


def _block_of(f, sp):
    from ..mir import is_panic_call
    for i in f.live:
        t = f.blocks[i]["term"]
        if is_panic_call(t) and t["sp"] is sp:
            return i
    return None


def _discharge(prog, f, sy, e, truth, sp):
    from .features import pair_with_runtime_check
    pb = _block_of(f, sp)
    if pb is None:
        return None
    # the switch block in front of the panic arm
    sw = [i for i in sorted(f.live) if pb in f.lsuccs(i) and f.blocks[i]["term"]["t"] == "switch"]
    if not sw:
        return None
    blk = sw[0]
    want = validate.closure_canon(prog, e)
    if truth:
        try:
            w = pair_with_runtime_check(prog, f, sy, blk, e)
        except Exception:
            w = None
        if w:
            return "subsumed by " + w
    # (b) a dominating live branch on the same predicate with the same outcome
    for c in path_conds(f, sy, blk):
        if len(c) > 3:
            from .summary import _belief_edge
            if _belief_edge(f, c[3][0]):
                continue
        a = bool_atom(c)
        if a is None:
            continue
        if a[0] == "truth":
            if validate.closure_canon(prog, validate.expand_cells(sy, a[1])) == want and a[2] == truth:
                return "established by a dominating live branch"
        else:
            t = canon(("bin", a[0], a[1], a[2]))
            if truth and t == canon(strip(e)):
                return "established by a dominating live branch"
    # (d) a release-live assert! of the same function on the same predicate
    for kind, e2, t2, sp2 in validate.guards_of(f, sy):
        if kind == "live" and t2 == truth and validate.closure_canon(prog, e2) == want:
            return "repeats a release-live assert! of the same function"
    # (c) a callee's belief on the operands handed over
    for i, t in f.calls():
        g = prog.get(callee_of(t))
        if g is None or g.path == f.path:
            continue
        try:
            gsy, gs = sites(prog, g)
        except RecursionError:
            continue
        if not gs:
            continue
        args = [sy.operand(a) for a in t["args"]]
        pm = {k + 1: a for k, a in enumerate(args)}
        for k, ge, gt, gsp in gs:
            if gt == truth and validate.closure_canon(prog, validate.subst(ge, pm)) == want:
                return "repeats the belief of callee %s on the operands handed over" % g.short.split("::")[-1]
    return None


def census(ctx, prog, scope=None, floor=0):
    global _REF
    if _REF is None:
        try:
            with open(os.path.join(os.path.dirname(os.path.dirname(os.path.abspath(__file__))), "ref_beliefs.json")) as fh:
                _REF = json.load(fh)
        except OSError:
            _REF = {}
    ctx.rule(R, "debug-only beliefs (debug_assert!/invariant! conditions, read in a configuration with debug assertions on): every site belongs to the population read on the reviewed tree (keyed by function and normal form of the predicate, local names ignored), or is discharged by a later run-time check of the same function, a dominating release-live branch or assert! on the same predicate, or the same belief of a callee on the operands handed over; otherwise it is reported as an unreviewed belief (debug builds would panic, `unsafe` builds would be undefined, where it is false)")
    ref = _REF.get(prog.cfg)
    if ref is None:
        ctx.ob(R, "reference population for configuration %s" % prog.cfg, False, "no reference recorded", "sa/ref_beliefs.json")
        return
    rx = re.compile(scope) if scope else None
    n = 0
    seen = {}
    for f in prog.fns:
        if f.derived or (rx is not None and not rx.search(f.path)):
            continue
        try:
            sy, ss = sites(prog, f)
        except RecursionError:
            continue
        if not ss:
            continue
        fk = fn_key(f.path)
        have = seen.setdefault(fk, Counter())
        for k, e, truth, sp in ss:
            n += 1
            have[k] += 1
            if have[k] <= ref.get(fk, {}).get(k, 0):
                ctx.ob(R, "%s: belief %s is in the reviewed population" % (f.short, k[:120]), True, "reviewed", f.loc(sp))
                continue
            why = _discharge(prog, f, sy, e, truth, sp)
            ctx.ob(R, "%s: belief %s%s is reviewed or discharged" % (f.short, "" if truth else "!", re.sub(r"_\d+\b", "", show(e))[:140]), why is not None,
                   why or "a debug-only belief that is not in the reviewed population and that no run-time check, dominating branch, assert! or callee belief establishes: if it is false for some in-contract input, debug builds panic (and `unsafe` builds are undefined) where the release build answers",
                   f.loc(sp))
    ctx.floor(R, n, floor, "belief sites%s" % ("" if scope is None else " in scope"))
