#!/usr/bin/env python3
"""dev helper: behaviour-preserving edits must not raise an alarm.
usage: tools_benign.py locals <relpath> [name ...]   rename let-bound / closure / for-bound names in that file (all eligible, or the given ones)
       tools_benign.py edit <relpath> <old> <new>    textual edit claimed to be behaviour preserving
Applies the edit to /repo, compiles (default, unsafe, strict-parser, unchecked), runs every claimed quick check with the fact cache, reverts."""
import json, os, re, subprocess, sys
TIER = "quick"
if "--thorough" in sys.argv:
    sys.argv.remove("--thorough")
    TIER = "thorough"
mode, rel = sys.argv[1], sys.argv[2]
p = os.path.join("/repo", rel)
src = open(p).read()
KEYWORDS = set("self Self super crate mut ref as in if else match loop while for let fn pub use mod impl trait struct enum const static type where unsafe move return break continue true false dyn".split())


def eligible(body):
    names = set()
    for m in re.finditer(r"\blet\s+(?:mut\s+)?([a-z_][a-z0-9_]*)\b", body):
        names.add(m.group(1))
    for m in re.finditer(r"\bfor\s+(?:&)?(?:mut\s+)?([a-z_][a-z0-9_]*)\s+in\b", body):
        names.add(m.group(1))
    out = []
    for n in sorted(names):
        if n in KEYWORDS or n == "_" or len(n) < 2 and n not in ("i", "h"):
            continue
        bad = False
        for m in re.finditer(r"\b%s\b" % re.escape(n), body):
            a, b = m.start(), m.end()
            pre = body[max(0, a - 2):a]
            post = body[b:b + 2]
            if pre.endswith(".") and not pre.endswith(".."):
                bad = True   # used as a field / method name
            if post.startswith("(") or (post.startswith("!") and not post.startswith("!=")) or post.startswith("::"):
                bad = True   # a function / macro / path with the same name
            if re.match(r"\s*:[^:]", body[b:b + 3]) and not re.search(r"(let\s+(mut\s+)?|\|\s*|,\s*|\(\s*)$", body[max(0, a - 12):a]):
                bad = True   # struct field initialiser `name: value`
        # doc comments / strings mentioning the name are harmless
        if not bad:
            out.append(n)
    return out


# split off the test module (keep untouched)
cut = src.find("#[cfg(test)]")
if mode == "locals":
    body = src
    names = sys.argv[3:] or eligible(re.sub(r"//[^\n]*", "", body))
    new = body
    for n in names:
        def rep(m, n=n):
            a = m.start()
            if a >= 1 and m.string[a - 1] == "." and not (a >= 2 and m.string[a - 2] == "."):
                return m.group(0)
            return n + "_q"
        new = re.sub(r"(?<!\w)%s\b(?!\s*\(|!(?!=)|::)" % re.escape(n), rep, new)
    print("renaming %d names in %s: %s" % (len(names), rel, " ".join(names)))
else:
    old, rep = sys.argv[3], sys.argv[4]
    assert src.count(old) == 1, "pattern occurs %d times" % src.count(old)
    new = src.replace(old, rep)
try:
    open(p, "w").write(new)
    okc = True
    for feats in ([], ["--features", "unsafe"], ["--features", "strict-parser"], ["--features", "unchecked"], ["--features", "opt-reduce-fnv-table"], ["--no-default-features"]):
        r = subprocess.run(["cargo", "check", "--offline", "-q", "-p", "ffuzzy", "--lib"] + feats, cwd="/repo", capture_output=True, text=True)
        if r.returncode != 0:
            print("DOES NOT COMPILE with", feats, "\n" + "\n".join(l for l in r.stderr.splitlines() if l.startswith("error") or "-->" in l)[:1500])
            okc = False
            break
    if okc:
        env = dict(os.environ, VERIF_FACT_CACHE="1", VERIF_EVIDENCE_DIR="/verif/.work/benign-evidence")
        os.makedirs(env["VERIF_EVIDENCE_DIR"], exist_ok=True)
        m = json.load(open("/verif/MANIFEST.json"))
        bad = 0
        for c in m["checks"]:
            pid = c["property_id"]
            r = subprocess.run(["./check", pid, "--tier", TIER], cwd="/verif", capture_output=True, text=True, env=env)
            if r.returncode != 0:
                bad += 1
                print("== %s ALARM" % pid)
                print("\n".join(l[:330] for l in r.stdout.splitlines() if "VIOLATION" not in l)[-2500:])
                if r.stderr:
                    print(r.stderr[-800:])
        print("RESULT: %d alarms" % bad)
finally:
    subprocess.run(["git", "-C", "/repo", "checkout", "--", rel])
