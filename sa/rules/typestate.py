"""SA-TYPESTATE: occupancy masks are cleared (or fresh) before they are OR-accumulated (C17, C11).

Effects are inferred from bodies, not names:
  accumulator  = a body that does `m[i] = m[i] | ..` on an array obtained from `representation_mut(self)` with no
                 dominating whole-array `fill(0)` of it;
  clearer      = a body that fills the whole `representation_mut(self)` with 0 on every path;
  requires-zero= accumulators, and (by propagation) non-exported functions that call a requires-zero function on a
                 location rooted in their own `self` without clearing it first.
Obligation: at every call site of a requires-zero function the location is Zero: cleared on every incoming path by a
dominating clearer call on the same location, or a fresh object (`new()` whose aggregate is all-zero) not yet accumulated."""
import re
from ..sym import Sym, strip, show, canon, fpath, const_value, walk
from ..mir import callee_of, pl

R = "SA-TYPESTATE"


def loc_canon(e):
    """canonical text of a receiver location, ignoring call sites (two `block_hash_1_mut(self)` calls denote the same masks)"""
    e = strip(e)
    if e[0] == "call":
        return "%s(%s)" % (e[1], ",".join(loc_canon(a) for a in e[2]))
    if e[0] in ("ref", "deref"):
        return loc_canon(e[1])
    return canon(e)


def is_repr_mut_of_self(e):
    e = strip(e)
    return e[0] == "call" and e[1].endswith("representation_mut") and e[2] and strip(e[2][0])[0] == "param" and strip(e[2][0])[1] == 1


def body_effects(f):
    """('acc'|'clear'|None) for a `&mut self` body wrt. representation_mut(self)"""
    sy = Sym(f)
    fills = []
    for i, t in f.calls():
        if callee_of(t).split("::")[-1] == "fill" and len(t["args"]) == 2:
            dst = sy.operand(t["args"][0])
            if is_repr_mut_of_self(dst) and const_value(sy.operand(t["args"][1])) == 0:
                fills.append(i)
    # the same clearing written as a loop: `for m in self.representation_mut().iter_mut() { *m = 0 }` - every element the iterator
    # yields is overwritten with 0 before the next one is taken, and the loop ends only when the iterator does
    for nb, nt in f.calls():
        if not callee_of(nt).endswith("::next") or not nt["args"]:
            continue
        src = strip(sy.origin(strip(sy.operand(nt["args"][0]))))
        while src[0] == "call" and src[1].split("::")[-1] in ("into_iter", "iter_mut") and src[2]:
            inner = strip(src[2][0])
            if src[1].split("::")[-1] == "iter_mut" and (is_repr_mut_of_self(inner) or (inner[0] == "cast" and is_repr_mut_of_self(inner[1]))):
                src = ("ok",)
                break
            src = strip(sy.origin(inner)) if inner[0] in ("local", "ref") else inner
        if src != ("ok",):
            continue
        latches = [b for b in f.live if nb in f.lsuccs(b) and f.dominates(nb, b)]
        zero = []
        for i, j, s in f.stmts():
            if s["s"] == "assign" and s["lhs"]["p"] and s["rv"]["r"] == "use" and const_value(sy.operand(s["rv"]["a"])) == 0:
                tgt = canon(strip(sy.place(s["lhs"])))
                if re.search(r"Iterator>?::next\(", tgt):
                    zero.append(i)
        if latches and zero and all(any(f.dominates(z, b) for z in zero) for b in latches):
            fills.append(nb)
    accs = []
    for i, j, s in f.stmts():
        if s["s"] != "assign":
            continue
        lhs = s["lhs"]
        if not any(isinstance(e, dict) and "ix" in e for e in lhs["p"]):
            continue
        r = s["rv"]
        if r["r"] == "bin" and r["op"] == "BitOr":
            base = sy.place({"l": lhs["l"], "p": [e for e in lhs["p"] if not (isinstance(e, dict) and "ix" in e)]})
            if is_repr_mut_of_self(base):
                accs.append(i)
    if accs and not any(all(f.dominates(fb, a) for a in accs) for fb in fills):
        return "acc"
    if fills and any(all(f.dominates(fb, r) for r in f.return_blocks()) for fb in fills):
        return "clear"
    return None


def zero_ctor(prog, path):
    """a `new()` whose returned aggregate has an all-zero mask array(s)"""
    g = prog.get(path)
    if g is None:
        return False
    sy = Sym(g)
    e = sy.local(0)
    if e[0] != "agg":
        return False
    ok = False
    for o in e[2]:
        o = strip(o)
        if o[0] == "repeat":
            if const_value(o[1]) != 0:
                return False
            ok = True
    return ok


def clear_before_accumulate(ctx, prog):
    ctx.rule(R, "typestate Zero/Unknown on the occupancy-mask arrays (effects inferred from bodies): every call of a function whose first effect on the masks is OR-accumulation happens where the masks are Zero - cleared by a dominating whole-array fill(0) on the same location, or fresh from an all-zero constructor - on every incoming path; functions that pass the requirement on to their callers are not exported")
    eff = {}
    for f in prog.fns:
        if f.argc >= 1 and f.locals[1]["ty"].startswith("&mut") and ("position_array" in f.path or "FuzzyHashCompareTarget" in f.path):
            e = body_effects(f)
            if e:
                eff[f.path] = e
                ctx.visit(f)   # classified from its whole body (every store to the masks / every fill)
    accs = [p for p, e in eff.items() if e == "acc"]
    clears = [p for p, e in eff.items() if e == "clear"]
    ctx.ob(R, "an accumulating initialiser and a mask clearer exist (inferred from bodies)", bool(accs) and bool(clears),
           "accumulators: %s; clearers: %s" % ([a.split("::")[-1] for a in accs], [c.split("::")[-1] for c in clears]))

    def norm_item(p):
        # `<T as Trait>::m` and `Trait::m` name the same trait item
        import re as _re
        m = _re.match(r"^<[^>]* as (.*)>::([A-Za-z0-9_]+)$", p)
        return "%s::%s" % (m.group(1), m.group(2)) if m else p

    def matches(callee, paths):
        return any(callee == p or norm_item(callee) == norm_item(p) for p in paths)
    # requires-zero: (function path) -> set of location suffixes relative to self ('' for self itself, or 'block_hash_K_mut')
    rz = {p: {""} for p in accs}
    sites = []
    changed = True
    rounds = 0
    while changed and rounds < 6:
        changed = False
        rounds += 1
        sites = []
        for g in prog.fns:
            gs = None
            for i, t in g.calls():
                c = callee_of(t)
                hit = [p for p in rz if matches(c, [p])]
                if not hit or not t["args"]:
                    continue
                if gs is None:
                    gs = Sym(g)
                recv = recv_loc(gs, t["args"][0])
                need = rz[hit[0]]
                # locations required zero, in g's frame
                locs = []
                for suf in need:
                    if suf == "":
                        locs.append(loc_canon(recv))
                    else:
                        locs.append("%s(%s)" % (suf, loc_canon(recv)))
                for L in locs:
                    status, why = location_zero(prog, g, gs, i, L, clears, matches, rz)
                    sites.append((g, i, t, L, status, why))
                    if status == "propagate":
                        # g requires zero of (a part of) its own self
                        suf = L_suffix(L)
                        if suf is not None and suf not in rz.get(g.path, set()):
                            rz.setdefault(g.path, set()).add(suf)
                            changed = True
    n = 0
    for g, i, t, L, status, why in sites:
        n += 1
        ctx.visit(g)
        key = "%s: masks %s are Zero before %s" % (g.short, L.replace("internals::compare::", "")[:90], callee_of(t).split("::")[-1])
        if status == "propagate":
            ctx.ob(R, key + " (requirement passed to callers)", not g.exported, "function requires Zero at entry and is %sexported" % ("" if g.exported else "not "), g.loc(t["sp"]))
        else:
            ctx.ob(R, key, status == "zero", why, g.loc(t["sp"]))
    ctx.floor(R, n, 8, "call sites of accumulate-first functions")


def recv_loc(gs, operand):
    """receiver location: a view-creating call (`block_hash_1_mut(self)`) is looked through; plain objects keep their identity"""
    e = gs.operand(operand)
    o = gs.origin(e)
    if o[0] == "call" and o[2]:
        return o
    return e


def L_suffix(L):
    """location relative to the function's own self: '' / 'path::block_hash_K_mut' / None when not rooted in self"""
    if L == "param:self":
        return ""
    if L.endswith("(param:self)"):
        return L[:-len("(param:self)")]
    return None


def location_zero(prog, g, gs, blk, L, clears, matches, rz):
    # (i) dominating clearer call on the same location, with no accumulate-first call on it in between
    for i, t in g.calls():
        c = callee_of(t)
        if not t["args"]:
            continue
        if any(matches(c, [p]) for p in clears) and loc_canon(recv_loc(gs, t["args"][0])) == L and g.dominates(i, blk) and i != blk:
            between_bad = False
            for j, u in g.calls():
                if j in (i, blk) or not u["args"]:
                    continue
                if any(matches(callee_of(u), [p]) for p in rz) and g.dominates(i, j) and g.dominates(j, blk):
                    rl = loc_canon(recv_loc(gs, u["args"][0]))
                    if rl == L or L.endswith("(%s)" % rl):
                        between_bad = True
            if not between_bad:
                return "zero", "cleared by %s at bb%d on every path" % (c.split("::")[-1], i)
    # (ii) fresh object from an all-zero constructor, not accumulated before
    root = L
    while "(" in root:
        root = root[root.index("(") + 1:-1]
    if root.startswith("local:"):
        lnum = int(root.rsplit("_", 1)[1])
        org = gs.origin(("local", lnum, ""))
        if org[0] == "call" and zero_ctor(prog, org[1]):
            # no earlier accumulate on the same object
            for j, u in g.calls():
                if j == blk or not u["args"]:
                    continue
                if any(matches(callee_of(u), [p]) for p in rz) and g.dominates(j, blk):
                    rl = loc_canon(recv_loc(gs, u["args"][0]))
                    if rl == L or rl == root:
                        return "unknown", "object was already accumulated into at bb%d" % j
            return "zero", "fresh object from %s (all-zero masks)" % org[1].split("::")[-2]
    # (iii) rooted in this function's own self: requirement moves to the callers
    if L_suffix(L) is not None:
        return "propagate", "location is part of *self"
    return "unknown", "masks may hold bits of an earlier hash: no dominating clear, not a fresh object"


def views_are_like_indexed(ctx, prog):
    """block_hash_K(_mut) views pair the K-th mask array with the K-th length; representation_mut returns the mask itself"""
    n = 0
    for f in prog.fns:
        import re
        m = re.search(r"FuzzyHashCompareTarget::block_hash_([12])(_mut|_internal)?$", f.path)
        if m:
            n += 1
            ctx.visit(f)
            sy = Sym(f)
            e = strip(sy.local(0))
            if e[0] == "call" and e[1].endswith("FuzzyHashCompareTarget::block_hash_%s_internal" % m.group(1)) and strip(e[2][0])[0] == "param":
                ctx.ob(R, "%s delegates to block_hash_%s_internal(self)" % (f.short, m.group(1)), True, show(e), f.loc())
                continue
            ok = e[0] == "agg" and len(e[2]) == 2
            names = []
            if ok:
                names = [fpath(x)[1][-1] if fpath(x)[1] else "?" for x in e[2]]
                ok = names == ["blockhash" + m.group(1), "len_blockhash" + m.group(1)] and all(fpath(x)[0][0] == "param" for x in e[2])
            ctx.ob(R, "%s views (blockhash%s, len_blockhash%s) of self" % (f.short, m.group(1), m.group(1)), ok, "view of %s" % names, f.loc())
        if f.path.endswith("::representation_mut") and f.impl_trait.endswith("BlockHashPositionArrayDataMut"):
            n += 1
            sy = Sym(f)
            e = sy.local(0)
            r, names = fpath(e)
            ok = r[0] == "param" and r[1] == 1 and names in (("representation",), ("0",))
            ctx.ob(R, "%s returns the mask array of self itself" % f.short, ok, "returns %s" % show(e), f.loc())
    ctx.floor(R, n, 6, "mask views")


def length_follows_masks(ctx, prog):
    """the length of a position array is only (re)set where its masks are (re)defined in the same body: inside an
    accumulate-first initialiser (after the accumulation), or after a dominating clear of the same location"""
    eff = {}
    for f in prog.fns:
        if f.argc >= 1 and f.locals[1]["ty"].startswith("&mut") and ("position_array" in f.path or "FuzzyHashCompareTarget" in f.path):
            e = body_effects(f)
            if e:
                eff[f.path] = e
    accs = {p for p, e in eff.items() if e == "acc"}
    clears = {p for p, e in eff.items() if e == "clear"}
    import re as _re

    def norm_item(p):
        m = _re.match(r"^<[^>]* as (.*)>::([A-Za-z0-9_]+)$", p)
        return "%s::%s" % (m.group(1), m.group(2)) if m else p
    n = 0
    for g in prog.fns:
        if g.path.endswith(("::set_len_internal", "::len_mut")):
            continue  # the primitive setters themselves
        gs = None
        sites = []
        for i, t in g.calls():
            c = callee_of(t)
            if c.split("::")[-1] in ("set_len_internal", "len_mut") and ("position_array" in c):
                sites.append((i, t))
        if not sites:
            continue
        gs = Sym(g)
        ctx.visit(g)
        for i, t in sites:
            n += 1
            L = loc_canon(recv_loc(gs, t["args"][0]))
            ok = False
            why = ""
            if g.path in accs or norm_item(g.path) in {norm_item(a) for a in accs}:
                # inside the accumulator: the length store must come after the accumulation loop (dominated by its exit)
                ok = all(g.dominates(i, r) for r in g.return_blocks())
                why = "inside the accumulate-first initialiser, on every path to return"
            else:
                for j, u in g.calls():
                    cu = callee_of(u)
                    if u["args"] and any(cu == p or norm_item(cu) == norm_item(p) for p in clears) and j != i \
                            and loc_canon(recv_loc(gs, u["args"][0])) == L:
                        if g.dominates(j, i):
                            ok = True
                            why = "dominated by %s at bb%d" % (cu.split("::")[-1], j)
                        elif all(j in g.reach_from(i) and r not in g.reach_from(i, avoid={j}) for r in g.return_blocks() if r in g.reach_from(i)):
                            # the clear follows on every path from the store to the return: the function never returns in between
                            ok = True
                            why = "followed on every path to the return by %s at bb%d" % (cu.split("::")[-1], j)
                if not ok:
                    why = "the length of %s is set on a path where its masks are neither cleared nor rebuilt" % L
            ctx.ob(R, "%s: length store (%s) happens only where the masks are redefined" % (g.short, callee_of(t).split("::")[-1]), ok, why, g.loc(t["sp"]))
    ctx.floor(R, n, 2, "length stores of position arrays outside the primitive setters")


def equiv_exact(ctx, prog):
    """`is_equiv_internal`: a position array can only be reported equivalent to a string of exactly its own length,
    every position of which has its bit set in the mask of that position's symbol"""
    from ..sym import path_conds, bool_atom
    from .fold import iter_source
    R = "SA-GUARD"
    f = prog.fn("BlockHashPositionArrayImplInternal::is_equiv_internal")
    ctx.visit(f)
    sy = Sym(f)
    want_len = ("internals::compare::position_array::BlockHashPositionArrayData::len(param:self)", "core::slice::<impl [T]>::len(param:other)")
    results = []
    for i, j, s in f.stmts():
        if s["s"] == "assign" and s["lhs"]["l"] == 0 and not s["lhs"]["p"]:
            results.append((i, strip(sy.rvalue(s["rv"]))))
    for i, t in f.calls():
        if t["dest"]["l"] == 0 and not t["dest"]["p"]:
            results.append((i, strip(sy.call(t, i))))
    bad = []
    n_true = 0
    all_call = None
    loop_true = None
    for blk, e in results:
        if e[0] == "const" and const_value(e) == 0:
            continue
        n_true += 1
        ok = False
        for c in path_conds(f, sy, blk):
            a = bool_atom(c)
            if a and a[0] == "Eq":
                x, y = (re.sub(r"::<[^()]*>\(", "(", canon(strip(z))) for z in (a[1], a[2]))
                if (x, y) == want_len or (y, x) == want_len:
                    ok = True
        if not ok:
            bad.append("result %s at bb%d is not under `self.len() == other.len()`" % (show(e)[:80], blk))
        if e[0] == "call" and e[1].endswith("Iterator::all"):
            all_call = e
        elif const_value(e) == 1:
            loop_true = blk
        else:
            bad.append("a result other than false / all(..) / `true` after the loop: %s" % show(e)[:80])
    ctx.ob(R, "is_equiv_internal: every result other than false is computed under `self.len() == other.len()` (exact length equality)", not bad and n_true >= 1,
           "; ".join(bad) or "%d non-false result(s)" % n_true, f.loc())
    ok = False
    why = "no all(..)"
    if all_call is not None:
        src = strip(all_call[2][0])
        src = sy.origin(src) if src[0] in ("ref", "local") else src
        c = canon(strip(src))
        ok = c == "core::iter::Iterator::enumerate(core::slice::<impl [T]>::iter(param:other))"
        why = "iterates %s" % c[:140]
        cl = strip(all_call[2][1])
        if ok and cl[0] == "agg" and cl[1].startswith("Closure:"):
            g = prog.get(cl[1][len("Closure:"):])
            if g is None:
                ok = False
                why += "; closure body not found"
            else:
                ctx.visit(g)
                gs = Sym(g)
                ce = canon(strip(gs.local(0)))
                # Ne(BitAnd(<captured representation>[ch as usize], Shl(1, i)), 0) with i = item.0, ch = *item.1
                # closure parameters: 1 = captures (the masks), 2 = the (position, &symbol) item
                ok = re.match(r"^Ne\(BitAnd\(param:\w*1\.0\[\(?param:\w*2\.1( as usize\))?\],Shl\(1,param:\w*2\.0\)\),0\)$", ce) is not None
                why += "; per position: %s" % ce[:160]
                caps = [re.sub(r"::<[^()]*>\(", "(", canon(strip(x))) for x in cl[2]]
                if caps != ["internals::compare::position_array::BlockHashPositionArrayData::representation(param:self)"]:
                    ok = False
                    why += "; the masks read are %s, not self.representation()" % caps
        else:
            ok = False
    if all_call is None and loop_true is not None:
        # loop form: `for (i, &ch) in other.iter().enumerate() { if mask[ch] & (1 << i) == 0 { return false } } true`
        nexts = [(i, t) for i, t in f.calls() if callee_of(t).endswith("::next")]
        why = "loop form: %d next() calls" % len(nexts)
        if len(nexts) == 1:
            nb, nt = nexts[0]
            src = canon(strip(sy.origin(strip(sy.operand(nt["args"][0])))))
            src = re.sub(r"^<I as core::iter::IntoIterator>::into_iter\((.*)\)$", r"\1", src)
            item = r"\(<core::iter::Enumerate<I> as core::iter::Iterator>::next\(local:\w+\) as Some\)\.0"
            rx = re.compile(r"^BitAnd\(internals::compare::position_array::BlockHashPositionArrayData::representation\(param:self\)\[\(%s\.1 as usize\)\],Shl\(1,%s\.0\)\)$" % (item, item))
            tests = []
            for blk, e in results:
                if not (e[0] == "const" and const_value(e) == 0):
                    continue
                for c in path_conds(f, sy, blk):
                    a = bool_atom(c)
                    if a and a[0] == "Eq" and const_value(strip(a[2])) == 0 and rx.match(re.sub(r"::<[^()\[\]]*>\(", "(", canon(strip(a[1])))) and len(c) > 3:
                        tests.append(c[3][0])
            latches = [b for b in f.live if nb in f.lsuccs(b) and f.dominates(nb, b)]
            ok = src == "core::iter::Iterator::enumerate(core::slice::<impl [T]>::iter(param:other))" and len(set(tests)) == 1 and bool(latches) \
                and all(f.dominates(tests[0], b) for b in latches) and any(strip(c[0])[0] == "discr" for c in path_conds(f, sy, loop_true))
            why = "loop form: iterates %s; per-position test blocks %s dominate the back edges %s" % (src[:90], sorted(set(tests)), latches)
    ctx.ob(R, "is_equiv_internal: the non-false result is `all` over every (position, symbol) of `other` of `mask[symbol] & (1 << position) != 0`", ok, why, f.loc())


def position_counter(f, sy, l, nb, use_blocks):
    """is local l the position of the element the loop headed by the `next` call in block nb is at?  (the hand-written `enumerate`):
    exactly two definitions - 0 before the loop, `l + 1` inside it; on every way from the element back to the next `next` the increment
    is passed, and passed once; the uses (use_blocks) come before the increment of their iteration"""
    ds = f.defs.get(l, [])
    if len(ds) != 2 or any(k != "rv" for (_b, _i, k, _x) in ds):
        return "not exactly two plain definitions"
    me = "local:%s_%d" % (f.locals[l]["name"] or "", l)
    init = [(b, i) for (b, i, k, x) in ds if const_value(strip(sy.rvalue(x))) == 0]
    inc = [(b, i) for (b, i, k, x) in ds if re.sub(r"^\((\w+)WithOverflow\((.*)\)\)\.0$", r"\1(\2)", canon(strip(sy.rvalue(x)))) == "Add(%s,1)" % me]
    if len(init) != 1 or len(inc) != 1:
        return "definitions are not `0` and `+ 1`"
    ib, cb = init[0][0], inc[0][0]
    if not f.dominates(ib, nb) or nb in f.reach_from(nb, avoid={ib}) and ib in f.reach_from(nb):
        return "the initialisation is not before the loop"
    if not f.dominates(nb, cb) or nb not in f.reach_from(cb):
        return "the increment is not inside the loop"
    some = [b for b in f.lsuccs(nb)]
    # from the element, no way back to `next` that avoids the increment; from the increment, no second increment before `next`
    for ub in use_blocks:
        if not f.dominates(nb, ub):
            return "a use is outside the loop"
        if nb in f.reach_from(ub, avoid={cb}) and ub != cb:
            return "an iteration can end without the increment"
        if ub != cb and ub in f.reach_from(cb, avoid={nb}):
            return "a use can follow the increment of its iteration"
    if cb in [b for b in f.reach_from(cb, avoid={nb}) if b != cb] or cb in f.lsuccs(cb):
        return "the increment can run twice in one iteration"
    return None


def accumulate_exact(ctx, prog):
    """`init_from_partial`: for every (position i, symbol ch) of the whole input, mask[ch] |= 1 << i, nothing else is
    stored into the masks, and the length is set to the input's length"""
    from .fold import iter_source
    R = "SA-FORMULA"
    f = prog.fn("BlockHashPositionArrayImplMutInternal::init_from_partial")
    ctx.visit(f)
    sy = Sym(f)
    item = None
    for i, t in f.calls():
        if callee_of(t).endswith("Iterator>::next") or callee_of(t).endswith("Iterator::next"):
            it = strip(sy.operand(t["args"][0]))
            src = canon(strip(sy.origin(it)))
            item = (i, t, src)
    src_ = re.sub(r"^<I as core::iter::IntoIterator>::into_iter\((.*)\)$", r"\1", item[2]) if item is not None else None
    ok = src_ == "core::iter::Iterator::enumerate(core::slice::<impl [T]>::iter(param:blockhash))"
    manual = src_ == "core::slice::<impl [T]>::iter(param:blockhash)"   # position kept by hand: judged with the store below
    ctx.ob(R, "init_from_partial walks every (position, symbol) of the whole input", ok or manual, "iterator source %s" % (item[2][:140] if item else None), f.loc())
    stores = []
    for i, j, s in f.stmts():
        if s["s"] == "assign" and s["lhs"]["p"] and s["lhs"]["l"] != 0:
            root = strip(sy.origin(("local", s["lhs"]["l"], f.locals[s["lhs"]["l"]]["name"])))
            stores.append((canon(root), canon(strip(sy.place(s["lhs"]))), canon(strip(sy.rvalue(s["rv"])))))
    nxt = r"\(<core::iter::Enumerate<I> as core::iter::Iterator>::next\(local:\w+\) as Some\)\.0"
    good = []
    bad = []
    if manual:
        # `let mut i = 0; for &ch in blockhash.iter() { mask[ch] |= 1 << i; i += 1; }`
        nxt1 = r"\(<core::slice::Iter<'a, T> as core::iter::Iterator>::next\(local:\w+\) as Some\)\.0"
        for i_, j_, s_ in f.stmts():
            if s_["s"] == "assign" and s_["lhs"]["p"] and s_["lhs"]["l"] != 0:
                p = canon(strip(sy.place(s_["lhs"])))
                v = re.sub(r"^\((\w+)WithOverflow\((.*)\)\)\.0$", r"\1(\2)", canon(strip(sy.rvalue(s_["rv"]))))
                m = re.match(r"^(.*)\[\(\*?\(?%s\)?( as usize)?\)\]$" % nxt1, p)
                mv = re.match(r"^BitOr\(%s,Shl\(1,local:(\w*)_(\d+)\)\)$" % re.escape(p), v)
                if m and mv:
                    why_c = position_counter(f, sy, int(mv.group(2)), item[0], [i_])
                    if why_c is None:
                        good.append(p)
                    else:
                        bad.append("position counter %s: %s" % (mv.group(1), why_c))
                else:
                    bad.append("%s <- %s" % (p[:100], v[:120]))
        stores = []
    for root, p, v in stores:
        v = re.sub(r"^\((\w+)WithOverflow\((.*)\)\)\.0$", r"\1(\2)", v)
        m = re.match(r"^(.*)\[\(\*?%s\.1 as usize\)\]$" % nxt, p) or re.match(r"^(.*)\[\(?\*?\(?%s\.1\)?( as usize)?\)?\]$" % nxt, p)
        if m and re.match(r"^BitOr\(%s,Shl\(1,%s\.0\)\)$" % (re.escape(p), nxt), v):
            good.append(p)
        else:
            bad.append("%s <- %s" % (p[:100], v[:120]))
    ok = len(good) == 1 and not bad and all(re.match(r"^internals::compare::position_array::BlockHashPositionArrayDataMut::representation_mut(::<Self>)?\(param:self\)\[", p) for p in good)
    ctx.ob(R, "init_from_partial: the only store is mask[symbol] |= 1 << position on representation_mut(self)", ok,
           "; ".join(bad) or "%s" % good, f.loc())
    ln = [(i, t) for i, t in f.calls() if callee_of(t).endswith("set_len_internal")]
    ok = len(ln) == 1
    why = "%d set_len_internal calls" % len(ln)
    if ok:
        a = canon(strip(sy.operand(ln[0][1]["args"][1])))
        ok = a == "core::slice::<impl [T]>::len(param:blockhash)"
        why = "set_len_internal(%s)" % a
    ctx.ob(R, "init_from_partial: the length becomes the input's length", ok, why, f.loc())


def valid_normalized_shape(ctx, prog):
    """`is_valid_and_normalized` = `is_valid()` and, for every mask of self.representation(), no run of MAX_SEQUENCE_SIZE+1
    set bits (`has_sequences_const::<MAX_SEQUENCE_SIZE + 1>`) - the run test is delegated to the one helper with the one constant"""
    from ..sym import path_conds, bool_atom
    R = "SA-DELEGATE"
    f = prog.fn("BlockHashPositionArrayData::is_valid_and_normalized")
    ctx.visit(f)
    sy = Sym(f)
    alls = [(i, t) for i, t in f.calls() if callee_of(t).endswith("Iterator>::all") or callee_of(t).endswith("Iterator::all")]
    ok = len(alls) == 1
    why = "%d all(..) calls" % len(alls)
    if ok:
        i, t = alls[0]
        # evaluated only when is_valid(self) holds
        guarded = False
        for c in path_conds(f, sy, i):
            a = bool_atom(c)
            if a and a[0] == "truth" and a[2] is True and strip(a[1])[0] == "call" and strip(a[1])[1].split("::<")[0].endswith("BlockHashPositionArrayData::is_valid"):
                guarded = True
        src = canon(strip(sy.origin(strip(sy.operand(t["args"][0])))))
        src = re.sub(r"::<[^()]*>\(", "(", src)
        cl = strip(sy.operand(t["args"][1]))
        ok = guarded and re.match(r"^core::slice::<impl \[T\]>::iter\(\(?internals::compare::position_array::BlockHashPositionArrayData::representation\(param:self\)( as &\[u64\]\))?\)$", src) is not None \
            and cl[0] == "agg" and cl[1].startswith("Closure:")
        why = "is_valid guard: %s; iterates %s" % (guarded, src[:120])
        if ok:
            g = prog.get(cl[1][len("Closure:"):])
            ce = strip(Sym(g).local(0)) if g else None
            ctx.visit(g) if g else None
            ok = ce is not None and ce[0] == "un" and ce[1] == "Not" and strip(ce[2])[0] == "call" and "has_sequences_const" in strip(ce[2])[1]
            why += "; per mask: %s" % (show(ce)[:120] if ce else None)
            if ok:
                call = strip(ce[2])
                ga = list(call[4]) if len(call) > 4 else []
                mx = int(prog.const("block_hash::MAX_SEQUENCE_SIZE")["v"])
                ok = any(str(mx + 1) in x or "MAX_SEQUENCE_SIZE" in x for x in ga)
                why += "; generic args %s" % ga
    # the false results
    consts = [const_value(strip(sy.rvalue(s["rv"]))) for i, j, s in f.stmts() if s["s"] == "assign" and s["lhs"]["l"] == 0 and not s["lhs"]["p"]]
    ok = ok and all(v == 0 for v in consts)
    ctx.ob(R, "is_valid_and_normalized = is_valid() && every mask has no run of MAX_SEQUENCE_SIZE+1 bits (has_sequences_const)", ok, why, f.loc())


def valid_content(ctx, prog):
    """`BlockHashPositionArrayData::is_valid`: the per-mask test is `(total & mask) == 0` on the union of the masks seen BEFORE this one,
    `total` is updated by `|= mask` and by nothing else, a non-false result needs every test passed and `total == u64_lsb_ones(len)`,
    `len > 64` is refused.  Two code shapes are read: the test as a closure handed to `all` over `representation().iter()`, and a loop
    in the body itself."""
    from ..sym import path_conds, bool_atom
    R = "SA-FORMULA"
    f = prog.fn("BlockHashPositionArrayData::is_valid")
    ctx.visit(f)
    sy = Sym(f)
    notes = []
    alls = [(i, t) for i, t in f.calls() if callee_of(t).endswith("Iterator>::all") or callee_of(t).endswith("Iterator::all")]
    per_mask = union = False
    flag_form = None
    acc_txt = None
    if len(alls) == 1:
        i, t = alls[0]
        src = canon(strip(sy.origin(strip(sy.operand(t["args"][0])))))
        src = re.sub(r"::<[^()]*>\(", "(", src)
        over = re.match(r"^core::slice::<impl \[T\]>::iter\(\(?internals::compare::position_array::BlockHashPositionArrayData::representation\(param:self\)( as &\[u64\]\))?\)$", src) is not None
        cl = strip(sy.operand(t["args"][1]))
        g = prog.get(cl[1][len("Closure:"):]) if cl[0] == "agg" and cl[1].startswith("Closure:") else None
        notes.append("all(..) over %s" % src[:100])
        if g is not None and over and len(cl[2]) == 1:
            ctx.visit(g)
            gs = Sym(g)
            ret = canon(strip(gs.origin(strip(gs.local(0)))))
            stores = [(canon(strip(gs.place(s["lhs"]))) if hasattr(gs, "place") else None, canon(strip(gs.rvalue(s["rv"]))))
                      for _, _, s in g.stmts() if s["s"] == "assign" and s["lhs"]["p"]]
            notes.append("per mask: %s; stores %s" % (ret, stores))
            per_mask = ret in ("Eq(BitAnd(param:1.0,param:2),0)", "Eq(0,BitAnd(param:1.0,param:2))")
            union = len(stores) == 1 and stores[0][1] == "BitOr(param:1.0,param:2)" and not list(g.calls())
            acc = strip(cl[2][0])
            # the captured variable: starts at 0, and the body itself does not write it after that
            if acc[0] == "local":
                l = acc[1]
                acc_txt = canon(acc)
                defs = f.defs.get(l, [])
                inits = [d for d in defs if d[2] == "rv" and const_value(strip(sy.rvalue(d[3]))) == 0]
                union = union and len(defs) == 1 and len(inits) == 1
    else:
        # loop form: one accumulator local; in the loop `acc & m == 0` is tested (failing -> false) before `acc = acc | m`
        accs = {}
        for bi, j, s in f.stmts():
            if s["s"] == "assign" and not s["lhs"]["p"] and s["rv"]["r"] == "bin" and s["rv"]["op"] in ("BitOr", "BitXor", "BitAnd", "Add", "Sub") \
                    and f.locals[s["lhs"]["l"]]["ty"] == "u64" and len(f.defs.get(s["lhs"]["l"], [])) > 1:
                accs.setdefault(s["lhs"]["l"], []).append((bi, s))
        notes.append("loop form, accumulators %s" % sorted(accs))
        if len(accs) == 1:
            l, ups = list(accs.items())[0]
            acc_txt = canon(("local", l, f.locals[l].get("name") or "_%d" % l))
            defs = f.defs.get(l, [])
            inits = [d for d in defs if d[2] == "rv" and const_value(strip(sy.rvalue(d[3]))) == 0]
            if len(ups) == 1 and len(defs) == 2 and len(inits) == 1:
                bi, s = ups[0]
                up = strip(sy.rvalue(s["rv"]))
                m = None
                if up[0] == "bin" and up[1] == "BitOr":
                    ops = [strip(up[2]), strip(up[3])]
                    me = [o for o in ops if not (o[0] == "local" and o[1] == l)]
                    if len(me) == 1 and len(ops) == 2:
                        m = me[0]
                if m is not None:
                    union = True
                    pair = sorted([acc_txt, canon(m)])
                    for c in path_conds(f, sy, bi):
                        a = bool_atom(c)
                        if a and a[0] == "Eq":
                            x, y = strip(a[1]), strip(a[2])
                            if const_value(x) == 0:
                                x, y = y, x
                            if const_value(y) == 0 and x[0] == "bin" and x[1] == "BitAnd" and sorted([canon(strip(x[2])), canon(strip(x[3]))]) == pair:
                                per_mask = True
                    if not per_mask:
                        # flag form: `let ok = (acc & m) == 0; acc |= m; if !ok { flag = false; break }` ... `flag && acc == expected`
                        tests = []
                        for tb, tj, ts in f.stmts():
                            if ts["s"] == "assign" and not ts["lhs"]["p"] and ts["rv"]["r"] == "bin" and ts["rv"]["op"] in ("Eq", "Ne"):
                                tv = strip(sy.rvalue(ts["rv"]))
                                x, y = strip(tv[2]), strip(tv[3])
                                if const_value(x) == 0:
                                    x, y = y, x
                                if const_value(y) == 0 and x[0] == "bin" and x[1] == "BitAnd" and sorted([canon(strip(x[2])), canon(strip(x[3]))]) == pair:
                                    # computed on the accumulator BEFORE this round's update
                                    before = (tb == bi and tj < [k for k, st2 in enumerate(f.blocks[bi]["stmts"]) if st2 is s][0]) or (tb != bi and f.dominates(tb, bi))
                                    if before:
                                        tests.append((ts["lhs"]["l"], ts["rv"]["op"], tb))
                        nexts2 = [nb for nb, nt in f.calls() if callee_of(nt).endswith("::next")]
                        if len(tests) == 1 and len(nexts2) == 1:
                            tl, top, tb = tests[0]
                            hdr = nexts2[0]
                            latches = [b2 for b2 in f.live if hdr in f.lsuccs(b2) and f.dominates(hdr, b2)]

                            def passed(blk, want):
                                for c in path_conds(f, sy, blk):
                                    a = bool_atom(c)
                                    if a and a[0] == "truth" and strip(a[1])[0] == "local":
                                        # the test value itself, or a copy / negation of it
                                        src = strip(a[1])
                                        if src[1] == tl and a[2] == (want if top == "Eq" else not want):
                                            return True
                                    if a and a[0] in ("Eq", "Ne") and const_value(strip(a[2])) == 0 and strip(a[1])[0] == "bin" and strip(a[1])[1] == "BitAnd":
                                        if (a[0] == "Eq") == want:
                                            return True
                                return False
                            flags = [l2 for l2, ds in f.defs.items() if f.locals[l2]["ty"] == "bool" and len(ds) == 2 and
                                     sorted(const_value(strip(sy.rvalue(d[3]))) if d[2] == "rv" else -1 for d in ds) == [0, 1]]
                            okflag = False
                            for fl in flags:
                                zero = [d[0] for d in f.defs[fl] if const_value(strip(sy.rvalue(d[3]))) == 0]
                                if zero and passed(zero[0], False):
                                    okflag = True
                                    flag_local = fl
                            if latches and all(passed(b2, True) for b2 in latches) and okflag:
                                per_mask = True
                                flag_form = flag_local
                    notes.append("update %s under %s" % (canon(up), per_mask))
    # results: every non-false one is `acc == u64_lsb_ones(len as u32)` reached with the scan passed and len <= 64
    res_ok = True
    nres = 0
    for bi, j, s in f.stmts():
        if not (s["s"] == "assign" and s["lhs"]["l"] == 0 and not s["lhs"]["p"]):
            continue
        v = strip(sy.rvalue(s["rv"]))
        if const_value(v) == 0:
            continue
        nres += 1
        txt = re.sub(r"::<[^()]*>\(", "(", canon(v))
        lenx = r"\(internals::compare::position_array::BlockHashPositionArrayData::len\(param:self\) as u32\)"
        if acc_txt is None or not re.match(r"^Eq\((%s,internals::utils::u64_lsb_ones\(%s\)|internals::utils::u64_lsb_ones\(%s\),%s)\)$" % (re.escape(acc_txt), lenx, lenx, re.escape(acc_txt)), txt):
            res_ok = False
            notes.append("result %s" % txt[:160])
            continue
        conds = path_conds(f, sy, bi)
        guard = scan = False
        for c in conds:
            a = bool_atom(c)
            if a is None:
                continue
            t2 = re.sub(r"::<[^()]*>\(", "(", canon(("bin", a[0], a[1], a[2]))) if a[0] != "truth" else None
            if t2 is not None:
                # `len <= 64`, with the bound spelled as the literal or as the constant FULL_SIZE, on u8 or after `as usize`
                t3 = re.sub(r"[\w:]*FULL_SIZE=64", "64", t2).replace(" as usize)", ")")
                t3 = re.sub(r"\((internals::compare::position_array::BlockHashPositionArrayData::len\(param:self\))\)", r"\1", t3)
                if t3 in ("Le(internals::compare::position_array::BlockHashPositionArrayData::len(param:self),64)",
                          "Ge(64,internals::compare::position_array::BlockHashPositionArrayData::len(param:self))"):
                    guard = True
            if a[0] == "truth" and a[2] is True and strip(a[1])[0] == "call" and strip(a[1])[1].endswith("::all"):
                scan = True
        if len(alls) != 1:
            scan = per_mask   # loop form: the failing test leaves the loop with `false`; checked below through the constant results
            if flag_form is not None:
                scan = any((bool_atom(c) or (None,))[0] == "truth" and strip(bool_atom(c)[1])[0] == "local" and strip(bool_atom(c)[1])[1] == flag_form and bool_atom(c)[2] is True
                           for c in conds)
        res_ok = res_ok and guard and scan
        if not (guard and scan):
            notes.append("result site bb%d: len guard %s, scan passed %s" % (bi, guard, scan))
    ok = per_mask and union and res_ok and nres == 1
    ctx.ob(R, "is_valid: per mask `(total & mask) == 0` on the union of the EARLIER masks, `total |= mask` and nothing else, result `total == u64_lsb_ones(len)` with every test passed and len <= 64",
           ok, "; ".join(notes)[:700] if not ok else "per-mask test, union update, single non-false result", f.loc())


def sequences_exact(ctx, prog):
    """`has_sequences(pa, len)`: for every len the answer is `AND_{s < len} (pa >> s) != 0` - a run of len one bits exists.  Decided by
    constant propagation over the finite domain of len (0..=64 and beyond) with the word kept as the set of shifts it ANDs (sa/absint.py);
    no value of pa is enumerated."""
    from .. import absint
    R = "SA-ABSINT"
    ctx.rule(R, "abstract interpretation with `len` concrete and the position word symbolic (as the set of shifts of pa that are ANDed): for every len in 0..=64 the result is the run test of exactly that length; beyond 64 it is false")
    fs = [f for f in prog.fns if f.path.endswith("block_hash_position_array_element::has_sequences")]
    if len(fs) != 1:
        return ctx.ob("ANCHOR", "has_sequences", False, "%d bodies" % len(fs))
    f = fs[0]
    ctx.visit(f)
    bad = []
    for n in list(range(0, 66)) + [100, 255]:
        try:
            r = absint.run(f, {1: ("runs", frozenset({0})), 2: ("int", n, 32)})
        except absint.NotInterpretable as e:
            bad.append("len %d: not interpretable (%s)" % (n, e))
            continue
        if r and r[0] == "int" and r[2] == 1:
            r = ("bool", bool(r[1]))
        if n == 0:
            want = ("bool", True)
        elif n < 64:
            want = ("nonzero", frozenset(range(n)))
        elif n == 64:
            want = ("allones", frozenset({0}))
        else:
            want = ("bool", False)
        if r != want:
            bad.append("len %d: %s" % (n, (r[0], sorted(r[1]) if isinstance(r[1], frozenset) else r[1]) if r else r))
    ctx.ob(R, "has_sequences(pa, len) is the run test of length len for every len", not bad, "; ".join(bad[:4]) or "68 lengths interpreted", f.loc())
    # the const-generic front `has_sequences_const::<LEN>` at the instantiation the crate uses (MAX_SEQUENCE_SIZE + 1) and around it
    gs = [g for g in prog.fns if g.path.endswith("block_hash_position_array_element::has_sequences_const")]
    if len(gs) == 1:
        g = gs[0]
        ctx.visit(g)
        mx = int(prog.const("block_hash::MAX_SEQUENCE_SIZE")["v"])
        bad = []
        for n in sorted({2, 3, mx + 1, 5, 8, 16, 33, 63}):
            try:
                r = absint.run(g, {1: ("runs", frozenset({0}))}, tyconsts={"LEN": n}, prog=prog)
            except absint.NotInterpretable as e:
                bad.append("LEN %d: not interpretable (%s)" % (n, e))
                continue
            if r != ("nonzero", frozenset(range(n))):
                bad.append("LEN %d: %s" % (n, (r[0], sorted(r[1]) if isinstance(r[1], frozenset) else r[1]) if r else r))
        ctx.ob(R, "has_sequences_const::<LEN>(pa) is the run test of length LEN (at MAX_SEQUENCE_SIZE + 1 and seven other lengths)", not bad, "; ".join(bad[:4]) or "8 instantiations interpreted", g.loc())


def initialisers_complete(ctx, prog):
    """a position array that is scored against was filled first: the checked `init_from` of the position array is `clear_representation_only`
    followed by `init_from_partial(self, blockhash)`, and in `compare_optimized_internal` every `score_strings*` on a local array is dominated
    by an `init_from_partial` of that same array (the accumulate rule cannot see an initialisation that is simply not there)."""
    R2 = "SA-TYPESTATE"
    fs = [f for f in prog.fns if f.path == "<T as internals::compare::position_array::BlockHashPositionArrayImplMut>::init_from"]
    if len(fs) != 1:
        ctx.ob("ANCHOR", "ImplMut::init_from", False, "%d bodies" % len(fs))
    else:
        f = fs[0]
        ctx.visit(f)
        sy = Sym(f)
        seq = [(callee_of(t).split("::")[-1], [canon(strip(sy.operand(a))) for a in t["args"]], i) for i, t in f.calls() if prog.get(callee_of(t)) is not None or "position_array::" in callee_of(t)]
        names = [s[0] for s in seq]
        ok = names == ["clear_representation_only", "init_from_partial"] and seq[0][1] == ["param:self"] and seq[1][1] == ["param:self", "param:blockhash"] and \
            f.dominates(seq[0][2], seq[1][2])
        ctx.ob(R2, "position array init_from = clear_representation_only(self); init_from_partial(self, blockhash)", ok, "crate calls: %s" % [(s[0], s[1]) for s in seq], f.loc())
    gs = [g for g in prog.fns if g.path.endswith("compare_optimized_internal")]
    for g in gs:
        ctx.visit(g, weak=True)
        sy = Sym(g)
        inits = {}
        for i, t in g.calls():
            if callee_of(t).endswith("::init_from_partial") and t["args"]:
                a = strip(sy.operand(t["args"][0]))
                if a[0] == "local":
                    inits.setdefault(a[1], []).append(i)
        bad = []
        n = 0
        for i, t in g.calls():
            if re.search(r"::score_strings\w*$", callee_of(t)) and t["args"]:
                a = strip(sy.operand(t["args"][0]))
                if a[0] == "local":
                    n += 1
                    if not any(g.dominates(b, i) for b in inits.get(a[1], [])):
                        bad.append("score on %s at bb%d without a dominating init_from_partial" % (canon(a), i))
        ctx.ob(R2, "%s: every local position array that is scored against was initialised from a block hash first" % g.short, not bad and n >= 2, "; ".join(bad) or "%d scored arrays" % n, g.loc())

    # the comparison target's own initialiser: view k of the target is built from block hash k of the hash (1 with 1, 2 with 2, each once)
    ts = [g for g in prog.fns if g.path.endswith("compare::FuzzyHashCompareTarget::init_from_partial")]
    for g in ts:
        ctx.visit(g, weak=True)
        gy = Sym(g)
        pairs = []
        for bi, t in g.calls():
            if callee_of(t).endswith("::init_from_partial") and len(t["args"]) == 2:
                a0 = canon(strip(gy.origin(strip(gy.operand(t["args"][0])))))
                a1 = canon(strip(gy.origin(strip(gy.operand(t["args"][1])))))
                m0 = re.search(r"block_hash_([12])_mut\(param:self\)$", a0)
                m1 = re.search(r"::block_hash_([12])(::<[^()]*>)?\((core::convert::AsRef::as_ref\()?param:hash\)*$", a1)
                pairs.append((m0.group(1) if m0 else a0[-40:], m1.group(1) if m1 else a1[-60:]))
        ctx.ob(R2, "FuzzyHashCompareTarget::init_from_partial: position array k is built from block hash k of the given hash (k = 1, 2)",
               sorted(pairs) == [("1", "1"), ("2", "2")], "pairs (target view, source block hash): %s" % sorted(pairs), g.loc())
    ctx.floor(R2, len(ts), 1, "comparison target initialisers read")
