#!/usr/bin/env python3
"""dev helper: apply a textual replacement to a /repo file, run checks, always revert.
usage: tools_mutant.py <relpath> <old> <new> <PID> [PID...]   (old must occur exactly once unless --n K given)"""
import subprocess, sys, os
args = sys.argv[1:]
nth = None
if args[0] == "--n":
    nth = int(args[1]); args = args[2:]
rel, old, new = args[0], args[1], args[2]
pids = args[3:]
p = os.path.join("/repo", rel)
s = open(p).read()
cnt = s.count(old)
if cnt == 0 or (cnt != 1 and nth is None):
    print("pattern occurs %d times" % cnt); sys.exit(2)
if nth is None:
    s2 = s.replace(old, new)
else:
    parts = s.split(old)
    s2 = old.join(parts[:nth + 1]) + new + old.join(parts[nth + 1:])
try:
    open(p, "w").write(s2)
    r = subprocess.run(["cargo", "check", "--offline", "-q", "-p", "ffuzzy", "--lib"], cwd="/repo", capture_output=True, text=True)
    if r.returncode != 0:
        print("MUTANT DOES NOT COMPILE\n" + r.stderr[-1500:])
    else:
        env = dict(os.environ, VERIF_FACT_CACHE="1")
        for pid in pids:
            tier = "quick"
            if ":" in pid: pid, tier = pid.split(":")
            r = subprocess.run(["./check", pid, "--tier", tier], cwd="/verif", capture_output=True, text=True, env=env)
            print("== %s %s exit %d" % (pid, tier, r.returncode))
            print("\n".join(l[:400] for l in r.stdout.splitlines() if "VIOLATION" not in l)[-3000:])
            if r.stderr: print(r.stderr[-2000:])
finally:
    subprocess.run(["git", "-C", "/repo", "checkout", "--", rel])
