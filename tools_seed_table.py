#!/usr/bin/env python3
"""print a markdown table of /verif/seeded/*/meta.json (for DESIGN.md)"""
import json, glob, os
rows = []
for d in sorted(glob.glob("/verif/seeded/*")):
    m = json.load(open(d + "/meta.json"))
    am = m.get("agent_meta", {})
    conf = m.get("confirmation")
    c = "yes" if isinstance(conf, dict) and conf.get("confirmed") else "?"
    det = m.get("detected_by", [])
    tgt = m["property"]
    rows.append("| %s | %s | %s | %s | %s |" % (os.path.basename(d), (am.get("summary", "").split(". ")[0])[:150].replace("|", "/"),
                                               (m.get("needs_to_manifest") or "")[:110].replace("|", "/").replace("\n", " "), c,
                                               ("**%s**" % tgt if tgt in det else "MISSED by %s" % tgt) + ("" if not [x for x in det if x != tgt] else " (+ " + ", ".join(x for x in det if x != tgt) + ")")))
print("| id | change | needs | confirmed | detected by |\n|---|---|---|---|---|")
print("\n".join(rows))
