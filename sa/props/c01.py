"""C01 — generated hashes are those of the ssdeep 2.14.1 algorithm: the step relation, clause by clause (not the closed form)."""
from ..rules import data, fold, rolling, engine, piece, generator as gen, blocksize, casts, summary, beliefs

EXPL = ("Byte-exact agreement with ssdeep over all inputs is a statement about values; what is decided here is that every STEP of the "
        "generator's state machine is the step ssdeep's fuzzy.c defines, each step being loop-free code whose effect is read off the "
        "type-checked MIR as resolved def-use expressions and exact branch conditions: (1) rolling hash: SA-FORMULA h2' = h2-h1+7c, "
        "h1' = h1+c-window[i], window[i]' = c, i' = (i+1) mod 7, h3' = (h3<<5)^c, value = h1+h2+h3, all-zero start; (2) piece hash: "
        "SA-DATA all 64x64 entries of the rustc-evaluated FNV table = low 6 bits of (state*0x01000193)^c, initial 0x28021967 mod 64, the "
        "state written by nothing else; (3) SA-STEP per byte: the byte is folded into the rolling hash once, into both running hashes of "
        "every context in bhidx_start..bhidx_end (and into h_last when is_last), before the trigger is evaluated; a trigger is "
        "roll+1 != 0, (roll+1) % 3 == 0 and ((roll+1)/3) & roll_mask == 0, and the level walk visits level k only while the lower "
        "level bits are clear; (4) SA-STEP per level, as a table of stores with their guards and orderings: piece := running hash value at "
        "the piece index, half char := running half hash; index+1 and full hash := initial only while index < 63; half char := NIL and half "
        "hash := initial only while the advanced index < 32; fork only from a context without pieces and within the fork limit (reset, then "
        "copy both running hashes, then bhidx_end+1); otherwise block-size elimination under its three conditions; (5) initial state and "
        "reset == new; (6) block size: index from the input size (borders at 192*2^n), then halved while the candidate has < 32 pieces; "
        "(7) SA-STEP digest: number of pieces taken, the same range on both sides of each copy, the unfinished piece appended exactly "
        "when the rolling value is non-zero from the running hash the mode prescribes, lengths in step with what was written, the "
        "OutputOverflow refusal; (8) SA-SIBLING/SA-ENGINEMAP: the three update forms and the pointer engine of the `unsafe` feature are the same "
        "step. NOT decided: that this step relation, iterated, equals libfuzzy's where the two differ by design - the roll_mask shortcut "
        "for eliminated levels, the fork limit under a declared size, the dedicated last-piece hash at the largest block size - and "
        "u64_ilog2; those are arithmetic/inductive arguments over inputs outside static analysis.")


def run(ctx):
    quick = ctx.tier == "quick"
    cfgs = ["rel", "unsafe"] if quick else ["rel", "dbg", "fnv", "unsafe", "unsafe_fnv", "nodef"]
    progs = ctx.progs(cfgs)
    for c in cfgs:
        prog = progs[c]
        ctx.cfg = c
        ctx.guard("C01", "fnv", lambda: data.fnv_table(ctx, prog))
        ctx.guard("C01", "roll-step", lambda: rolling.step_shape(ctx, prog))
        ctx.guard("C01", "fnv-forms", lambda: fold.primitive_forms(ctx, prog, "PartialFNVHash"))
        ctx.guard("C01", "roll-forms", lambda: fold.primitive_forms(ctx, prog, "RollingHash"))
        ctx.guard("C01", "siblings", lambda: engine.siblings(ctx, prog))
        ctx.guard("C01", "loopstate", lambda: engine.loop_state(ctx, prog))
        ctx.guard("C01", "outside", lambda: engine.outside_loop_writes(ctx, prog))
        ctx.guard("C01", "init", lambda: piece.initial_state(ctx, prog))
        ctx.guard("C01", "reset", lambda: gen.reset_equals_new(ctx, prog))
        ctx.guard("C01", "reset-side", lambda: gen.reset_side_conditions(ctx, prog))
        ctx.guard("C01", "writers", lambda: gen.field_writers(ctx, prog))
        ctx.guard("C01", "initial-bs", lambda: gen.guard_initial_block_size(ctx, prog))
        ctx.guard("C01", "bs-tables", lambda: data.block_size_tables(ctx, prog))
        ctx.guard("C01", "finalize", lambda: gen.guards_finalize(ctx, prog, need=("toolarge", "mismatch")))
        ctx.guard("C01", "delegate", lambda: gen.finalizers_delegate(ctx, prog))
        ctx.guard("C01", "digest-src", lambda: engine.digest_sources(ctx, prog))
        ctx.guard("C01", "digest-last", lambda: piece.digest_last_piece(ctx, prog))
        ctx.guard("C01", "casts", lambda: casts.census(ctx, prog, scope='internals::generate::', floor=3))
        if c.startswith("unsafe"):
            ctx.guard("C01", "mirror", lambda: engine.mirror(ctx, prog))
            ctx.guard("C01", "cursor", lambda: engine.pointer_cursor(ctx, prog))
            base = progs["rel"]
            ctx.guard("C01", "enginemap", lambda: engine.engine_correspondence(ctx, base, prog))
        else:
            ctx.guard("C01", "trigger", lambda: engine.trigger_and_levels(ctx, prog))
            ctx.guard("C01", "thresholds", lambda: engine.step_thresholds(ctx, prog))
            ctx.guard("C01", "piece", lambda: piece.piece_effects(ctx, prog))
        ctx.guard("C01", "const values", lambda: data.const_census(ctx, prog, data.CONST_SCOPES["C01"], floor=1))
        ctx.guard("C01", "panic conditions", lambda: beliefs.live_census(ctx, prog, beliefs.SCOPES["C01"][0]))
        ctx.guard("C01", "overflow-borders", lambda: gen.overflow_borders(ctx, prog))
        ctx.guard("C01", "summaries", lambda: summary.check(ctx, prog, 'internals::generate::(hashes::|BlockHashContext|Generator::(new|guessed_preferred_max_input_size_at)$)', floor=2))
        ctx.guard("C01", "path summaries", lambda: summary.check_paths(ctx, prog, 'internals::generate::(hashes::|BlockHashContext|Generator::(new|guessed_preferred_max_input_size_at)$)', floor=0))
        if c in ("dbg", "unsafe_dbg", "strict_dbg"):
            ctx.guard("C01", "beliefs", lambda: beliefs.census(ctx, prog, beliefs.SCOPES["C01"][0], floor=beliefs.SCOPES["C01"][1]))
    return ctx.finish(EXPL, ["ssdeep's engine step as transcribed in the rule table of sa/rules/piece.py (reviewed against fuzzy.c 2.14.1: fuzzy_engine_step, fuzzy_try_fork_blockhash, fuzzy_try_reduce_blockhash, fuzzy_digest)",
                             "rustc's const evaluation of the FNV table and block-size constants", "u32/u64 wrapping_* and saturating_* have their documented meaning"])
