#!/usr/bin/env python3
"""dev helper: (re)generate sa/ref_params.json - parameter names by position for every body of the reviewed tree
(all build configurations).  Run only on a tree whose rules were reviewed; the file is committed."""
import json, os, sys
sys.path.insert(0, os.path.dirname(os.path.abspath(__file__)))
os.environ.setdefault("VERIF_FACT_CACHE", "1")
from sa import facts, mir
mir._REF_PARAMS = {}
out = {}
for cfg, prog in facts.load_many(list(facts.CONFIGS)).items():
    for path, fs in prog.by_path.items():
        names = [[f.locals[k]["name"] for k in range(1, f.argc + 1)] for f in fs]
        if path in out and out[path] != names:
            # the same path with different shapes in different configurations: keep only if consistent
            out[path] = None
        elif path not in out:
            out[path] = names
out = {k: v for k, v in out.items() if v and any(any(n for n in ns) for ns in v)}
json.dump(out, open(os.path.join(os.path.dirname(os.path.abspath(__file__)), "sa", "ref_params.json"), "w"), indent=0, sort_keys=True)
print(len(out), "paths")
allp = set()
for cfg, prog in facts.load_many(list(facts.CONFIGS)).items():
    for f in prog.fns:
        allp.add(f.path)
json.dump(sorted(allp), open(os.path.join(os.path.dirname(os.path.abspath(__file__)), "sa", "ref_fns.json"), "w"), indent=0)
print(len(allp), "function paths")
cn = set()
for cfg, prog in facts.load_many(list(facts.CONFIGS)).items():
    for c in prog.raw["consts"]:
        cn.add(c["path"])
json.dump(sorted(cn), open(os.path.join(os.path.dirname(os.path.abspath(__file__)), "sa", "ref_constnames.json"), "w"), indent=0)
print(len(cn), "constant names")
ln = {}
for cfg, prog in facts.load_many(list(facts.CONFIGS)).items():
    for path, fs in prog.by_path.items():
        if len(fs) == 1:
            ln.setdefault(path, {})[cfg] = sorted({l["name"] for l in fs[0].locals if l.get("name")})
for p, per in ln.items():
    if len({tuple(v) for v in per.values()}) == 1:
        ln[p] = {"*": next(iter(per.values()))}
json.dump({p: v for p, v in sorted(ln.items())}, open(os.path.join(os.path.dirname(os.path.abspath(__file__)), "sa", "ref_locals.json"), "w"), indent=0)
print(len(ln), "functions with named locals")
from sa import orient as _orient
ot = {}
for cfg, prog in facts.load_many(list(facts.CONFIGS)).items():
    for f in prog.fns:
        for k, ways in _orient.table(f).items():
            ot.setdefault(f.path, {}).setdefault(k, set()).update(ways)
json.dump({p: {k: sorted(w) for k, w in sorted(t.items())} for p, t in sorted(ot.items())},
          open(os.path.join(os.path.dirname(os.path.abspath(__file__)), "sa", "ref_orient.json"), "w"), indent=0)
print(sum(len(t) for t in ot.values()), "oriented comparisons / commutative operations in", len(ot), "functions")
from sa import rename as _rename
rsig = {}
for cfg, prog in facts.load_many(list(facts.CONFIGS)).items():
    for sg in prog.raw["sigs"]:
        rsig[sg["path"]] = _rename.sig_key(sg)
json.dump(rsig, open(os.path.join(os.path.dirname(os.path.abspath(__file__)), "sa", "ref_sigs.json"), "w"), indent=0, sort_keys=True)
print(len(rsig), "signatures")

impls = {}
for cfg, prog in facts.load_many(list(facts.CONFIGS)).items():
    for f in prog.fns:
        if f.impl_trait and not f.derived and "closure" not in f.path:
            impls.setdefault("%s for %s" % (f.impl_trait, f.impl_self), set()).add(f.path.split("::")[-1])
json.dump({k: sorted(v) for k, v in sorted(impls.items())}, open(os.path.join(os.path.dirname(os.path.abspath(__file__)), "sa", "ref_impls.json"), "w"), indent=0)
print(len(impls), "trait impls")

# branch-free bodies: normal forms per configuration ("*" when identical in every configuration that has the body)
from sa.rules import summary as _summary
summ = {}
constn = {}
for cfg, prog in facts.load_many(list(facts.CONFIGS)).items():
    for path, fs in prog.by_path.items():
        if len(fs) != 1 or fs[0].derived or "closure" in path:
            continue
        f = fs[0]
        if not _summary.straight(f):
            continue
        try:
            s_ = _summary.summary(f)
        except RecursionError:
            continue
        if len(s_) > 14:
            continue
        summ.setdefault(path, {})[cfg] = s_
        if "Const" in (f.kind or ""):
            cn_ = _summary.const_normal(prog, f)
            if cn_ is not None:
                constn.setdefault(path, set()).add(cn_)
outs = {}
for path, per in summ.items():
    vals = list(per.values())
    if all(v == vals[0] for v in vals):
        outs[path] = {"*": vals[0], "in": sorted(per)}
    else:
        outs[path] = per
    if len(constn.get(path, ())) == 1:
        outs[path]["const_normal"] = list(constn[path])[0]
json.dump(outs, open(os.path.join(os.path.dirname(os.path.abspath(__file__)), "sa", "ref_summaries.json"), "w"), indent=0, sort_keys=True)
print(len(outs), "branch-free bodies,", sum(1 for v in outs.values() if "*" not in v), "configuration dependent")

# loop-free, effect-free bodies WITH branches: (conditions -> result) tables
paths = {}
for cfg, prog in facts.load_many(list(facts.CONFIGS)).items():
    for path, fs in prog.by_path.items():
        if len(fs) != 1 or fs[0].derived or "closure" in path or _summary.EXCLUDE.search(path):
            continue
        f = fs[0]
        if _summary.straight(f) or not _summary.loop_free(f) or len(f.live) > 60:
            continue
        try:
            ps = _summary.path_summary(prog, f)
        except RecursionError:
            ps = None
        if ps is None:
            continue
        paths.setdefault(path, {})[cfg] = ps
outp = {}
for path, per in paths.items():
    vals = list(per.values())
    outp[path] = {"*": vals[0], "in": sorted(per)} if all(v == vals[0] for v in vals) else per
json.dump(outp, open(os.path.join(os.path.dirname(os.path.abspath(__file__)), "sa", "ref_paths.json"), "w"), indent=0, sort_keys=True)
print(len(outp), "branching effect-free bodies,", sum(1 for v in outp.values() if "*" not in v), "configuration dependent")

# debug-only belief population (configurations with debug assertions on)
from sa.rules import beliefs as _beliefs
refb = {}
for cfg, prog in facts.load_many(list(_beliefs.CONFIGS)).items():
    pop = _beliefs.population(prog)
    refb[cfg] = {fk: dict(c) for fk, c in pop.items()}
json.dump(refb, open(os.path.join(os.path.dirname(os.path.abspath(__file__)), "sa", "ref_beliefs.json"), "w"), indent=0, sort_keys=True)
print({c: sum(sum(v.values()) for v in refb[c].values()) for c in refb}, "belief sites")
refa = {}
for cfg, prog in facts.load_many(list(facts.CONFIGS)).items():
    pop = _beliefs.population(prog, None, "live")
    refa[cfg] = {fk: dict(c) for fk, c in pop.items()}
json.dump(refa, open(os.path.join(os.path.dirname(os.path.abspath(__file__)), "sa", "ref_asserts.json"), "w"), indent=0, sort_keys=True)
print({c: sum(sum(v.values()) for v in refa[c].values()) for c in refa}, "run-time panic condition sites")

# functions that some property's check reads with a rule of its own (not only through the generic normal-form rules)
import subprocess, tempfile, glob as _glob
_ev = tempfile.mkdtemp(prefix="refded-", dir=os.path.join(os.path.dirname(os.path.abspath(__file__)), ".work"))
_here = os.path.dirname(os.path.abspath(__file__))
_claimed = [c["property_id"] for c in json.load(open(os.path.join(_here, "MANIFEST.json")))["checks"]]
ded = set()
for _pid in _claimed:
    subprocess.run([os.path.join(_here, "check"), _pid, "--tier", "thorough"], cwd=_here, capture_output=True, text=True,
                   env=dict(os.environ, VERIF_EVIDENCE_DIR=_ev, VERIF_FACT_CACHE="1"))
for _p in _glob.glob(_ev + "/C*.json"):
    ded |= set(json.load(open(_p))["coverage"].get("function_paths_read_by_dedicated_rules", []))
json.dump(sorted(ded), open(os.path.join(_here, "sa", "ref_dedicated.json"), "w"), indent=0)
import shutil as _sh
_sh.rmtree(_ev, ignore_errors=True)
print(len(ded), "function paths read by dedicated rules")

# values of the constants rustc can evaluate
from sa.rules import data as _data
refc = {}
for cfg, prog in facts.load_many(list(facts.CONFIGS)).items():
    for path, c in prog.consts.items():
        if c.get("generic") or path.endswith("::_") or "::_::" in path:
            continue
        v = _data._const_value(c)
        if v is None:
            continue
        if path in refc and refc[path] != v:
            refc[path] = None   # configuration dependent: not recorded
        elif path not in refc:
            refc[path] = v
refc = {k: v for k, v in refc.items() if v is not None}
json.dump(refc, open(os.path.join(os.path.dirname(os.path.abspath(__file__)), "sa", "ref_consts.json"), "w"), indent=0, sort_keys=True)
print(len(refc), "constant values")
