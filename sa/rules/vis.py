"""SA-VIS: who can touch the representation (driver facts: effective visibilities, field visibilities, signatures)."""
import re

R = "SA-VIS"
PRIVATE_REPR = [
    "internals::hash::FuzzyHashData", "internals::hash_dual::FuzzyHashDualData", "internals::compare::FuzzyHashCompareTarget",
    "internals::compare::position_array::BlockHashPositionArray", "internals::generate::Generator", "internals::generate::GeneratorInnerData",
    "internals::generate::BlockHashContext", "internals::generate::hashes::rolling_hash::RollingHash",
    "internals::generate::hashes::partial_fnv::PartialFNVHash",
]
# accumulating initialisers / raw mutable views / encoders: must not be reachable from outside the crate
INTERNAL_ONLY = [
    r"FuzzyHashCompareTarget::init_from_partial$", r"FuzzyHashCompareTarget::block_hash_[12]_mut$",
    r"BlockHashPositionArrayImplMutInternal::", r"BlockHashPositionArrayImplMutInternal>::", r"BlockHashPositionArrayDataMut",
    r"hash_dual::algorithms::update_rle_block$", r"hash_dual::algorithms::compress_block_hash_with_rle$",
    r"hash_dual::algorithms::expand_block_hash_using_rle$", r"_internal$", r"algorithms::normalize_block_hash_in_place",
    r"algorithms::parse_block_hash_from_bytes$",
]


def representation_private(ctx, prog):
    ctx.rule(R, "facts from the type-checked crate: fields of the invariant-carrying types are not visible outside the crate; no exported safe function hands out `&mut` into them; accumulating initialisers, mutable views, encoders and *_internal functions are not exported; every exported *_unchecked function is `unsafe`")
    n = 0
    for path in PRIVATE_REPR:
        a = prog.adts.get(path)
        if a is None:
            ctx.ob("ANCHOR", "type %s" % path, False, "not found")
            continue
        for v in a["variants"]:
            for fl in v["fields"]:
                n += 1
                ctx.ob(R, "%s.%s is not visible outside the crate" % (path.split("::")[-1], fl["name"]), fl["vis"] != "pub", "visibility %s" % fl["vis"])
    ctx.floor(R, n, 35, "fields of the invariant-carrying types")
    # exported safe functions returning &mut: only the builder-style `&mut Self` of the generator/hash primitives
    for s in prog.raw["sigs"]:
        if not s["exported"] or s["unsafe"]:
            continue
        if s["output"].startswith("&mut"):
            inner = s["output"][5:]
            ok = inner in ("internals::generate::Generator", "internals::generate::hashes::rolling_hash::RollingHash", "internals::generate::hashes::partial_fnv::PartialFNVHash") \
                and s["inputs"] and s["inputs"][0] == "&mut " + inner
            ctx.ob(R, "exported %s returns &mut only as the builder-style `&mut Self`" % s["path"], ok, "-> %s" % s["output"])
    m = 0
    for s in prog.raw["sigs"]:
        for rx in INTERNAL_ONLY:
            if re.search(rx, s["path"]):
                m += 1
                ctx.ob(R, "%s is not exported" % s["path"], not s["exported"], "exported=%s reachable=%s" % (s["exported"], s["reachable"]))
                break
    ctx.floor(R, m, 30, "internal-only functions")
    u = 0
    for s in prog.raw["sigs"]:
        if s["path"].endswith("_unchecked") and s["exported"]:
            u += 1
            ctx.ob(R, "exported %s is an unsafe fn" % s["path"], s["unsafe"], "unsafe=%s" % s["unsafe"])
    if prog.cfg in ("unchecked", "unsafe", "unsafe_dbg"):
        ctx.floor(R, u, 24, "exported *_unchecked functions")


_REF_IMPLS = None


def trait_census(ctx, prog, scope=None):
    """the methods each trait impl defines are those of the reviewed tree (sa/ref_impls.json): a NEW override of a provided
    method (`Iterator::nth`, `PartialEq::ne`, `PartialOrd::lt`, `Ord::max`, a default method of one of the crate's own
    traits ...) is a second implementation of behaviour the rules only checked once, and a new impl of a watched core trait
    is a new public behaviour; both must be reviewed before the per-method rules can speak for the type"""
    import json, os, re
    global _REF_IMPLS
    R = "SA-WHOMAYCALL"
    if _REF_IMPLS is None:
        try:
            with open(os.path.join(os.path.dirname(os.path.dirname(os.path.abspath(__file__))), "ref_impls.json")) as fh:
                _REF_IMPLS = json.load(fh)
        except OSError:
            _REF_IMPLS = {}
    ctx.rule(R, "trait-override census: every method defined in a (non-derived) trait impl of the crate is one the reviewed tree defines for that impl; new overrides of provided methods and new impls of watched core traits are reported")
    watched = ("core::cmp::", "core::hash::Hash", "core::iter::", "core::ops::", "core::convert::", "core::str::FromStr", "core::fmt::Display", "internals::")
    rx = re.compile(scope) if scope else None
    tab = {}
    for f in prog.fns:
        if f.impl_trait and not f.derived and "closure" not in f.path:
            tab.setdefault("%s for %s" % (f.impl_trait, f.impl_self), set()).add(f.path.split("::")[-1])
    n = 0
    for key, methods in sorted(tab.items()):
        if rx and not rx.search(key):
            continue
        if not key.startswith(watched):
            continue
        n += 1
        ref = _REF_IMPLS.get(key)
        if ref is None:
            ctx.ob(R, "impl %s is a reviewed impl" % key, False, "not on the reviewed tree; defines %s" % sorted(methods))
            continue
        extra = sorted(methods - set(ref))
        ctx.ob(R, "impl %s defines only reviewed methods" % key, not extra, "new: %s" % extra if extra else "%s" % sorted(methods))
    return n
