#!/bin/sh
# evaluate area-organised deliverables (round 6): /tmp/seed8/<area>/OUT/{patchN.diff,demoN.rs,metaN.json}; the property a change
# breaks is named in its meta file; it is stored under the next free index of that property.  Frozen snapshot of /verif HEAD.
R=${SEED_ROOT:-/tmp/seed8}
SNAP=/tmp/verif-snap-$$
git -C /verif worktree add -q --detach $SNAP HEAD
export VERIF_CHECK_DIR=$SNAP VERIF_DRIVER=/verif/driver/target/release/ffz-mir SEED_ROOT=$R
for area in "$@"; do
  for n in 1 2 3; do
    if [ -f $R/$area/OUT/patch$n.diff ] && [ -f $R/$area/OUT/meta$n.json ]; then
      pid=$(python3 -c "import json;print(json.load(open('$R/$area/OUT/meta$n.json'))['property'])")
      k=1; until mkdir /verif/seeded/$pid-$k 2>/dev/null; do k=$((k+1)); done
      SEED_WT=$R/$area SEED_INDEX=$k /verif/tools_seed.py $pid $n > $R/$area.eval$n.log 2>&1
      echo "$area $n -> $pid-$k" >> $R/area_map.txt
    fi
  done
done
git -C /verif worktree remove --force $SNAP
echo finished > $R/evalarea.$$.done
