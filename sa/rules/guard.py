"""SA-GUARD: the condition under which a function reaches an outcome, as exact guards.

An *outcome* is a set of blocks (e.g. where `_0 = Err(E::Variant)` is built, or a
constant is returned).  `exact_guard` returns the necessary conditions (switch
edges every path to the outcome must take) and whether they are also sufficient
(taking those edges at those switches always ends in the outcome)."""
from ..sym import Sym, path_conds, controlling_edges, edge_cond, bool_atom, interval, strip, show, fpath
from ..mir import callee_of


def blocks_returning_variant(f, sy, outer_variant, inner_variant=None):
    """blocks that assign the return place an aggregate `outer_variant` (e.g. 'Result::Err')
    whose first operand is an aggregate ending with `inner_variant`"""
    out = []
    for i, j, s in f.stmts():
        if s["s"] != "assign" or s["lhs"]["l"] != 0 or s["lhs"]["p"]:
            continue
        e = sy.rvalue(s["rv"])
        if e[0] == "agg" and e[1].endswith(outer_variant):
            if inner_variant is None:
                out.append(i)
            elif e[2] and e[2][0][0] == "agg" and e[2][0][1].endswith("::" + inner_variant):
                out.append(i)
    return sorted(set(out))


def blocks_assigning_ret(f, sy, pred):
    out = []
    for i, j, s in f.stmts():
        if s["s"] == "assign" and s["lhs"]["l"] == 0 and not s["lhs"]["p"]:
            if pred(sy.rvalue(s["rv"])):
                out.append(i)
    return sorted(set(out))


def common_controlling(f, blocks):
    sets = [set(controlling_edges(f, b)) for b in blocks]
    return set.intersection(*sets) if sets else set()


def exact_guard(f, sy, blocks, also_ok=()):
    """(conds, sufficient): conds = [(expr, rel, vals, (switch, succ))...] common to all `blocks`;
    sufficient = when every controlling switch takes its controlling edge, no return is reachable
    without passing one of `blocks`."""
    ce = common_controlling(f, blocks)
    # conditions whose other arm only panics (assert!/debug_assert!/invariant!) are preconditions, not part of the guard
    from ..mir import is_panic_call
    ce = {(s, e) for (s, e) in ce if not all(is_panic_call(f.blocks[x]["term"]) for x in f.lsuccs(s) if x != e)}
    conds = []
    for s, e in sorted(ce):
        c = edge_cond(f, sy, s, e)
        if c is None:
            return None, False
        conds.append(c + ((s, e),))
    forced = {}
    for s, e in ce:
        forced[s] = e
    seen = set()
    st = [0]
    suff = True
    B = set(blocks) | set(also_ok)
    while st:
        n = st.pop()
        if n in seen or n in B:
            continue
        seen.add(n)
        t = f.blocks[n]["term"]["t"]
        if t == "return":
            suff = False
            break
        if n in forced:
            st.append(forced[n])
        else:
            st += f.lsuccs(n)
    return conds, suff


def atoms(conds):
    out = []
    for c in conds:
        if c[0][0] == "discr":
            # (tests on the payload of `checked_sub` and on an `Ordering` are comparisons: bool_atom knows them)
            a = bool_atom(c)
            out.append(a if a is not None and a[0] != "truth" else ("raw",) + tuple(c[:3]))
        else:
            out.append(bool_atom(c) or ("raw",) + tuple(c[:3]))
    return out


def show_atom(a):
    if a[0] == "truth":
        return "%s is %s" % (show(a[1]), a[2])
    if a[0] == "raw":
        return "%s %s %s" % (show(a[1]), a[2], a[3])
    return "%s %s %s" % (show(a[1]), a[0], show(a[2]))


def match_atoms(ats, specs):
    """each spec is (name, predicate(atom)->bool). Every atom must match exactly one spec and every
    spec must be matched exactly once.  Returns (ok, message)."""
    used = {}
    for a in ats:
        hit = [n for n, p in specs if p(a)]
        if len(hit) != 1:
            return False, "guard component %s %s" % (show_atom(a), "matches no clause of the stated condition" if not hit else "is ambiguous")
        if hit[0] in used:
            return False, "guard component %s duplicates clause %s" % (show_atom(a), hit[0])
        used[hit[0]] = a
    missing = [n for n, _ in specs if n not in used]
    if missing:
        return False, "stated clause(s) %s not found among the guard components [%s]" % (", ".join(missing), "; ".join(show_atom(a) for a in ats))
    return True, "guard = " + " AND ".join(show_atom(a) for a in ats)


def iv_spec(subject_pred, want, maxv=(1 << 64) - 1):
    def p(a):
        iv = interval(a, subject_pred, maxv)
        return iv is not None and iv == want
    return p


def discr_spec(path_pred, variant_index):
    def p(a):
        if a[0] != "raw":
            return False
        e, rel, vals = a[1], a[2], a[3]
        if e[0] != "discr" or not path_pred(e[1]):
            return False
        return rel == "in" and vals == (variant_index,)
    return p


def check_exact(ctx, rule, key, f, sy, blocks, specs, loc=None, need_sufficient=True, also_ok=()):
    if not blocks:
        ctx.ob(rule, key, False, "outcome not found in %s" % f.short, loc or f.loc())
        return False
    conds, suff = exact_guard(f, sy, blocks, also_ok)
    if conds is None:
        ctx.ob(rule, key, False, "guard of the outcome is not in interval/conjunction form", loc or f.loc())
        return False
    ok, msg = match_atoms(atoms(conds), specs)
    if ok and need_sufficient and not suff:
        ok, msg = False, msg + "; but taking these branches does not always produce the outcome (another exit is reachable)"
    sp = f.blocks[blocks[0]]["stmts"][0]["sp"] if f.blocks[blocks[0]]["stmts"] else None
    return ctx.ob(rule, key, ok, msg, loc or (f.loc(sp) if sp else f.loc()))
