//! Type-level witnesses (compile_fail doc tests with error codes, each paired with a compiling twin that differs only by
//! the offending line).  They cross-check facts the fact extractor already reports (field visibility, exportedness,
//! receivers); they are part of the thorough tier of C11 / C17 / C03.  Twins are `no_run`: nothing of the library executes.

/// W1 — the representation of a hash object is private (E0616).
/// ```compile_fail,E0616
/// let h = ssdeep::FuzzyHash::new();
/// let _x = h.blockhash1;            // private field
/// ```
/// twin:
/// ```no_run
/// let h = ssdeep::FuzzyHash::new();
/// let _x = h.block_hash_1();
/// ```
pub struct W1;

/// W2 — a length cannot be poked from outside (E0616).
/// ```compile_fail,E0616
/// let mut h = ssdeep::RawFuzzyHash::new();
/// h.len_blockhash1 = 3;             // private field
/// ```
/// twin:
/// ```no_run
/// let mut h = ssdeep::RawFuzzyHash::new();
/// let _n = h.block_hash_1_len();
/// h = ssdeep::RawFuzzyHash::new();
/// let _ = h;
/// ```
pub struct W2;

/// W3 — the accumulating partial initialiser of a comparison target is not callable (E0624).
/// ```compile_fail,E0624
/// let h = ssdeep::FuzzyHash::new();
/// let mut t = ssdeep::FuzzyHashCompareTarget::new();
/// t.init_from_partial(&h);          // private method (requires cleared masks)
/// ```
/// twin:
/// ```no_run
/// let h = ssdeep::FuzzyHash::new();
/// let mut t = ssdeep::FuzzyHashCompareTarget::new();
/// t.init_from(&h);
/// ```
pub struct W3;

/// W4 — the internal mutable position-array traits cannot be named (E0432 / E0603).
/// ```compile_fail,E0432
/// use ssdeep::internal_comparison::BlockHashPositionArrayImplMutInternal;
/// ```
/// twin:
/// ```no_run
/// use ssdeep::internal_comparison::BlockHashPositionArrayImpl;
/// ```
pub struct W4;

/// W5 — updating needs `&mut Generator` (E0596); finalising does not.
/// ```compile_fail,E0596
/// let g = ssdeep::Generator::new();
/// g.update(b"abc");                 // cannot borrow as mutable
/// ```
/// twin:
/// ```no_run
/// let g = ssdeep::Generator::new();
/// let _ = g.finalize();
/// ```
pub struct W5;

/// W6 — the RLE side table and the normalised part of a dual hash are private (E0616).
/// ```compile_fail,E0616
/// let d = ssdeep::DualFuzzyHash::new();
/// let _r = d.rle_block1;
/// ```
/// twin:
/// ```no_run
/// let d = ssdeep::DualFuzzyHash::new();
/// let _r = d.as_normalized();
/// ```
pub struct W6;

/// W7 — the masks of a comparison target are private (E0616).
/// ```compile_fail,E0616
/// let t = ssdeep::FuzzyHashCompareTarget::new();
/// let _m = t.blockhash1;
/// ```
/// twin:
/// ```no_run
/// let t = ssdeep::FuzzyHashCompareTarget::new();
/// let _m = t.block_hash_1();
/// ```
pub struct W7;

/// W8 — the mutable view accessor of a comparison target is private (E0624).
/// ```compile_fail,E0624
/// let mut t = ssdeep::FuzzyHashCompareTarget::new();
/// let _v = t.block_hash_1_mut();
/// ```
/// twin:
/// ```no_run
/// let t = ssdeep::FuzzyHashCompareTarget::new();
/// let _v = t.block_hash_1();
/// ```
pub struct W8;
