#!/bin/sh
# evaluate all delivered seeds of the given property ids sequentially (background friendly), with a FROZEN snapshot of
# /verif's committed HEAD so that edits made meanwhile do not disturb the evaluation
R=${SEED_ROOT:-/tmp/seed}
SNAP=/tmp/verif-snap-$$
git -C /verif worktree add -q --detach $SNAP HEAD
export VERIF_CHECK_DIR=$SNAP VERIF_DRIVER=/verif/driver/target/release/ffz-mir
for id in "$@"; do
  for n in 1 2 3; do
    if [ -f $R/$id/OUT/patch$n.diff ] && [ -f $R/$id/OUT/meta$n.json ]; then
      /verif/tools_seed.py $id $n > $R/$id.eval$n.log 2>&1
    fi
  done
done
git -C /verif worktree remove --force $SNAP
echo finished > $R/evalall.$$.done
