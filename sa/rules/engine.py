"""Generator engine rules (C03, C14): SA-SIBLING (three update forms are one step), SA-LOOPSTATE (no hidden per-call state),
size accounting, finalisation purity, SA-MIRROR (pointer caches of the unsafe variant)."""
import re
from ..sym import Sym, strip, show, canon, fpath, is_param, const_value
from ..mir import callee_of, pl, op, rv, succs
from . import errpure
from .fold import iter_source, whole_input

R = "SA-SIBLING"
FORMS = ("Generator::update", "Generator::update_by_iter", "Generator::update_by_byte")


def region(f):
    """outer loop over the input: (header block = iterator next() call, Some-arm target, blocks of the loop body in DFS order)"""
    H = None
    for i in range(len(f.blocks)):
        if i not in f.live:
            continue
        t = f.blocks[i]["term"]
        if t["t"] == "call" and callee_of(t).endswith("::next"):
            H = i
            break
    if H is None:
        raise ValueError("no iterator loop in %s" % f.path)
    sw = f.blocks[H]["term"]["to"]
    t = f.blocks[sw]["term"]
    some = [a[1] for a in t["arms"] if a[0] == "1"][0]
    none = [a[1] for a in t["arms"] if a[0] == "0"]
    none = none[0] if none else t["otherwise"]
    order = []
    seen = set()

    def dfs(n):
        if n in seen or n == H or n not in f.live:
            return
        seen.add(n)
        order.append(n)
        for s in f.lsuccs(n):
            dfs(s)
    dfs(some)
    return H, sw, some, none, order


def canon_region(f, start_pred=None, skip_stmt=None):
    """canonical text of the per-byte region: blocks renumbered in DFS order, locals renumbered in first-use order"""
    H, sw, some, none, order = region(f)
    start = some
    if start_pred is not None:
        cand = [n for n in order if start_pred(f.blocks[n])]
        if not cand:
            raise ValueError("region start not found in %s" % f.path)
        start = cand[0]
        order2 = []
        seen = set()

        def dfs(n):
            if n in seen or n == H or n not in f.live:
                return
            seen.add(n)
            order2.append(n)
            for s in f.lsuccs(n):
                dfs(s)
        dfs(start)
        order = order2
    bmap = {n: i for i, n in enumerate(order)}

    def tgt(x):
        return "B%d" % bmap[x] if x in bmap else ("H" if x == H else "X")
    lines = []
    for n in order:
        b = f.blocks[n]
        if not (start_pred is not None and n == start):
            for s in b["stmts"]:
                if s["s"] != "assign":
                    continue
                if skip_stmt and skip_stmt(s):
                    continue
                lines.append("%s = %s" % (pl(s["lhs"]), rv(s["rv"])))
        t = b["term"]
        if t["t"] == "call":
            lines.append("%s = CALL %s(%s) -> %s" % (pl(t["dest"]), callee_of(t), ", ".join(op(a) for a in t["args"]), tgt(t["to"]) if t["to"] is not None else "!"))
        elif t["t"] == "switch":
            ls = f.lsuccs(n)
            if len(set(ls)) == 1:
                lines.append("GOTO " + tgt(ls[0]))
            else:
                lines.append("SWITCH %s %s else %s" % (op(t["on"]), [(a[0], tgt(a[1])) for a in t["arms"]], tgt(t["otherwise"])))
        elif t["t"] == "goto":
            lines.append("GOTO " + tgt(t["to"]))
        elif t["t"] == "assert":
            lines.append("ASSERT %s %s -> %s" % (op(t["cond"]), t["msg"]["a"], tgt(t["to"])))
        elif t["t"] == "drop":
            lines.append("DROP -> %s" % tgt(t["to"]))
        else:
            lines.append(t["t"])
    lm = {}

    def L(m):
        k = int(m.group(1))
        if k not in lm:
            lm[k] = len(lm)
        return "v%d" % lm[k]
    return [re.sub(r"_(\d+)", L, l) for l in lines]


def is_roll_update(b):
    t = b["term"]
    return t["t"] == "call" and callee_of(t).endswith("RollingHash::update_by_byte")


def siblings(ctx, prog):
    ctx.rule(R, "the three update forms are expansions of one template: from the rolling-hash update of the current byte to the back edge of the input loop, their canonicalised MIR regions (blocks in DFS order, locals renumbered by first use) are identical; a hand-specialised path in one form is reported with the first differing statement")
    fs = [prog.fn(x) for x in FORMS]
    for f in fs:
        ctx.visit(f)
    cs = [canon_region(f, start_pred=is_roll_update) for f in fs]
    for k in (1, 2):
        same = cs[0] == cs[k]
        why = "%d canonical lines each" % len(cs[0])
        if not same:
            for idx, (a, b) in enumerate(zip(cs[0], cs[k])):
                if a != b:
                    why = "first difference at line %d: `%s` vs `%s`" % (idx, a[:110], b[:110])
                    break
            else:
                why = "lengths differ: %d vs %d" % (len(cs[0]), len(cs[k]))
        ctx.ob(R, "per-byte region of %s is identical to that of %s" % (fs[k].short.split("::")[-1], fs[0].short.split("::")[-1]), same, why, fs[k].loc())
    ctx.floor(R, len(cs[0]), 120, "canonical lines in the per-byte region")
    # each form feeds the step the byte just yielded by the iterator over its whole input
    for f, inp in zip(fs, ("buffer", "iter", "ch")):
        sy = Sym(f)
        H, sw, some, none, order = region(f)
        t = f.blocks[H]["term"]
        src = iter_source(sy.origin(sy.operand(t["args"][0])))
        ok = whole_input(src, inp)
        ctx.ob(R, "%s iterates over its whole input `%s`" % (f.short.split("::")[-1], inp), ok, "iterator source %s" % show(src)[:120], f.loc(t["sp"]))
        ru = [n for n in order if is_roll_update(f.blocks[n])]
        ok = len(ru) == 1
        why = "%d rolling-hash update sites" % len(ru)
        if ok:
            a = sy.operand(f.blocks[ru[0]]["term"]["args"][1])
            r, names = fpath(a)
            ok = r[0] == "call" and r[3] == H and names[:2] == ("<Some>", "0")
            why = "step byte = %s" % show(a)[:100]
            # the step is on every path from the Some arm to the next iteration
            reach = f.reach_from(some, avoid={ru[0]})
            ok = ok and H not in reach
        ctx.ob(R, "%s: every yielded byte enters the step exactly once" % f.short.split("::")[-1], ok, why, f.loc())


def uses_defs(f):
    """block-level upward-exposed uses / defs / assigned (incl. &mut borrowed) locals"""
    UE, DEF, ASG = {}, {}, {}

    def upl(p, acc):
        acc.add(p["l"])
        for e in p["p"]:
            if isinstance(e, dict) and "ix" in e:
                acc.add(e["ix"])

    def uop(o, acc):
        if o and o["k"] in ("copy", "move"):
            upl(o["pl"], acc)
    for i in f.live:
        b = f.blocks[i]
        d = set()
        ue = set()
        asg = set()
        for s in b["stmts"]:
            if s["s"] != "assign":
                continue
            u = set()
            r = s["rv"]
            k = r["r"]
            if k in ("use", "un", "cast", "repeat"):
                uop(r["a"], u)
            elif k == "bin":
                uop(r["a"], u)
                uop(r["b"], u)
            elif k in ("ref", "rawptr", "discr"):
                upl(r["pl"], u)
                if k != "discr" and (k == "rawptr" or r["mut"]) and "*" not in r["pl"]["p"]:
                    asg.add(r["pl"]["l"])
            elif k == "agg":
                for o in r["ops"]:
                    uop(o, u)
            lhs = s["lhs"]
            if lhs["p"]:
                u.add(lhs["l"])
                for e in lhs["p"]:
                    if isinstance(e, dict) and "ix" in e:
                        u.add(e["ix"])
                if "*" not in lhs["p"]:
                    asg.add(lhs["l"])
            ue |= {x for x in u if x not in d}
            if not lhs["p"]:
                d.add(lhs["l"])
                asg.add(lhs["l"])
        t = b["term"]
        u = set()
        if t["t"] == "switch":
            uop(t["on"], u)
        elif t["t"] == "call":
            for a in t["args"]:
                uop(a, u)
            if t.get("fop"):
                uop(t["fop"], u)
        elif t["t"] == "assert":
            uop(t["cond"], u)
            for v in t["msg"].values():
                if isinstance(v, dict):
                    uop(v, u)
        elif t["t"] == "drop":
            upl(t["pl"], u)
        ue |= {x for x in u if x not in d}
        if t["t"] == "call":
            if not t["dest"]["p"]:
                d.add(t["dest"]["l"])
                asg.add(t["dest"]["l"])
            else:
                ue.add(t["dest"]["l"])
        UE[i], DEF[i], ASG[i] = ue, d, asg
    return UE, DEF, ASG


def loop_carried(f):
    """locals live at the loop header that are assigned inside the loop"""
    H, sw, some, none, order = region(f)
    loop = set(order) | {H, sw}
    UE, DEF, ASG = uses_defs(f)
    IN = {i: set() for i in f.live}
    OUT = {i: set() for i in f.live}
    ch = True
    while ch:
        ch = False
        for i in sorted(f.live, reverse=True):
            o = set()
            for s in f.lsuccs(i):
                o |= IN[s]
            ni = UE[i] | (o - DEF[i])
            if ni != IN[i] or o != OUT[i]:
                IN[i], OUT[i] = ni, o
                ch = True
    assigned = set()
    for i in loop:
        assigned |= ASG.get(i, set())
    carried = IN[H] & assigned
    return sorted(carried)


def loop_state(ctx, prog):
    RL = "SA-LOOPSTATE"
    ctx.rule(RL, "liveness across the back edge of the input loop: the only locals that are live at the loop header and assigned inside the loop are the iterator (and, with the `unsafe` feature, the two pointer caches checked by SA-MIRROR); hence the whole per-byte state lives in *self and the result after any call sequence is a fold of one step function")
    unsafe_cfg = prog.cfg.startswith("unsafe") or prog.cfg == "all"
    for name in FORMS:
        f = prog.fn(name)
        ctx.visit(f)
        c = loop_carried(f)
        desc = [(l, f.locals[l]["name"], f.locals[l]["ty"]) for l in c]
        allowed = []
        bad = []
        caches = set(_ptr_caches(f, Sym(f)).values()) if unsafe_cfg else set()
        for l, nm, ty in desc:
            if "Iter" in ty:
                allowed.append(nm or ty)
            elif l in caches and ty.startswith("*mut"):
                allowed.append("pointer cache")
            else:
                bad.append("%s: %s" % (nm or "_%d" % l, ty))
        ctx.ob(RL, "%s: no local besides the iterator%s is carried across iterations" % (f.short.split("::")[-1], " and the pointer caches" if unsafe_cfg else ""),
               not bad and len(allowed) >= 1, "carried: %s%s" % (allowed, ("; unexpected: %s" % bad) if bad else ""), f.loc())


def accounting(ctx, prog):
    """input_size: slice form adds len of the very slice once before the loop; iterator form +1 per item before the step;
    byte form +1 once"""
    RA = "SA-ACCOUNT"
    ctx.rule(RA, "size accounting: `update` adds a value derived from buffer.len() once, before the loop; `update_by_iter` performs exactly one saturating_add(1) per iteration, before the step; `update_by_byte` adds 1 once; nothing else stores input_size")
    for name, inp in zip(FORMS, ("buffer", "iter", "ch")):
        f = prog.fn(name)
        sy = Sym(f)
        H, sw, some, none, order = region(f)
        stores = [(i, j, s) for i, j, s in f.stmts() if s["s"] == "assign" and pl(s["lhs"]).endswith(".input_size")]
        nm = f.short.split("::")[-1]
        if nm == "update":
            ok = len(stores) >= 1 and all(i not in order and f.dominates(i, H) or i not in order for i, j, s in stores)
            inloop = [i for i, j, s in stores if i in order]
            vals = [show(sy.rvalue(s["rv"]))[:140] for i, j, s in stores]
            # one of the stored values is saturating_add(self.input_size, try_from(len(buffer)).Ok)
            good = False
            cands = []
            for i, j, s in stores:
                e = strip(sy.rvalue(s["rv"]))
                if e[0] == "local":
                    for (blk, idx, kind, x) in f.defs.get(e[1], []):
                        cands.append(strip(sy.rvalue(x) if kind == "rv" else sy.call(x, blk)))
                else:
                    cands.append(e)
            vals = [show(c)[:120] for c in cands]
            others_ok = True
            for e in cands:
                if e[0] == "bin" and e[1] == "Add" and const_value(e[3]) == 1 and strip(e[2])[0] == "const" and (strip(e[2])[2] or "").endswith("MAX_INPUT_SIZE"):
                    continue  # usize wider than u64: mark as over the limit
                if not (e[0] == "call" and e[1].endswith("saturating_add")):
                    others_ok = False
            for e in cands:
                if e[0] == "call" and e[1].endswith("saturating_add"):
                    r, names = fpath(e[2][1])
                    if r[0] == "call" and "try_from" in r[1]:
                        a = strip(r[2][0])
                        good = (a[0] == "call" and a[1].endswith("::len") and is_param(a[2][0], "buffer")) or (a[0] == "len" and is_param(a[1], "buffer"))
            ctx.ob(RA, "update: input_size += buffer.len() (saturating), before the loop, never inside it", good and others_ok and not inloop, "stores: %s" % vals, f.loc())
        elif nm == "update_by_iter":
            inloop = [(i, j, s) for i, j, s in stores if i in order]
            outside = [(i, j, s) for i, j, s in stores if i not in order]
            ok = len(inloop) == 1 and not outside
            why = "%d stores in the loop, %d outside" % (len(inloop), len(outside))
            if ok:
                i, j, s = inloop[0]
                e = strip(sy.rvalue(s["rv"]))
                ok = e[0] == "call" and e[1].endswith("saturating_add") and const_value(e[2][1]) == 1 and canon(strip(e[2][0])).endswith(".input_size")
                ru = [n for n in order if is_roll_update(f.blocks[n])]
                ok = ok and len(ru) == 1 and f.dominates(i, ru[0]) and f.dominates(some, i)
                # on every path Some -> step
                ok = ok and ru[0] not in f.reach_from(some, avoid={i})
                why = "input_size = %s before the step on every iteration" % show(e)[:80]
            ctx.ob(RA, "update_by_iter: exactly one input_size.saturating_add(1) per yielded item, before the step", ok, why, f.loc())
        else:
            inloop = [i for i, j, s in stores if i in order]
            ok = len(stores) == 1 and not inloop
            why = "%d stores" % len(stores)
            if ok:
                e = strip(sy.rvalue(stores[0][2]["rv"]))
                ok = e[0] == "call" and e[1].endswith("saturating_add") and const_value(e[2][1]) == 1 and f.dominates(stores[0][0], H)
                why = show(e)[:80]
            ctx.ob(RA, "update_by_byte: input_size.saturating_add(1) once, before the loop", ok, why, f.loc())


def outside_loop_writes(ctx, prog):
    """outside the input loop a form may only update input_size: any other store to *self (or &mut hand-off of self)
    before/after the loop would be state handling that the other forms do not have"""
    for name in FORMS:
        f = prog.fn(name)
        sy = Sym(f)
        H, sw, some, none, order = region(f)
        loop = set(order) | {H, sw}
        al = errpure.mut_aliases(f, {1})
        bad = []
        for b in sorted(f.live - loop):
            for d, sp in errpure.writes_in_block(f, b, al, allowed_callees=()):
                if d.startswith("store") and d.endswith(".input_size"):
                    continue
                if d.startswith("&mut handed") and ("as_mut_ptr" in d or "IntoIterator" in d or "::iter" in d or d.endswith("<impl *mut T>::add")):
                    # pointer-cache set-up of the unsafe variant (checked by SA-MIRROR); pointer arithmetic does not write
                    continue
                bad.append((d, sp))
        ctx.ob("SA-ACCOUNT", "%s: outside the input loop only input_size is written" % f.short.split("::")[-1], not bad,
               "; ".join(d for d, sp in bad)[:300] or "no other store or &mut hand-off of *self outside the loop", f.loc(bad[0][1]) if bad else f.loc())


def finalize_pure(ctx, prog):
    """all finalisers take &self, Generator has no interior mutability, and no body in their closure stores through a
    pointer derived from a `&self` parameter of generator types"""
    RP = "SA-PURE"
    ctx.rule(RP, "finalisation purity: every finaliser takes `&Generator`; the generator's field types contain no interior mutability (no Cell/RefCell/Atomic/UnsafeCell/raw pointer fields); no function in the call-graph closure of the finalisers writes through its parameters of generator-related types")
    ents = [f for f in prog.fns if f.path.startswith("internals::generate::Generator::finalize") and "closure" not in f.path] + \
           [prog.fn("Generator::input_size"), prog.fn("Generator::may_warn_about_small_input_size")]
    for f in ents:
        sig = prog.sigs.get(f.path)
        ctx.ob(RP, "%s takes &Generator (shared)" % f.short, bool(sig) and sig["inputs"][0] == "&internals::generate::Generator", "receiver %s" % (sig["inputs"][0] if sig else None), f.loc())
    bad = []
    for an in ("internals::generate::Generator", "internals::generate::GeneratorInnerData", "internals::generate::BlockHashContext",
               "internals::generate::hashes::rolling_hash::RollingHash", "internals::generate::hashes::partial_fnv::PartialFNVHash"):
        a = prog.adts.get(an)
        if not a:
            bad.append("missing " + an)
            continue
        for v in a["variants"]:
            for fl in v["fields"]:
                if re.search(r"Cell|Atomic|Mutex|RwLock|\*mut|\*const|UnsafeCell|Rc<|Arc<|&", fl["ty"]):
                    bad.append("%s.%s: %s" % (an.split("::")[-1], fl["name"], fl["ty"]))
    ctx.ob(RP, "generator state types have no interior mutability or pointer fields", not bad, "; ".join(bad) or "5 types, plain data fields only")
    cl = prog.closure([f for f in ents if "finalize" in f.path])
    n = 0
    for g in cl:
        ctx.visit(g)
        n += 1
        # parameters of shared-reference type to generator-related types must not be written through
        for p in range(1, g.argc + 1):
            ty = g.locals[p]["ty"]
            if ty.startswith("&") and not ty.startswith("&mut") and re.search(r"generate::(Generator|GeneratorInnerData|BlockHashContext|hashes::)", ty):
                al = {p}
                for i, j, s in g.stmts():
                    if s["s"] == "assign" and s["lhs"]["l"] in al and "*" in s["lhs"]["p"]:
                        ctx.ob(RP, "%s does not write through its &%s parameter" % (g.short, ty.split("::")[-1]), False, "store %s" % pl(s["lhs"]), g.loc(s["sp"]))
        # and no raw-pointer writes at all in the closure
        for i, j, s in g.stmts():
            if s["s"] == "assign" and "*" in s["lhs"]["p"] and g.locals[s["lhs"]["l"]]["ty"].startswith("*mut"):
                ctx.ob(RP, "%s performs no raw-pointer store" % g.short, False, "store %s" % pl(s["lhs"]), g.loc(s["sp"]))
    ctx.ob(RP, "no body in the finalisers' closure writes through a shared generator reference or a raw pointer", True, "%d bodies inspected" % n)
    # Clone is derived (bitwise copy of plain data)
    cl_impl = [f for f in prog.fns if f.impl_trait == "core::clone::Clone" and f.impl_self == "internals::generate::Generator"]
    ctx.ob(RP, "Generator: Clone is derived", len(cl_impl) == 1 and cl_impl[0].derived, "derived=%s" % (cl_impl[0].derived if cl_impl else None))


def add_assign_forms(ctx, prog):
    from . import fold
    fold.doc(ctx)
    n = 0
    for g in prog.fns:
        if g.impl_self == "internals::generate::Generator" and g.impl_trait.startswith("core::ops::AddAssign") and g.path.endswith("::add_assign"):
            arg = g.impl_trait.split("<", 1)[1]
            tgt = "Generator::update_by_byte" if arg.startswith("u8") else "Generator::update"
            fold.check_forward(ctx, g, tgt, g.locals[2]["name"])
            n += 1
    ctx.floor(fold.R, n, 3, "Generator `+=` forms")


def mirror(ctx, prog):
    """unsafe variant: bhrange0/bhrange1 cache base + bhidx_start / bhidx_end: initialised from those fields and
    advanced by add(1) in the same block as every `field += 1`, and nowhere else"""
    RM = "SA-MIRROR"
    ctx.rule(RM, "pointer caches of the `unsafe` engine: a local initialised as base.add(self.F) is advanced by add(1) in the same straight-line block as every store F = F + 1, and assigned nowhere else")
    for name in FORMS:
        f = prog.fn(name)
        ctx.visit(f)
        sy = Sym(f)
        caches = _ptr_caches(f, sy)
        for field in ("bhidx_start", "bhidx_end"):
            if field not in caches:
                ctx.ob(RM, "%s: pointer cache of %s present" % (f.short.split("::")[-1], field), False, "caches found: %s" % sorted(caches), f.loc())
                continue
            l = caches[field]
            lname = f.locals[l]["name"]
            defs = f.defs.get(l, [])
            init = 0
            adv = []
            bad = []
            for (blk, idx, kind, x) in defs:
                e = strip(sy.rvalue(x) if kind == "rv" else sy.call(x, blk))
                if e[0] == "call" and e[1].endswith("::add") and len(e[2]) == 2:
                    a0, a1 = strip(e[2][0]), strip(e[2][1])
                    if a0 == ("local", l, lname) and const_value(a1) == 1:
                        adv.append(blk)
                        continue
                    if canon(a1).endswith("." + field) and "as_mut_ptr" in canon(a0):
                        init += 1
                        continue
                bad.append(show(e)[:80])
            # field increments
            incs = []
            for i, j, s in f.stmts():
                if s["s"] == "assign" and pl(s["lhs"]).endswith("." + field):
                    v = strip(sy.rvalue(s["rv"]))
                    if v[0] == "bin" and v[1] == "Add" and const_value(v[3]) == 1:
                        incs.append(i)
            # the advance call sits in the block chain right after the increment: same block or the call terminating it
            paired = len(incs) == len(adv) == 1 and (incs[0] == adv[0] or f.dominates(incs[0], adv[0]) and adv[0] in f.lsuccs(incs[0]) + [incs[0]] or f.dominates(adv[0], incs[0]) and incs[0] in f.lsuccs(adv[0]))
            ctx.ob(RM, "%s: the pointer cache of %s is base.add(%s) initially, advanced by add(1) together with every %s += 1, assigned nowhere else" % (f.short.split("::")[-1], field, field, field),
                   init == 1 and paired and not bad, "init %d, advances at bb%s, increments at bb%s, other assignments %s" % (init, adv, incs, bad), f.loc())


# ---- SA-STEP: decision thresholds of the engine agree with each other and with the block-size rule -----------------

def _atoms_at(f, sy, blk):
    from ..sym import path_conds, bool_atom
    out = []
    for c in path_conds(f, sy, blk):
        a = bool_atom(c)
        if a:
            out.append(a)
    return out


def _norm_cmp(a):
    """(op, lhs_canon, rhs_canon) with Gt/Ge rewritten so the constant side is on the right where possible"""
    if a[0] in ("Lt", "Le", "Gt", "Ge", "Eq", "Ne"):
        return (a[0], canon(strip(a[1])), canon(strip(a[2])))
    return (a[0], canon(strip(a[1])), a[2])


def step_thresholds(ctx, prog):
    RS = "SA-STEP"
    ctx.rule(RS, "decision thresholds of the generator engine as exact branch conditions over named fields/constants: block-size elimination (bhidx_start += 1, roll_mask = 2*roll_mask+1, elim_border *= 2, all in one block) happens only when at least two contexts are active, the size border is passed and the NEXT context already holds >= HALF_SIZE pieces - the same constant below which guess_output_log_block_size halves the block size; so an eliminated context is never one the final guess would fall back to")
    half = "internals::hash::block::block_hash::HALF_SIZE=32"
    for name in FORMS:
        f = prog.fn(name)
        ctx.visit(f)
        sy = Sym(f)
        nm = f.short.split("::")[-1]
        # the elimination block: stores bhidx_start + 1
        eb = [i for i, j, s in f.stmts() if s["s"] == "assign" and pl(s["lhs"]).endswith(".bhidx_start")]
        ok = len(eb) == 1
        if not ok:
            ctx.ob(RS, "%s: one elimination site" % nm, False, "%d stores to bhidx_start" % len(eb), f.loc())
            continue
        b = eb[0]
        # companions in the same straight-line region (same block or its call-chain successors up to the next branch)
        region_blocks = [b]
        cur = b
        for _ in range(6):
            nx = f.lsuccs(cur)
            if len(nx) != 1 or f.blocks[cur]["term"]["t"] == "switch":
                break
            cur = nx[0]
            region_blocks.append(cur)
        stores = {}
        for rb in region_blocks:
            for s in f.blocks[rb]["stmts"]:
                if s["s"] == "assign" and s["lhs"]["l"] == 1:
                    stores[pl(s["lhs"]).split(".")[-1]] = canon(strip(sy.rvalue(s["rv"])))
        def dbl(x, ty):
            # doubling modulo 2^n: `x.wrapping_mul(2)`, `x << 1`, `x.wrapping_add(x)` are the same word for every x
            return ("core::num::<impl %s>::wrapping_mul(%s,2)" % (ty, x), "Shl(%s,1)" % x, "core::num::<impl %s>::wrapping_add(%s,%s)" % (ty, x, x),
                    "core::num::<impl %s>::wrapping_shl(%s,1)" % (ty, x))
        want = {
            "bhidx_start": lambda v: v == "Add(param:self.0.bhidx_start,1)",
            "roll_mask": lambda v: v in tuple("core::num::<impl u32>::wrapping_add(%s,1)" % d for d in dbl("param:self.0.roll_mask", "u32")) or
            v in tuple("BitOr(%s,1)" % d for d in dbl("param:self.0.roll_mask", "u32")),
            "elim_border": lambda v: v in dbl("param:self.0.elim_border", "u64"),
        }
        bad = [k for k, p in want.items() if k not in stores or not p(stores[k])]
        ctx.ob(RS, "%s: elimination advances bhidx_start by 1, roll_mask to 2*roll_mask+1 and elim_border to 2*elim_border together" % nm, not bad,
               "stores %s" % {k: stores.get(k) for k in want} if bad else "three coupled stores in one region", f.loc())
        ats = [_norm_cmp(a) for a in _atoms_at(f, sy, b)]
        need = {
            "two contexts active": lambda a: a[0] == "Ge" and a[1] == "Sub(param:self.0.bhidx_end,param:self.0.bhidx_start)" and a[2] == "2",
            "size border passed": lambda a: a[0] == "Lt" and a[1] == "param:self.0.elim_border" and "unwrap_or(param:self.0.fixed_size,param:self.0.input_size)" in a[2],
            "next context has >= HALF_SIZE pieces": lambda a: a[0] == "Ge" and a[1].endswith(".blockhash_index") and ("Add(" in a[1] or "::add(" in a[1]) and a[2] == half or
                (a[0] == "Ge" and a[1].endswith(".blockhash_index") and a[2] == half and "bh_next" in a[1]),
            "current context is full (index not < FULL_SIZE-1)": lambda a: a[0] == "Ge" and a[1].endswith(".blockhash_index") and a[2].startswith("Sub(internals::hash::block::block_hash::FULL_SIZE=64,1"),
        }
        for k, p in need.items():
            hit = [a for a in ats if p(a)]
            ctx.ob(RS, "%s: elimination requires: %s" % (nm, k), bool(hit), "%s" % (hit[0],) if hit else "conditions found: %s" % [a for a in ats if a[0] in ("Ge", "Lt", "Gt", "Le")][:8], f.loc())
        # advance / half-reset thresholds
        adv = [i for i, j, s in f.stmts() if s["s"] == "assign" and pl(s["lhs"]).endswith(".blockhash_index") and s["lhs"]["l"] != 1 or
               (s["s"] == "assign" and pl(s["lhs"]).endswith(".blockhash_index"))]
        adv = sorted(set(adv))
        okadv = False
        for ab in adv:
            for a in [_norm_cmp(x) for x in _atoms_at(f, sy, ab)]:
                if a[0] == "Lt" and a[1].endswith(".blockhash_index") and a[2].startswith("Sub(internals::hash::block::block_hash::FULL_SIZE=64,1"):
                    okadv = True
        ctx.ob(RS, "%s: a context's piece index advances only while index < FULL_SIZE-1" % nm, okadv, "store(s) at bb%s" % adv, f.loc())
    g = prog.fn("Generator::guess_output_log_block_size")
    ctx.visit(g)
    gs = Sym(g)
    def _self_dec(s):
        # `x = x - 1` on a named local (the candidate index being halved), whatever it is called
        if s["s"] != "assign" or s["lhs"]["p"] or not g.locals[s["lhs"]["l"]]["name"]:
            return False
        e = strip(gs.rvalue(s["rv"]))
        if e[0] == "agg" and e[1] == "Tuple":
            e = strip(e[2][0])
        return e[0] == "bin" and e[1] == "Sub" and strip(e[2]) == ("local", s["lhs"]["l"], g.locals[s["lhs"]["l"]]["name"]) and const_value(e[3]) == 1
    dec = [i for i, j, s in g.stmts() if _self_dec(s)]
    ok = len(dec) == 1
    why = "%d decrements" % len(dec)
    if ok:
        ats = [_norm_cmp(a) for a in _atoms_at(g, gs, dec[0])]
        h1 = [a for a in ats if a[0] == "Lt" and a[1].endswith(".blockhash_index") and a[2] == half]
        h2 = [a for a in ats if a[0] == "Gt" and a[2] == "param:self.0.bhidx_start"]
        ok = bool(h1) and bool(h2)
        why = "halves while %s and %s" % (h1[:1], h2[:1])
    ctx.ob(RS, "guess_output_log_block_size halves exactly while log > bhidx_start and that context has < HALF_SIZE pieces (same constant as the elimination test)", ok, why, g.loc())
    # initial candidate: min(size-based index, bhidx_end - 1)
    e = None
    for i, t in g.calls():
        if callee_of(t).endswith("Ord::min"):
            e = gs.call(t, i)
    ok = e is not None and canon(strip(e[2][1])) == "Sub(param:self.0.bhidx_end,1)"
    if ok:
        a0 = strip(e[2][0])
        txt = canon(a0)
        if a0[0] == "local":
            # `log_block_size` is reassigned later: its value at this point is the call result defined in the entry block
            ds = [(blk, kind, x) for (blk, idx, kind, x) in g.defs.get(a0[1], []) if kind == "call"]
            others = [blk for (blk, idx, kind, x) in g.defs.get(a0[1], []) if kind != "call"]
            ok = len(ds) == 1 and g.dominates(ds[0][0], e[3]) and all(g.dominates(e[3], ob) for ob in others)
            txt = canon(gs.call(ds[0][2], 0)) if ok else txt
        ok = ok and "get_log_block_size_from_input_size(param:self.0.input_size,param:self.0.bhidx_start)" in txt
    ctx.ob(RS, "guess_output_log_block_size starts from min(index for input_size (>= bhidx_start), bhidx_end - 1)", ok, show(e)[:200] if e else "no min()", g.loc())


# ---- correspondence of the index engine (safe) and the pointer engine (`unsafe` feature) ---------------------------------

SAFE_PLUMBING = (
    r"^STORE local:i = ", r"^BR Ge\(local:i,param:self\.0\.bhidx_end\)$", r"^CALL~? .*IndexMut<I> for \[T; N\]>::index_mut\(param:self\.0\.bh_context,",
    r"^CALL~? .*IntoIterator for &'a mut \[T\]>::into_iter\(", r"^STORE local:iter = core::slice::iter::", r"^CALL~? <core::slice::IterMut<'a, T> as core::iter::Iterator>::next\(local:iter\)$",
    # the same walk spelled `arr[a..b].iter_mut()`
    r"^CALL~? core::slice::<impl \[T\]>::iter_mut\(core::array::<impl core::ops::IndexMut<I> for \[T; N\]>::index_mut\(param:self\.0\.bh_context,",
    r"^STORE local:iter = <I as core::iter::IntoIterator>::into_iter\(core::slice::<impl \[T\]>::iter_mut\(core::array::<impl core::ops::IndexMut<I> for \[T; N\]>::index_mut\(param:self\.0\.bh_context,",
    r"^CALL~? <I as core::iter::IntoIterator>::into_iter\(core::slice::<impl \[T\]>::iter_mut\(core::array::<impl core::ops::IndexMut<I> for \[T; N\]>::index_mut\(param:self\.0\.bh_context,",
    r"^BR discr\(<core::slice::IterMut<'a, T> as core::iter::Iterator>::next\(local:iter\)\)$", r"^STORE local:bh1 = ", r"^STORE local:bh_curr_reused = ",
)
UNSAFE_PLUMBING = (
    r"^STORE local:bh = ", r"^STORE local:bh_next = ", r"^CALL~? core::ptr::mut_ptr::<impl \*mut T>::add\(", r"^BR (Eq|Ge)\(local:bh,local:bhrange1\)$",
    r"^STORE local:bhrange[01] = ", r"^CALL~? local:bh(range[01])? = core::(slice::<impl \[T\]>::as_mut_ptr|ptr::mut_ptr::<impl \*mut T>::add)\(",
)


def _abstract(lines, safe):
    out = []
    for l in lines:
        if any(re.search(rx, l) for rx in (SAFE_PLUMBING if safe else UNSAFE_PLUMBING)):
            continue
        if safe:
            l = l.replace("param:self.0.bh_context[Add(local:i,1)]", "NEXT")
            l = l.replace("param:self.0.bh_context[local:i]", "CUR")
            l = l.replace("(<core::slice::IterMut<'a, T> as core::iter::Iterator>::next(local:iter) as Some).0", "CUR")
        else:
            l = l.replace("core::ptr::mut_ptr::<impl *mut T>::add(local:bh,1)", "NEXT")
            l = re.sub(r"local:bh\b(?!_|range)", "CUR", l)
        out.append(l)
    return out


def _ptr_caches(f, sy):
    """{field: local} for the pointer caches of the unsafe engine: locals initialised as as_mut_ptr(bh_context).add(self.<field>)"""
    out = {}
    for l in range(f.argc + 1, len(f.locals)):
        for (blk, idx, kind, x) in f.defs.get(l, []):
            e = strip(sy.rvalue(x) if kind == "rv" else sy.call(x, blk))
            if e[0] == "call" and e[1].endswith("::add") and len(e[2]) == 2 and "as_mut_ptr" in canon(strip(e[2][0])) and ".bh_context" in canon(strip(e[2][0])):
                m = re.search(r"param:self\.0\.(bhidx_start|bhidx_end)$", canon(strip(e[2][1])))
                if m:
                    out[m.group(1)] = l
    return out


def _roles(f, safe):
    """user-chosen names of the loop plumbing -> role names (so that renaming a variable in either engine is not a difference)"""
    sy = Sym(f)
    roles = {}

    def defs_of(l):
        return [canon(strip(sy.rvalue(x) if k == "rv" else sy.call(x, b))) for (b, _i, k, x) in f.defs.get(l, [])]
    if safe:
        for l in range(f.argc + 1, len(f.locals)):
            nm = f.locals[l]["name"]
            if not nm:
                continue
            ds = defs_of(l)
            me = "local:%s_%d" % (nm, l)
            if len(ds) == 2 and sorted(ds) == sorted(["param:self.0.bhidx_start", "Add(%s,1)" % me]):
                roles[nm] = "i"
        inv = {v: k for k, v in roles.items()}
        for l in range(f.argc + 1, len(f.locals)):
            nm = f.locals[l]["name"]
            if not nm or nm in roles:
                continue
            ds = defs_of(l)
            if len(ds) == 1 and re.match(r"\(<core::slice::IterMut<'a, T> as core::iter::Iterator>::next\(local:\w+\) as Some\)\.0$", ds[0]):
                roles[nm] = "bh1"
            elif len(ds) == 1 and "i" in inv and re.match(r"param:self\.0\.bh_context\[local:%s_\d+\]$" % re.escape(inv["i"]), ds[0]):
                roles[nm] = "bh_curr_reused"
    else:
        caches = _ptr_caches(f, sy)
        for fld, role in (("bhidx_start", "bhrange0"), ("bhidx_end", "bhrange1")):
            if fld in caches:
                roles[f.locals[caches[fld]]["name"]] = role
        ptrs = [l for l in range(f.argc + 1, len(f.locals)) if f.locals[l]["name"] and f.locals[l]["ty"].startswith("*mut") and f.locals[l]["ty"].endswith("BlockHashContext")
                and l not in caches.values()]
        for l in ptrs:
            nm = f.locals[l]["name"]
            ds = defs_of(l)
            c0 = caches.get("bhidx_start")
            if len(ds) == 1 and re.match(r"core::ptr::mut_ptr::<impl \*mut T>::add\(local:\w+,1\)$", ds[0]):
                roles[nm] = "bh_next"
            elif (c0 is not None and any(d == "local:%s_%d" % (f.locals[c0]["name"], c0) for d in ds)) or (len(ds) == 1 and "as_mut_ptr(" in ds[0]):
                roles[nm] = "bh"
    return roles


def _rename(lines, roles):
    if not roles or all(k == v for k, v in roles.items()):
        return lines
    rx = re.compile(r"local:(%s)\b" % "|".join(re.escape(k) for k in sorted(roles, key=len, reverse=True)))
    return [rx.sub(lambda m: "local:" + roles[m.group(1)], l) for l in lines]


def engine_correspondence(ctx, safe_prog, unsafe_prog):
    from .features import effect_canon
    RE = "SA-ENGINEMAP"
    ctx.rule(RE, "structural correspondence of the two engine variants: the effect lists (stores, effectful calls, live branches) of the index-based loop and of the raw-pointer loop are identical once the current/next block-hash context is named uniformly (bh_context[i] ~ *bh, bh_context[i+1] ~ *bh.add(1)) and loop plumbing (index/pointer stepping, range tests, iterator set-up) is set aside; the plumbing itself is tied to bhidx_start/bhidx_end by SA-MIRROR")
    for name in FORMS:
        fs, fu = safe_prog.fn(name), unsafe_prog.fn(name)
        ctx.visit(fs)
        ctx.visit(fu)
        a = _abstract(_rename(effect_canon(fs), _roles(fs, True)), True)
        b = _abstract(_rename(effect_canon(fu), _roles(fu, False)), False)
        same = a == b
        why = "%d corresponding effect lines" % len(a)
        if not same:
            for k, (x, y) in enumerate(zip(a, b)):
                if x != y:
                    why = "first difference at effect %d: safe `%s` vs unsafe `%s`" % (k, x[:120], y[:120])
                    break
            else:
                why = "effect counts differ: safe %d, unsafe %d; extra: %s" % (len(a), len(b), (a[len(b):] or b[len(a):])[:2])
        ctx.ob(RE, "%s: index engine (%s) and pointer engine (%s) perform the same effects on the current/next context" % (fs.short.split("::")[-1], safe_prog.cfg, unsafe_prog.cfg), same, why, fu.loc())
    ctx.floor(RE, len(a), 35, "effect lines per engine form")


def trigger_and_levels(ctx, prog):
    """piece trigger and per-level walk of the engine (all three forms): the per-level loop is entered only when
    roll+1 != 0, ((roll+1)/MIN) & roll_mask == 0 and (roll+1) % MIN == 0; the level value is shifted by bhidx_start once
    before the loop and by 1 per level, and the walk stops at the first level whose bit is set"""
    RS = "SA-STEP"
    for name in FORMS:
        f = prog.fn(name)
        ctx.visit(f)
        sy = Sym(f)
        nm = f.short.split("::")[-1]
        # the block that initialises the level walk: `h = h >> bhidx_start`
        roll1_ = "core::num::<impl u32>::wrapping_add(internals::generate::hashes::rolling_hash::RollingHash::value(param:self.0.roll_hash),1)"
        init_ = "Div(%s,internals::hash::block::block_size::MIN=3)" % roll1_
        hl = []
        for l in range(f.argc + 1, len(f.locals)):
            for (blk, j, kind, x) in f.defs.get(l, []):
                if kind == "rv" and canon(strip(sy.rvalue(x))) == init_ and len(f.defs.get(l, [])) > 1:
                    hl.append(l)
        hl = sorted(set(hl))
        if len(hl) != 1:
            ctx.ob(RS, "%s: level value (the variable initialised as (roll+1)/MIN)" % nm, False, "%d candidates" % len(hl), f.loc())
            continue
        h = hl[0]
        defs = f.defs.get(h, [])
        shapes = []
        for (blk, j, kind, x) in defs:
            e = strip(sy.rvalue(x)) if kind == "rv" else None
            shapes.append((blk, canon(e) if e else "call"))
        roll1 = "core::num::<impl u32>::wrapping_add(internals::generate::hashes::rolling_hash::RollingHash::value(param:self.0.roll_hash),1)"
        want_init = "Div(%s,internals::hash::block::block_size::MIN=3)" % roll1
        hn = f.locals[h]["name"]
        want_start = "Shr(local:%s_%d,param:self.0.bhidx_start)" % (hn, h)
        want_step = "Shr(local:%s_%d,1)" % (hn, h)
        got = sorted(c for b, c in shapes)
        ok = sorted([want_init, want_start, want_step]) == got
        ctx.ob(RS, "%s: h = (roll+1)/MIN, then h >>= bhidx_start once, then h >>= 1 per level - and nothing else assigns h" % nm, ok, "assignments: %s" % [c[:90] for c in got], f.loc())
        sb = [b for b, c in shapes if c == want_start]
        if not sb:
            continue
        ats = [_norm_cmp(a) for a in _atoms_at(f, sy, sb[0])]
        need = {
            "roll+1 != 0": lambda a: a[0] == "Ne" and a[1] == roll1 and a[2] == "0",
            "((roll+1)/MIN) & roll_mask == 0": lambda a: a[0] == "Eq" and a[1] == "BitAnd(local:%s_%d,param:self.0.roll_mask)" % (hn, h) and a[2] == "0",
            "(roll+1) % MIN == 0": lambda a: a[0] == "Eq" and a[1] == "Rem(%s,internals::hash::block::block_size::MIN=3)" % roll1 and a[2] == "0",
        }
        for k, p in need.items():
            hit = [a for a in ats if p(a)]
            ctx.ob(RS, "%s: the level walk starts only when %s" % (nm, k), bool(hit), "%s" % (hit[0],) if hit else "conditions: %s" % ats[:6], f.loc())
        # per-level step `h >>= 1` only when the current level's bit is clear
        st = [b for b, c in shapes if c == want_step]
        if st:
            ats = [_norm_cmp(a) for a in _atoms_at(f, sy, st[0])]
            hit = [a for a in ats if a[0] == "Eq" and a[1] == "BitAnd(local:%s_%d,1)" % (hn, h) and a[2] == "0"]
            ctx.ob(RS, "%s: the walk continues to the next level only while (h & 1) == 0" % nm, bool(hit), "%s" % (hit[:1] or ats[-3:]), f.loc())


def digest_sources(ctx, prog):
    """finalize_raw_internal: block size = guessed index L; block hash 1 is read from context L, block hash 2 from
    context L+1 (or, in the two single-piece cases, from context L's running hash / the last-piece hash)"""
    RS = "SA-STEP"
    f = prog.fn("Generator::finalize_raw_internal")
    ctx.visit(f)
    sy = Sym(f)
    from . import fields as F
    L = "internals::generate::Generator::guess_output_log_block_size(param:self)"
    ws = [w for w in F.census(f) if w.owner.endswith("hash::FuzzyHashData")]
    lb = [w for w in ws if w.field == "log_blocksize"]
    ok = len(lb) == 1 and canon(strip(lb[0].src)) == L
    ctx.ob(RS, "finalize: log_blocksize = guess_output_log_block_size()", ok, "%s" % [canon(strip(w.src)) for w in lb], f.loc())
    bad = []
    n = 0
    for w in ws:
        if w.field not in ("blockhash1", "blockhash2") or w.src is None or w.kind == "handoff":
            continue
        n += 1
        srcs = [w.src]
        s0 = strip(w.src)
        if s0[0] == "local":
            srcs = [(sy.rvalue(x) if kind == "rv" else sy.call(x, blk)) for (blk, idx, kind, x) in f.defs.get(s0[1], [])] or [w.src]
        c = " | ".join(canon(x) for x in srcs)
        k = w.field[-1]
        ctx_idx = set(__import__("re").findall(r"param:self\.0\.bh_context\[([^\]]*(?:\([^\)]*\))?[^\]]*)\]", c))
        want = {L} if k == "1" else {"Add(%s,1)" % L}
        if k == "2" and ("param:self.0.h_last" in c and not ctx_idx):
            continue  # largest block size: dedicated last-piece hash
        if k == "2" and ctx_idx == {L} and ".h_full" in c:
            continue  # block size index 0 with no piece: running hash of context L
        if not ctx_idx or not ctx_idx <= want:
            bad.append("%s <- %s" % (w.field, c[:120]))
    ctx.ob(RS, "finalize: block hash 1 is assembled from context L, block hash 2 from context L+1 (or the two single-piece sources)", not bad and n >= 6,
           "; ".join(bad) or "%d array writes checked" % n, f.loc())


def pointer_cursor(ctx, prog):
    """`unsafe` engine: the context cursor of the two per-byte loops is (re)started at the cached range start before each loop and advanced by
    exactly one context per iteration (directly, or through the look-ahead `next` pointer); the correspondence rules treat these pointer
    assignments as plumbing, so their presence is checked here: 2 starts and 2 advances per update form, nothing else assigned to the cursor."""
    RS = "SA-ENGINEMAP"
    n = 0
    for nm in ("Generator::update", "Generator::update_by_iter", "Generator::update_by_byte"):
        f = prog.fn(nm)
        sy = Sym(f)
        cur = None
        for l, ds in f.defs.items():
            if "*mut internals::generate::BlockHashContext" not in f.locals[l]["ty"] or len(ds) < 3:
                continue
            me = ("local", l, f.locals[l]["name"])
            kinds = []
            for (b, _i, k, x) in ds:
                v = strip(sy.rvalue(x)) if k == "rv" else strip(sy.call(x, b))
                if v[0] == "local" and "*mut internals::generate::BlockHashContext" in f.locals[v[1]]["ty"] and v[1] != l:
                    kinds.append(("start", v[1]))
                elif v[0] == "call" and v[1].endswith("mut_ptr::<impl *mut T>::add") and strip(v[2][0]) == me and const_value(strip(v[2][1])) == 1:
                    kinds.append(("advance", 1))
                else:
                    kinds.append(("other", canon(v)[:50]))
            cur = (l, kinds)
        if cur is None:
            continue   # not the pointer engine (safe configurations)
        n += 1
        l, kinds = cur
        starts = [k for k in kinds if k[0] == "start"]
        adv = [k for k in kinds if k[0] == "advance"]
        other = [k for k in kinds if k[0] == "other"]
        ok = len(starts) == 2 and len(set(starts)) == 1 and len(adv) == 2 and not other
        ctx.ob(RS, "%s: the context cursor is started at the cached range start before each of the two loops and advanced by one context per iteration" % f.short, ok,
               "cursor definitions: %s" % kinds, f.loc())
    if n:
        ctx.floor(RS, n, 3, "update forms with a pointer cursor")
