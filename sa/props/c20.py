"""C20 — block-size and score arithmetic on its entire domain (tables exhaustively, predicates by shape)."""
from ..rules import data, blocksize, features, summary, beliefs

EXPL = ("Decides: (1) SA-DATA, exhaustively over each table as evaluated by rustc: the 31 block-size strings equal decimal(3<<i); the de Bruijn "
        "constant/table pair maps every valid size 3<<i to i (unused slot 0xff) and log_from_valid reads exactly that table through "
        "(bs*C)>>27; (2) is_log_valid is x<31; is_valid is bs%3==0 && (bs/3).is_power_of_two() (hence exactly 31 values); from_log/"
        "block_size() all go through MIN<<log; (3) SA-RELATION: the four relation predicates and compare_sizes, read as difference "
        "constraints on the logarithms, equal the definition (equal/double/half/otherwise) and BlockSizeRelation has exactly four variants; "
        "(4) the capping border is 4, score_cap returns 100 exactly from the border upward and (1<<n)*min(l1,l2) below; the raw score "
        "expression tree equals 100-(100*((d*64)/(l1+l2)))/64 and the public form reaches it only inside its asserted domain. "
        "NOT decided: value-level facts that need evaluation over the domain (raw score within 1..=100).")


def run(ctx):
    cfgs = ["rel", "unchecked"] if ctx.tier == "quick" else ["rel", "dbg", "unsafe", "nodef", "unchecked"]
    ctx.progs(cfgs)  # build all configurations in parallel
    for c in cfgs:
        prog = ctx.prog(c)
        ctx.guard("C20", "tables", lambda: data.block_size_tables(ctx, prog))
        ctx.guard("C20", "is_log_valid", lambda: blocksize.is_log_valid(ctx, prog))
        ctx.guard("C20", "is_valid", lambda: blocksize.is_valid_shape(ctx, prog))
        ctx.guard("C20", "relations", lambda: blocksize.relation_predicates(ctx, prog))
        ctx.guard("C20", "log", lambda: blocksize.log_conversions(ctx, prog))
        ctx.guard("C20", "cap", lambda: blocksize.score_cap(ctx, prog))
        ctx.guard("C20", "raw", lambda: blocksize.raw_score(ctx, prog))
        if c == "unchecked":
            # the `_unchecked` forms of the same helpers are part of the documented surface: each is its `_internal` function
            ctx.guard("C20", "twins", lambda: features.twins(ctx, prog, scope=r"block_size::|score_cap_on_block_hash_comparison|raw_score_by_edit_distance|is_near|compare_sizes|is_far", floor=4))
        ctx.guard("C20", "const values", lambda: data.const_census(ctx, prog, data.CONST_SCOPES["C20"], floor=1))
        ctx.guard("C20", "panic conditions", lambda: beliefs.live_census(ctx, prog, beliefs.SCOPES["C20"][0]))
        ctx.guard("C20", "summaries", lambda: summary.check(ctx, prog, 'block_size::|BlockSizeRelation|is_block_sizes_|compare_block_sizes|score_cap_on|raw_score_by', floor=10))
        ctx.guard("C20", "path summaries", lambda: summary.check_paths(ctx, prog, 'block_size::|BlockSizeRelation|is_block_sizes_|compare_block_sizes|score_cap_on|raw_score_by', floor=6))
        if c in ("dbg", "unsafe_dbg", "strict_dbg"):
            ctx.guard("C20", "beliefs", lambda: beliefs.census(ctx, prog, beliefs.SCOPES["C20"][0], floor=beliefs.SCOPES["C20"][1]))
    return ctx.finish(EXPL, ["u32::is_power_of_two, wrapping_mul, Ord::min have their documented meaning", "rustc's const evaluation of the tables"])
