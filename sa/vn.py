"""Forward value numbering for loop-free bodies: the final value of every field written through `&mut self`
as an expression over the ENTRY values of the fields and the parameters.

Unlike `sym.Sym` (which expands single-assignment temporaries regardless of program point), this walks the blocks in
reverse post-order and threads the memory state, so a read of `self.h1` after `self.h1 = …` sees the new value.
Only acyclic CFGs are accepted (raises ValueError otherwise)."""
from .sym import strip, canon, deref, ref, field, WITH_OVF, UNCHK, _FROM_INT
from .mir import callee_of, const_val


def _merge(vals, blk, key):
    vs = list(vals)
    if all(v == vs[0] for v in vs):
        return vs[0]
    return ("phi", blk, key, tuple(vs))


class Forward:
    def __init__(self, f, root_param=1):
        self.f = f
        self.root = root_param
        order = f.rpo()
        pos = {b: i for i, b in enumerate(order)}
        for b in order:
            for s in f.lsuccs(b):
                if pos.get(s, 1 << 30) <= pos[b]:
                    raise ValueError("cyclic CFG in %s" % f.path)
        self.order = order
        self.env_in = {}
        self.env_out = {}
        self.events = []   # (block, 'store', place_expr, value) / (block, 'call', callee, args) in program order
        self.run()

    # state: {'L': {local: expr}, 'M': {access-path-text: expr}}
    def run(self):
        f = self.f
        for b in self.order:
            preds = [p for p in f.preds.get(b, []) if p in self.env_out]
            if not preds:
                env = {"L": {}, "M": {}}
            else:
                env = {"L": {}, "M": {}}
                for kind in ("L", "M"):
                    keys = set()
                    for p in preds:
                        keys |= set(self.env_out[p][kind])
                    for k in keys:
                        vals = [self.env_out[p][kind].get(k, self._initial(kind, k)) for p in preds]
                        env[kind][k] = _merge(vals, b, k)
            self.env_in[b] = env
            env = {"L": dict(env["L"]), "M": dict(env["M"])}
            for s in f.blocks[b]["stmts"]:
                if s["s"] != "assign":
                    continue
                v = self.rvalue(env, s["rv"])
                if s["lhs"]["p"]:
                    self.events.append((b, "store", self.place(env, s["lhs"]), v))
                self.store(env, s["lhs"], v)
            t = f.blocks[b]["term"]
            if t["t"] == "call":
                args = tuple(self.operand(env, a) for a in t["args"])
                e = ("call", callee_of(t), args, b)
                m = _FROM_INT.match(callee_of(t))
                if m and len(args) == 1:
                    e = ("cast", args[0], m.group(2))
                self.events.append((b, "call", callee_of(t), args))
                if callee_of(t).endswith("core::mem::replace") and len(args) == 2:
                    # `mem::replace(&mut place, v)`: yields what the place held and stores v there
                    key0 = self._mem_key(args[0])
                    if key0 is not None:
                        if key0 in env["M"]:
                            old = env["M"][key0]
                        elif "[" in key0 and any(k.startswith(key0[:key0.rindex("[")] + "[") and k != key0 for k in env["M"]):
                            old = ("mayalias", key0)
                        else:
                            old = ("init", key0)
                        self.events.append((b, "store", strip(args[0]), args[1]))
                        env["M"][key0] = args[1]
                        self.store(env, t["dest"], old)
                        self.env_out[b] = env
                        continue
                # a `&mut` argument into memory we track: the callee may write it -> havoc that path
                for a in t["args"]:
                    if a["k"] in ("copy", "move") and a["pl"]["ty"].startswith("&mut"):
                        ae = self.operand(env, a)
                        key = self._mem_key(ae)
                        if key is not None:
                            for k in list(env["M"]):
                                if k == key or k.startswith(key + ".") or k.startswith(key + "["):
                                    env["M"][k] = ("havoc", b, k)
                            env["M"][key] = ("havoc", b, key)
                self.store(env, t["dest"], e)
            self.env_out[b] = env

    def _initial(self, kind, k):
        if kind == "L":
            f = self.f
            if 1 <= k <= f.argc:
                return ("param", k, f.locals[k]["name"])
            return ("local", k, f.locals[k]["name"])
        return ("init", k)

    def local(self, env, l):
        if l in env["L"]:
            return env["L"][l]
        return self._initial("L", l)

    def _mem_key(self, e):
        """text key of a memory location rooted at the tracked parameter, or None"""
        e2 = e
        while e2[0] in ("ref",):
            e2 = e2[1]
        parts = []
        cur = e2
        while True:
            if cur[0] == "field":
                parts.append("." + cur[2])
                cur = cur[1]
            elif cur[0] == "index":
                parts.append("[%s]" % canon(cur[2]))
                cur = cur[1]
            elif cur[0] in ("deref", "ref"):
                cur = cur[1]
            else:
                break
        if cur[0] == "param" and cur[1] == self.root:
            return "self" + "".join(reversed(parts))
        return None

    def place(self, env, p, for_store=False):
        e = self.local(env, p["l"])
        for el in p["p"]:
            if el == "*":
                e = deref(e)
            elif "f" in el:
                e = field(e, el["n"], el["f"], el.get("of", ""))
            elif "ix" in el:
                e = ("index", e, self.local(env, el["ix"]))
            elif "cix" in el:
                e = ("index", e, ("const", el["cix"], None, "usize"))
            elif "dc" in el:
                e = ("downcast", e, el["dc"])
            else:
                e = ("unknown", str(el))
        return e

    def read(self, env, p):
        e = self.place(env, p)
        if not p["p"]:
            return e  # a plain local: its value (possibly a reference), not the memory it may point to
        key = self._mem_key(e)
        if key is not None:
            if key in env["M"]:
                return env["M"][key]
            # an element read after an element store with a different index text may alias: be conservative
            if "[" in key:
                base = key[:key.rindex("[")]
                for k in env["M"]:
                    if k.startswith(base + "[") and k != key:
                        return ("mayalias", key)
            return ("init", key)
        return e

    def operand(self, env, o):
        if o["k"] in ("copy", "move"):
            return self.read(env, o["pl"])
        if o["k"] == "const":
            v = const_val(o)
            name = o.get("def") or o.get("tyconst")
            if o.get("fn"):
                return ("const", None, "fn " + o["fn"], o["ty"])
            if v is None and name is None:
                return ("const", None, o["txt"], o["ty"])
            return ("const", v, name, o["ty"])
        return ("unknown", o.get("txt", ""))

    def rvalue(self, env, r):
        k = r["r"]
        if k == "use":
            return self.operand(env, r["a"])
        if k in ("ref", "rawptr"):
            return ref(self.place(env, r["pl"]))
        if k == "bin":
            o = r["op"]
            a, b = self.operand(env, r["a"]), self.operand(env, r["b"])
            if o in WITH_OVF:
                return ("agg", "Tuple", (("bin", WITH_OVF[o], a, b), ("unknown", "ovf")))
            return ("bin", UNCHK.get(o, o), a, b)
        if k == "un":
            return ("un", r["op"], self.operand(env, r["a"]))
        if k == "cast":
            return ("cast", self.operand(env, r["a"]), r["to"])
        if k == "agg":
            kd = r["kind"]
            nm = kd.get("adt") or kd.get("agg")
            if kd.get("adt"):
                nm = nm + "::" + kd["variant"]
            return ("agg", nm, tuple(self.operand(env, x) for x in r["ops"]))
        if k == "discr":
            return ("discr", self.read(env, r["pl"]))
        if k == "repeat":
            return ("repeat", self.operand(env, r["a"]), r["n"])
        return ("unknown", r.get("txt", "")[:60])

    def store(self, env, lhs, v):
        if not lhs["p"]:
            env["L"][lhs["l"]] = v
            return
        e = self.place(env, lhs)
        key = self._mem_key(e)
        if key is not None:
            env["M"][key] = v
        elif "*" not in lhs["p"]:
            # partial write to a local aggregate: forget the local (a store THROUGH a pointer local leaves the pointer intact)
            env["L"][lhs["l"]] = ("unknown", "partial")

    def final_memory(self):
        """memory state at the (single) return block"""
        rets = [b for b in self.order if self.f.blocks[b]["term"]["t"] == "return"]
        if len(rets) != 1:
            raise ValueError("%d return blocks" % len(rets))
        return self.env_out[rets[0]]["M"], self.env_out[rets[0]]["L"]
