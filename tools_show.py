#!/usr/bin/env python3
"""dev helper: ./tools_show.py <config> <fn-suffix-regex> — print MIR of matching functions"""
import os, sys, re
sys.path.insert(0, os.path.dirname(os.path.abspath(__file__)))
os.environ.setdefault("VERIF_FACT_CACHE", "1")
from sa import facts
p = facts.load(sys.argv[1])
for f in p.fns:
    if re.search(sys.argv[2], f.path):
        if len(sys.argv) > 3 and sys.argv[3] == "-l":
            print(f.path, f.exported, f.loc())
        else:
            f.show()
