"""C18 — stream and file hashing fail closed under I/O faults (error-flow discipline on MIR)."""
from ..rules import errflow, generator as gen, summary, beliefs, data

EXPL = ("Decides, on every CFG path of hash_stream_common / hash_stream / hash_file: every Result-returning call (read, finalize, "
        "File::open, metadata, set_fixed_input_size, hash_stream_common) is consumed by `?` whose Break arm returns exactly that "
        "residual, by direct return, or by unwrap - never dropped, ok()-ed or defaulted; from no Break arm is a finaliser or an Ok "
        "reachable (an I/O error cannot produce a hash); the bytes fed are exactly buffer[0..len] with len the Ok payload of this "
        "iteration's read on the whole local buffer, every non-empty read is fed before the next read, and the loop is left only when "
        "read returned 0 (any pattern of short reads is consumed in order); hash_file declares Metadata::len() of the same File it "
        "then reads, before reading, and finalisation fails on a size mismatch (exact guard of FixedSizeMismatch, shared with C12). "
        "Assumes Read::read's contract (Ok(n) with n <= buf.len()).")


def run(ctx):
    cfgs = ["rel"] if ctx.tier == "quick" else ["rel", "dbg", "unsafe", "unsafe_dbg", "fnv"]
    ctx.progs(cfgs)  # build all configurations in parallel
    for c in cfgs:
        prog = ctx.prog(c)
        n = [0]
        ctx.guard("C18", "stream_common", lambda: n.__setitem__(0, n[0] + (errflow.stream_common(ctx, prog) or 0)))
        ctx.guard("C18", "stream_file", lambda: n.__setitem__(0, n[0] + (errflow.stream_and_file(ctx, prog) or 0)))
        ctx.floor("SA-ERRFLOW", n[0], 6, "fallible call sites in the reader front ends")
        ctx.guard("C18", "wrap", lambda: errflow.io_error_wrap(ctx, prog))
        ctx.guard("C18", "finalize-mismatch", lambda: gen.guards_finalize(ctx, prog, need=("mismatch",)))
        ctx.guard("C18", "finalize-delegate", lambda: gen.finalizers_delegate(ctx, prog))
        ctx.guard("C18", "const values", lambda: data.const_census(ctx, prog, data.CONST_SCOPES["C18"], floor=1))
        ctx.guard("C18", "panic conditions", lambda: beliefs.live_census(ctx, prog, beliefs.SCOPES["C18"][0]))
        ctx.guard("C18", "summaries", lambda: summary.check(ctx, prog, 'generate_easy_std::|GeneratorError', floor=2))
        ctx.guard("C18", "path summaries", lambda: summary.check_paths(ctx, prog, 'generate_easy_std::|GeneratorError', floor=1))
        if c in ("dbg", "unsafe_dbg", "strict_dbg"):
            ctx.guard("C18", "beliefs", lambda: beliefs.census(ctx, prog, beliefs.SCOPES["C18"][0], floor=beliefs.SCOPES["C18"][1]))
    return ctx.finish(EXPL, ["std::io::Read::read contract: Ok(n) implies n <= buf.len() and n bytes were written", "File::metadata().len() is the size the property calls 'reported by its metadata'"])
