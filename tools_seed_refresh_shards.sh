#!/bin/sh
# dev helper: replay every stored seeded change against every claimed check, three shards, from a frozen snapshot of HEAD (logs: /tmp/refresh_{a,b,c}.log)
SNAP=/tmp/verif-snap-$$
git -C /verif worktree add -q --detach $SNAP HEAD
export VERIF_CHECK_DIR=$SNAP VERIF_DRIVER=/verif/driver/target/release/ffz-mir
( /verif/tools_seed_refresh.py C01 C02 C03 C04 C05 C06 > /tmp/refresh_a.log 2>&1 ) &
( /verif/tools_seed_refresh.py C07 C10 C11 C12 C13 C14 > /tmp/refresh_b.log 2>&1 ) &
( /verif/tools_seed_refresh.py C15 C16 C17 C18 C19 C20 > /tmp/refresh_c.log 2>&1 ) &
wait
git -C /verif worktree remove --force $SNAP
echo finished > /tmp/refresh_done
