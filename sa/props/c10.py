"""C10 — score laws and the candidate / window pre-filter (structural clauses)."""
import re
from ..rules import typestate, effbs, blocksize, data, guard as G, vis, summary, features, beliefs
from ..sym import canon,  Sym, strip, show, is_param, const_value
from ..mir import callee_of

EXPL = ("Decides: far -> 0 / false on all four dispatchers; the candidate test and the scorer look at the same (k_self,k_other) pairs "
        "per block-size relation and at equal effective block sizes (SA-EFFBS); the score is 0 exactly on the no-common-substring arm "
        "and otherwise the (raw, cap) pipeline; equality -> 100 before scoring; index windows carry the same effective block size the "
        "scorer uses (log for block hash 1, log+1 for block hash 2, so 31 fits in BLOCK_SIZE_BITS); window constants (SA-DATA); "
        "has_common_substring / NumericWindows are empty/false when either length < 7 (SA-GUARD). NOT decided: raw score >= 1, "
        "cap >= 1, injectivity of the numeric encoding as arithmetic, symmetry of the score value.")


def short_inputs(ctx, prog):
    f = prog.fn("BlockHashPositionArrayImplInternal::has_common_substring_internal")
    ctx.visit(f)
    sy = Sym(f)
    # some `false` return is controlled only by the two length tests (short-circuit ||)
    falses = G.blocks_assigning_ret(f, sy, lambda e: e[0] == "const" and e[1] == 0)
    found = False
    why = ""
    from ..sym import path_conds, bool_atom
    for b in falses:
        ats = [bool_atom(c) for c in path_conds(f, sy, b)]
        why = str([G.show_atom(a) for a in ats if a])[:300]
    # the first switch: (len as usize) < MIN_LCS  -> true arm reaches a `false` return without touching the arrays
    for i in sorted(f.live):
        t = f.blocks[i]["term"]
        if t["t"] != "switch":
            continue
        e = strip(sy.operand(t["on"]))
        if e[0] == "bin" and e[1] == "Lt" and const_value(e[3]) == 7:
            tgt_true = [x for x in f.lsuccs(i) if x != [a[1] for a in t["arms"] if a[0] == "0"][0]]
            if tgt_true:
                reach = f.reach_from(tgt_true[0])
                rets = [b for b in falses if b in reach]
                loops = [b for b in reach if any(s["s"] == "assign" and s["rv"]["r"] == "bin" and s["rv"]["op"] in ("Shl", "BitAnd") for s in f.blocks[b]["stmts"])]
                found = found or (bool(rets) and not loops)
    ctx.ob("SA-GUARD", "has_common_substring_internal returns false without scanning when either length < MIN_LCS_FOR_COMPARISON (7)", found, why, f.loc())
    # ... and exactly then: both lengths are compared with the window size by `<` (a `<=` would refuse strings of exactly one window)
    tests = []
    for i, j, s in f.stmts():
        if s["s"] == "assign" and s["rv"]["r"] == "bin" and s["rv"]["op"] in ("Lt", "Le", "Gt", "Ge"):
            if i in features.debug_regions(f) or any(m in ("debug_assert", "invariant") for m in s["sp"].get("macros", [])):
                continue   # debug-only beliefs are read by SA-BELIEF
            a, b = strip(sy.operand(s["rv"]["a"])), strip(sy.operand(s["rv"]["b"]))
            ca, cb = canon(a), canon(b)
            for x, cx, y, op in ((a, ca, b, s["rv"]["op"]), (b, cb, a, {"Lt": "Gt", "Le": "Ge", "Gt": "Lt", "Ge": "Le"}[s["rv"]["op"]])):
                if re.search(r"::len(::<[^()]*>)?\(", cx) and x[0] in ("call", "cast") and const_value(y) == 7:
                    tests.append((op, cx[-60:]))
    ok2 = len(tests) == 2 and all(t[0] == "Lt" for t in tests)
    ctx.ob("SA-GUARD", "has_common_substring_internal: both length tests against the window size are `len < 7`", ok2, "tests: %s" % tests, f.loc())


def run(ctx):
    cfgs = ["dbg", "rel", "unchecked"] if ctx.tier == "quick" else ["dbg", "rel", "unsafe_dbg", "unsafe", "unchecked", "nodef"]
    ctx.progs(cfgs)  # build all configurations in parallel
    for c in cfgs:
        prog = ctx.prog(c)
        if c.endswith("dbg"):
            ctx.guard("C10", "pairings", lambda: effbs.pairings(ctx, prog))
        ctx.guard("C10", "dispatch", lambda: effbs.dispatchers(ctx, prog))
        ctx.guard("C10", "pipeline", lambda: effbs.scorer_pipeline(ctx, prog))
        ctx.guard("C10", "scan", lambda: effbs.scan_guards_tight(ctx, prog))
        ctx.guard("C10", "scan-exits", lambda: effbs.scan_exits(ctx, prog))
        ctx.guard("C10", "recurrences", lambda: effbs.recurrence_steps(ctx, prog))
        ctx.guard("C10", "windows", lambda: effbs.windows(ctx, prog))
        ctx.guard("C10", "window-steps", lambda: effbs.window_steps(ctx, prog))
        ctx.guard("C10", "consts", lambda: data.window_constants(ctx, prog))
        ctx.guard("C10", "short", lambda: short_inputs(ctx, prog))
        ctx.guard("C10", "equiv", lambda: typestate.equiv_exact(ctx, prog))
        ctx.guard("C10", "cap", lambda: blocksize.score_cap(ctx, prog))
        if c == "unchecked":
            # the `_unchecked` forms of the comparison API are their `_internal` bodies (a re-implemented twin is a second, unchecked implementation)
            ctx.guard("C10", "twins", lambda: features.twins(ctx, prog, scope='internals::compare::|position_array::', floor=8))
        ctx.guard("C10", "traits", lambda: vis.trait_census(ctx, prog, scope='block_hash::(Index|Numeric)Windows'))
        ctx.guard("C10", "const values", lambda: data.const_census(ctx, prog, data.CONST_SCOPES["C10"], floor=1))
        ctx.guard("C10", "panic conditions", lambda: beliefs.live_census(ctx, prog, beliefs.SCOPES["C10"][0]))
        ctx.guard("C10", "initialisers", lambda: typestate.initialisers_complete(ctx, prog))
        ctx.guard("C10", "summaries", lambda: summary.check(ctx, prog, 'block_hash::(Index|Numeric)Windows|block_hash_[12]_(numeric_|index_)?windows|FuzzyHashCompareTarget::(is_comparison_candidate|compare)\\w*$', floor=4))
        ctx.guard("C10", "path summaries", lambda: summary.check_paths(ctx, prog, 'block_hash::(Index|Numeric)Windows|block_hash_[12]_(numeric_|index_)?windows|FuzzyHashCompareTarget::(is_comparison_candidate|compare)\\w*$', floor=16))
        if c in ("dbg", "unsafe_dbg", "strict_dbg"):
            ctx.guard("C10", "beliefs", lambda: beliefs.census(ctx, prog, beliefs.SCOPES["C10"][0], floor=beliefs.SCOPES["C10"][1]))
    return ctx.finish(EXPL, ["relation beliefs are read from configurations with debug assertions on"])
