"""C04 — parsing is total; index/err discipline (structural clauses; the accepted language is not decided)."""
from ..rules import parser, data, normal

EXPL = ("Decides: (1) SA-PANIC totality: every panic edge in the call-graph closure of the six generic parse entry points "
        "(from_bytes, from_bytes_with_last_index, from_str for plain and dual types) in release-like configurations is discharged "
        "(constant divisor, index bounded by type, dominating guard on the same operands) or is a reviewed residue entry with a "
        "structural side condition - notably: the RLE encoder update_rle_block is callable only from compress_block_hash_with_rle, "
        "whose inputs are length-bounded at every call site (the defect F1, now fixed, violated exactly this); (2) SA-ERRPURE: the "
        "caller's index is written only on the way to Ok; (3) SA-PHASE: every ParseError built in the k-th block-hash phase names "
        "BlockHash<k>, the two parse calls fill (blockhashK, len_blockhashK) with capacity SK; (4) the stored symbol is the reverse "
        "table value on the not-INVALID arm and the tables are exact inverses (SA-DATA), destinations are fresh. NOT decided: that "
        "the accepted language is exactly the grammar.")


def run(ctx):
    cfgs = ["rel", "strict"] if ctx.tier == "quick" else ["rel", "strict", "dbg", "unsafe", "nodef", "unchecked"]
    ctx.progs(cfgs)  # build all configurations in parallel
    for c in cfgs:
        prog = ctx.prog(c)
        if c != "dbg":
            ctx.guard("C04", "totality", lambda: parser.totality(ctx, prog))
        ctx.guard("C04", "index", lambda: parser.index_purity(ctx, prog))
        ctx.guard("C04", "phase", lambda: parser.error_origin_by_phase(ctx, prog))
        ctx.guard("C04", "store", lambda: parser.symbol_store(ctx, prog))
        ctx.guard("C04", "lookahead", lambda: parser.strict_lookahead(ctx, prog))
        ctx.guard("C04", "blocksize", lambda: parser.block_size_field(ctx, prog))
        ctx.guard("C04", "forms", lambda: parser.entry_forms(ctx, prog))
        ctx.guard("C04", "runlimit", lambda: normal.run_limit_agreement(ctx, prog))
        ctx.guard("C04", "tables", lambda: data.base64_tables(ctx, prog))
    return ctx.finish(EXPL, ["overflow checks of debug builds are not part of the verdict (release-like configurations decide)", "core slice/iterator APIs panic only as documented", "residue entries are reviewed by hand; each states its reason"])
