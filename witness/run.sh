#!/bin/sh
# Run the compile-fail witnesses against /repo's current tree (doc tests; twins are no_run).
# usage: run.sh <crate dir>    prints the cargo summary line; exit 0 iff all doc tests pass
set -e
D="$1"
cp "${VERIF_REPO:-/repo}/Cargo.lock" "$D/Cargo.lock"
if [ -n "$VERIF_REPO" ] && [ "$VERIF_REPO" != "/repo" ]; then
  sed -i "s#path = \"/repo/ffuzzy\"#path = \"$VERIF_REPO/ffuzzy\"#" "$D/Cargo.toml"
fi
T=$(mktemp -d /verif/.work/wit-XXXXXX)
cd "$D"
CARGO_NET_OFFLINE=true CARGO_TARGET_DIR="$T" cargo +nightly test --offline --doc 2>&1 | tail -30
rc=$?
rm -rf "$T"
if [ -n "$VERIF_REPO" ] && [ "$VERIF_REPO" != "/repo" ]; then
  sed -i "s#path = \"$VERIF_REPO/ffuzzy\"#path = \"/repo/ffuzzy\"#" "$D/Cargo.toml"
fi
exit $rc
