"""SA-PANIC: panic-edge audit of operations that are documented total (parsing; is_valid/full_eq/Debug)."""
import re
from ..sym import Sym, strip, show, canon, const_value, path_conds, bool_atom, lin, fpath, match, is_param
from ..mir import callee_of, is_panic_call, op, pl
from . import guard as G

R = "SA-PANIC"

PANICKY_CALLS = ("::index", "::index_mut", "clone_from_slice", "copy_from_slice", "::unwrap", "::expect",
                 "ilog2", "split_at", "::windows", "::chunks", "swap", "::copy_within")


def edges(f):
    """panic edges of one body (live blocks): list of dict(kind, blk, term, desc)"""
    out = []
    for i in sorted(f.live):
        t = f.blocks[i]["term"]
        if t["t"] == "assert":
            out.append({"kind": "assert:" + t["msg"]["a"], "blk": i, "t": t})
        elif t["t"] == "call":
            c = callee_of(t)
            if is_panic_call(t):
                out.append({"kind": "panic", "blk": i, "t": t})
            elif not t.get("local") and c.endswith(PANICKY_CALLS) or (not f.prog.get(c) and c.endswith(PANICKY_CALLS)):
                out.append({"kind": "call:" + c.split("::")[-1], "blk": i, "t": t})
    return out


def entry_closure(prog, entries):
    return prog.closure(entries)


def _norm(s):
    s = re.sub(r"_\d+\b", "", s)
    s = re.sub(r"core::[a-z_:]*<impl [^>]*>+::", "", s)
    s = re.sub(r"<[^<>]*Iterator>::", "", s)
    return s


def describe(f, sy, e):
    t = e["t"]
    if t["t"] == "assert":
        m = t["msg"]
        parts = ["%s=%s" % (k, show(sy.operand(v))) for k, v in m.items() if k != "a" and isinstance(v, dict)]
        return _norm("%s(%s)" % (m["a"], ", ".join(parts)))
    c = callee_of(t).split("::")[-1]
    return _norm("%s(%s)" % (c, ", ".join(show(sy.operand(a)) for a in t["args"])))


def _basekey(f, e):
    """name-independent key of an indexed base: parameter position (or local type) + field path"""
    r, names = fpath(e)
    if r[0] == "param":
        root = "arg%d" % r[1]
    elif r[0] == "local":
        root = "local<%s>" % f.locals[r[1]]["ty"]
    elif r[0] == "call":
        root = "call:" + r[1].split("::")[-1]
    else:
        root = r[0]
    return root + "".join("." + n for n in names)


def shape(f, sy, e):
    """name-independent shape of a panic edge (used as residue key together with the function)"""
    t = e["t"]
    if t["t"] == "assert":
        m = t["msg"]
        if m["a"] == "bounds":
            L = strip(sy.operand(m["len"]))
            if L[0] == "const":
                lk = (L[2] or str(L[1])).split("::")[-1]
            elif L[0] == "len" or (L[0] == "call" and L[1].endswith("::len")):
                lk = "len(%s)" % _basekey(f, L[1] if L[0] == "len" else L[2][0])
            else:
                lk = L[0]
            return "bounds[%s]" % lk
        return m["a"]
    c = callee_of(t).split("::")[-1]
    if c in ("index", "index_mut") and len(t["args"]) == 2:
        rg = strip(sy.operand(t["args"][1]))
        rk = rg[1].split("::")[-1] if rg[0] == "agg" else (rg[1].split("::")[-2] if rg[0] == "call" else "?")
        return "%s(%s, %s)" % (c, _basekey(f, sy.operand(t["args"][0])), rk)
    return c


def type_max(f, e):
    """upper bound of an integer expression from its type / shape, or None"""
    e0 = e
    while e[0] in ("cast",):
        inner = e[1]
        b = type_max(f, inner)
        if b is not None:
            return b
        e = inner
    if e[0] == "param" or e[0] == "local":
        ty = f.locals[e[1]]["ty"]
        return {"u8": 255, "u16": 65535, "u32": 2 ** 32 - 1, "bool": 1}.get(ty)
    if e[0] == "deref" or e[0] == "ref":
        return type_max(f, e[1])
    if e[0] == "bin":
        if e[1] == "Shr":
            a = type_max(f, e[2])
            k = const_value(e[3])
            if a is not None and k is not None:
                return a >> k
        if e[1] in ("Rem",):
            m = const_value(e[3])
            if m:
                return m - 1
        if e[1] == "BitAnd":
            for x in (e[2], e[3]):
                m = const_value(x)
                if m is not None:
                    return m
    if e[0] == "call":
        nm = e[1].split("::")[-1]
        if nm == "wrapping_mul" and "u32" in e[1]:
            return 2 ** 32 - 1
        g = f.prog.get(e[1])
        if g is not None and len(g.return_blocks()) == 1:
            # bound of a crate function's return expression (single-expression helpers such as debruijn_index)
            ge = Sym(g).local(0)
            if ge[0] != "local":
                return type_max(g, ge)
    if e[0] == "field" and e[2] in ("len_blockhash1", "len_blockhash2", "log_blocksize"):
        return 255
    return None


def no_redef_between(f, local, guard_blk, guard_succ, use_blk):
    """no assignment to `local` on any path guard_succ -> use_blk that does not re-pass guard_blk"""
    fwd = f.reach_from(guard_succ, avoid={guard_blk})
    # blocks that can reach use_blk without passing guard_blk
    back = {use_blk}
    st = [use_blk]
    while st:
        n = st.pop()
        for p in f.preds.get(n, []):
            if p not in back and p != guard_blk:
                back.add(p)
                st.append(p)
    region = fwd & back
    for b in region:
        for s in f.blocks[b]["stmts"]:
            if s["s"] == "assign" and s["lhs"]["l"] == local and not s["lhs"]["p"]:
                if b == use_blk:
                    continue
                return False
        t = f.blocks[b]["term"]
        if t["t"] == "call" and t["dest"]["l"] == local and b != use_blk:
            return False
    return True


def auto_discharge(f, sy, e):
    """returns (code, reason) or None"""
    t = e["t"]
    if t["t"] == "call" and callee_of(t).split("::")[-1] in ("index", "index_mut") and len(t["args"]) == 2:
        rg = canon(strip(sy.operand(t["args"][1])))
        if rg.startswith("core::ops::RangeFull"):
            return ("D0", "`[..]` selects the whole array or slice: no bound to exceed")
    if t["t"] == "assert":
        m = t["msg"]
        if m["a"] in ("div0", "rem0"):
            c = strip(sy.operand(t["cond"]))
            if c[0] == "bin" and c[1] == "Eq":
                d = const_value(c[2])
                if d is None:
                    d = const_value(c[3]) if const_value(c[3]) != 0 else None
                if d:
                    return ("D0", "divisor is the non-zero constant %s" % show(c[2]))
        if m["a"] == "bounds":
            ln = const_value(sy.operand(m["len"]))
            ie = sy.operand(m["index"])
            if ln is not None:
                mx = type_max(f, ie)
                if mx is not None and mx < ln:
                    return ("D1/D2", "index %s is at most %d < len %d by type/shape" % (show(ie), mx, ln))
            # D3: dominating comparison on the same operands
            idx = m["index"]
            for c in path_conds(f, sy, e["blk"]):
                a = bool_atom(c)
                if not a or a[0] not in ("Lt", "Le", "Gt", "Ge"):
                    continue
                op_, x, y = a[0], a[1], a[2]
                if op_ in ("Gt", "Ge"):
                    op_, x, y = {"Gt": "Lt", "Ge": "Le"}[op_], y, x
                if op_ != "Lt":
                    continue
                if canon(strip(x)) == canon(strip(ie)) and canon(strip(y)) == canon(strip(sy.operand(m["len"]))):
                    sx = strip(x)
                    if sx[0] == "local":
                        if not no_redef_between(f, sx[1], c[3][0], c[3][1], e["blk"]):
                            continue
                    return ("D3", "dominating guard %s < %s at bb%d" % (show(x), show(y), c[3][0]))
    return None


PARSE_ENTRY_SUFFIXES = ("::from_bytes", "::from_bytes_with_last_index", "FromStr>::from_str")
HASHY = ("FuzzyHashData", "FuzzyHashDualData", "FuzzyHashCompareTarget", "BlockHashPositionArray")


def parse_entries(prog):
    return [f for f in prog.fns if f.path.endswith(PARSE_ENTRY_SUFFIXES) and f.exported]


def total_entries(prog):
    out = []
    for f in prog.fns:
        if "closure" in f.path:
            continue
        if f.path.endswith(("::is_valid", "::full_eq", "::is_valid_and_normalized")) and any(h in f.path for h in HASHY + ("BlockHashPositionArrayData",)):
            out.append(f)
        elif f.impl_trait == "core::fmt::Debug" and any(h in f.impl_self for h in HASHY) and not f.derived:
            out.append(f)
    return out


def audit(ctx, prog, entries, residue, label, extra=()):
    """every panic edge in the call-graph closure of `entries` is discharged automatically or by a reviewed residue entry"""
    cl = prog.closure(entries)
    n_edges = 0
    used = set()
    for f in cl:
        ctx.visit(f, weak=True)
        sy = Sym(f)
        for e in edges(f):
            n_edges += 1
            desc = describe(f, sy, e)
            fkey = re.sub(r"^internals::", "", f.path)
            key = "%s: %s | %s | %s" % (label, fkey, e["kind"], shape(f, sy, e))
            d = auto_discharge(f, sy, e)
            for x in extra:
                if d:
                    break
                d = x(prog, f, sy, e, cl)
            loc = f.loc(e["t"]["sp"])
            if d:
                ctx.ob(R, key, True, "%s: %s" % d, loc)
                continue
            hit = None
            shp = shape(f, sy, e)
            for (fs, ds), (reason, side) in residue.items():
                if (fkey == fs or fkey.endswith("::" + fs) or fkey.endswith(fs)) and ds == shp:
                    hit = (fs, ds, reason, side)
                    break
            if hit is None:
                ctx.ob(R, key, False, "panic edge reachable from a total operation (%s) with no discharge: not a constant divisor, not bounded by type, no dominating guard on the same operands, not in the reviewed residue" % ", ".join(x.short.split("::")[-1] for x in entries[:3]), loc)
                continue
            used.add((hit[0], hit[1]))
            ok, why = True, hit[2]
            if hit[3] is not None:
                ok, w2 = hit[3](prog, f, sy, e)
                why = "%s; side condition: %s" % (hit[2], w2)
            ctx.ob(R, key, ok, "D7 reviewed: " + why, loc)
    return n_edges, len(cl)


# ---- side conditions -------------------------------------------------------------------------

def call_sites(prog, suffix):
    out = []
    for f in prog.fns:
        for i, t in f.calls():
            c = callee_of(t)
            if c == suffix or c.endswith("::" + suffix):
                out.append((f, i, t))
    return out


def side_only_called_from(callee_suffix, allowed):
    def side(prog, f, sy, e):
        cs = call_sites(prog, callee_suffix)
        bad = [g.short for g, i, t in cs if not g.path.endswith(allowed)]
        if bad:
            return False, "%s is also called from %s (the capacity argument only holds for calls from %s)" % (callee_suffix, ", ".join(sorted(set(bad))), "/".join(allowed))
        return bool(cs), "all %d call sites of %s are in %s" % (len(cs), callee_suffix, "/".join(allowed))
    return side


def has_live_len_guard(f, sy, blk, expr_canon):
    """a dominating release-live condition `len(<expr>) <= C` / `< C` on the way to blk"""
    for c in path_conds(f, sy, blk):
        a = bool_atom(c)
        if not a or a[0] not in ("Le", "Lt", "Ge", "Gt"):
            continue
        for x in (a[1], a[2]):
            x = strip(x)
            if x[0] == "call" and x[1].endswith("::len") and canon(strip(x[2][0])) == expr_canon:
                return True
            if x[0] == "len" and canon(strip(x[1])) == expr_canon:
                return True
    return False


def bounded_len(prog, f, e, blk, depth=0):
    """is the slice expression `e` (at block blk of f) bounded by its destination capacity:
    an accessor of a hash object, or a parameter with a live length guard here or at every caller"""
    e = strip(e)
    if e[0] == "call" and re.search(r"::block_hash_[12]$", e[1]):
        return True, "block_hash_K() of a hash object"
    if e[0] == "param":
        sy = Sym(f)
        if has_live_len_guard(f, sy, blk, canon(e)):
            return True, "live length guard in %s" % f.short.split("::")[-1]
        if f.unsafe:
            return True, "unsafe fn %s: caller's documented contract" % f.short.split("::")[-1]
        if f.exported:
            return False, "exported safe fn %s passes its parameter `%s` without a live length guard" % (f.short, e[2])
        if depth > 4:
            return False, "call chain too deep"
        cs = call_sites(prog, f.path)
        if not cs:
            return True, "no callers"
        whys = []
        for g, i, t in cs:
            arg = Sym(g).operand(t["args"][e[1] - 1])
            ok, w = bounded_len(prog, g, arg, i, depth + 1)
            if not ok:
                return False, w
            whys.append(w)
        return True, "; ".join(sorted(set(whys)))
    return False, "slice %s is neither a block-hash accessor nor a guarded parameter" % show(e)


def side_compress_inputs_bounded(prog, f, sy, e):
    cs = call_sites(prog, "hash_dual::algorithms::compress_block_hash_with_rle")
    whys = []
    for g, i, t in cs:
        arg = Sym(g).operand(t["args"][3])
        ok, w = bounded_len(prog, g, arg, i)
        if not ok:
            return False, "compress_block_hash_with_rle call in %s: %s" % (g.short, w)
        whys.append(w)
    return bool(cs), "%d call sites pass bounded inputs (%s)" % (len(cs), "; ".join(sorted(set(whys))))


def side_and(*sides):
    def side(prog, f, sy, e):
        ws = []
        for s in sides:
            ok, w = s(prog, f, sy, e)
            ws.append(w)
            if not ok:
                return False, w
        return True, "; ".join(ws)
    return side


def counter_counts_every_item(f, sy, l):
    """local `l` is incremented exactly once on every path from the Some arm of the input iterator's next() back to
    that next() call (i.e. once per consumed item that is followed by another iteration)"""
    lname = f.locals[l]["name"]
    heads = []
    for i, t in f.calls():
        if callee_of(t).endswith("::next"):
            nb = t["to"]
            # follow to the switch on the discriminant
            for _ in range(3):
                tt = f.blocks[nb]["term"]
                if tt["t"] == "switch":
                    break
                nb = f.lsuccs(nb)[0] if f.lsuccs(nb) else nb
            tt = f.blocks[nb]["term"]
            if tt["t"] != "switch":
                continue
            some = [a[1] for a in tt["arms"] if a[0] == "1"]
            if some and i in f.reach_from(some[0]):
                heads.append((i, some[0]))
    if not heads:
        return False, "no input loop found"
    inc_blocks = set()
    for (blk, j, kind, x) in f.defs.get(l, []):
        if kind != "rv":
            continue
        ex = sy.rvalue(x)
        if (ex[0] == "bin" and ex[1] == "Add" and ex[2] == ("local", l, lname) and const_value(ex[3]) == 1) or \
                (ex[0] == "agg" and ex[1] == "Tuple" and ex[2][0][0] == "bin" and ex[2][0][1] == "Add" and ex[2][0][2] == ("local", l, lname)):
            inc_blocks.add(blk)
    for head, some in heads:
        # a path Some -> head that avoids every increment block means an item was consumed without being counted
        reach = f.reach_from(some, avoid=inc_blocks)
        if head in reach:
            return False, "an iteration can return to next() without incrementing `%s`" % lname
    return True, "`%s` is incremented on every iteration path" % lname


def side_index_counts_consumed(prog, f, sy, e):
    """parse_block_hash_from_bytes: the re-slice start is a counter that is only set to 0 or incremented by 1 inside the
    Some arm of next() of an iterator over the same slice (or that counter + 1 packed in the result tuple); hence
    start <= number of bytes yielded (+1 for a yielded-but-uncounted terminator) <= bytes.len()"""
    t = e["t"]
    rg = strip(sy.operand(t["args"][1])) if t["t"] == "call" and len(t["args"]) == 2 else None
    l = None
    if rg is not None and rg[0] == "agg" and rg[2]:
        st = strip(rg[2][0])
        if st[0] == "local":
            l = st[1]
        elif st[0] == "field" and strip(st[1])[0] == "local":
            # `result.1`: a (state, position) tuple local whose position components are the counter or the counter + 1
            tl = strip(st[1])[1]
            cnts = set()
            for (blk, idx, kind, x) in f.defs.get(tl, []):
                ex = sy.rvalue(x) if kind == "rv" else None
                if ex is None or ex[0] != "agg" or len(ex[2]) != 2:
                    return False, "position tuple assigned from %s" % (show(ex) if ex else "a call")
                pos = strip(ex[2][1])
                if pos[0] == "bin" and pos[1] == "Add" and const_value(pos[3]) == 1:
                    pos = strip(pos[2])
                if pos[0] != "local":
                    return False, "position component %s is not the counter" % show(pos)
                cnts.add(pos[1])
            if len(cnts) == 1:
                l = cnts.pop()
    if l is None:
        return False, "re-slice start is not a counter local"
    lname = f.locals[l]["name"]
    # the iterator(s) whose Some arm controls the increments must run over the very slice that is re-sliced
    base_root = fpath(sy.operand(t["args"][0]))[0]
    from .fold import iter_source
    src_ok = False
    for i2, t2 in f.calls():
        if callee_of(t2).endswith("::next"):
            src = sy.origin(strip(sy.operand(t2["args"][0])))
            while src[0] == "call" and src[2] and src[1].split("::")[-1] in ("into_iter", "iter", "copied", "cloned", "take", "enumerate"):
                src = strip(src[2][0])
            if fpath(src)[0] == base_root and base_root[0] == "param":
                src_ok = True
    if not src_ok:
        return False, "no iterator over the re-sliced parameter"
    for (blk, j, kind, x) in f.defs.get(l, []):
        if kind != "rv":
            return False, "index assigned from a call"
        ex = sy.rvalue(x)
        if ex[0] == "const" and ex[1] == 0:
            continue
        inc = None
        if ex[0] == "bin" and ex[1] == "Add" and ex[2] == ("local", l, lname) and const_value(ex[3]) == 1:
            inc = True
        elif ex[0] == "agg" and ex[1] == "Tuple":
            inc = ex[2][0][0] == "bin" and ex[2][0][1] == "Add" and ex[2][0][2] == ("local", l, lname) and const_value(ex[2][0][3]) == 1
        elif ex[0] == "local":
            continue  # checked-add temp moved back (dbg builds): covered by the tuple form
        if not inc:
            return False, "index assigned %s" % show(ex)
        # block must be control-dependent on a next()==Some test
        ok = False
        for c in path_conds(f, sy, blk):
            ce = c[0]
            if ce[0] == "discr":
                r = strip(ce[1])
                if r[0] == "local":
                    # multi-assigned variable (`raw_ch`): value assigned in the switch block itself
                    for st in reversed(f.blocks[c[3][0]]["stmts"]):
                        if st["s"] == "assign" and st["lhs"]["l"] == r[1] and not st["lhs"]["p"]:
                            r = strip(sy.rvalue(st["rv"]))
                            break
                if r[0] == "call" and r[1].endswith("::next") and c[1] == "in" and c[2] == (1,):
                    ok = True
        if not ok:
            return False, "index incremented outside the Some arm of next() (bb%d)" % blk
    ok2, w2 = counter_counts_every_item(f, sy, l)
    if not ok2:
        return False, w2
    return True, "counter `%s` is 0 or +1 per item yielded by the iterator, on every iteration path" % lname


# ---- discharges specific to the "never panics for any content" entry points ---------------------------------------

def under_is_valid(f, sy, blk):
    """block is reached only when `<..>::is_valid(self)` returned true"""
    for c in path_conds(f, sy, blk):
        a = bool_atom(c)
        if a and a[0] == "truth" and a[2] is True:
            e = strip(a[1])
            if e[0] == "call" and e[1].endswith("::is_valid") and e[2] and is_param(strip(e[2][0]), "self"):
                return True
    return False


def d_valid_arm(prog, f, sy, e, cl):
    """D4a: edge lies on the `if self.is_valid()` arm of a Debug impl (or in a closure only created there)"""
    if "{closure" in f.path:
        parent = prog.get(f.path.rsplit("::{closure", 1)[0])
        if parent is None:
            return None
        ps = Sym(parent)
        sites = []
        for i, j, s in parent.stmts():
            if s["s"] == "assign" and s["rv"]["r"] == "agg" and s["rv"]["kind"].get("def") == f.path:
                sites.append(i)
        if sites and all(under_is_valid(parent, ps, b) for b in sites):
            return ("D4", "closure is only created on the `self.is_valid()` arm of %s: symbols < 64 and lengths within capacity hold there" % parent.short.split("::")[-2])
        return None
    if under_is_valid(f, sy, e["blk"]):
        # the argument "length <= capacity, position < length" covers a scratch array only when that array has the capacity of the block
        # hash it holds: S1 / S2 of the hash type (64 / 64 for the comparison target) - a 32-byte scratch buffer for a block hash 2 that
        # may hold 64 symbols is exactly the slip this audit is for
        shp = shape(f, sy, e)
        desc = describe(f, sy, e)
        generic = "FuzzyHashCompareTarget" not in (f.impl_self or f.path)
        # a block hash array (or a copy / map of it) may only be sliced by ITS OWN length: `buffer2[..len_blockhash1]` is within capacity
        # for the long forms only
        arrs = set(re.findall(r"(?<![_\w])blockhash([12])\b", desc))
        lens = set(re.findall(r"len_blockhash([12])\b", desc))
        if arrs and lens and arrs != lens:
            return None
        for n in re.findall(r"local<\[u8; ([^\]]+)\]>", shp):
            n = n.strip()
            full = n in ("64", "64_usize") or n.endswith("FULL_SIZE") or n.endswith("FULL_SIZE}")
            k = "2" if "len_blockhash2" in desc else ("1" if "len_blockhash1" in desc else None)
            ok = full or (generic and n in ("S1", "S2") and (k is None or n == "S" + k))
            if not ok:
                return None
        return ("D4", "on the `self.is_valid()` arm: lengths within capacity, symbols < 64 (ASCII table output), scratch arrays of the block hash's capacity, so slicing/from_utf8 cannot fail")
    return None


def d_len_guard_at_callers(prog, f, sy, e, cl):
    """D4b: verify_block_hash_internal slices by `blockhash_len`; every call chain inside the closure passes a length
    guarded by a dominating `len <= capacity` at the call site"""
    if not f.path.endswith("algorithms::verify_block_hash_internal"):
        return None
    inside = {g.path for g in cl}
    todo = [(f.path, 2)]  # (function, index of the length parameter)
    seen = set()
    while todo:
        path, pi = todo.pop()
        if (path, pi) in seen:
            continue
        seen.add((path, pi))
        for g, i, t in call_sites(prog, path):
            if g.path not in inside:
                continue
            gs = Sym(g)
            arg = strip(gs.operand(t["args"][pi - 1]))
            if arg[0] == "param":
                todo.append((g.path, arg[1]))
                continue
            ok = False
            for c in path_conds(g, gs, i):
                a = bool_atom(c)
                if a and a[0] in ("Le", "Lt") and canon(strip(a[1])) == canon(arg) and strip(a[2])[0] == "const":
                    ok = True
            if not ok:
                return None
    return ("D4", "every call chain inside the closure passes a length dominated by `len <= capacity` (short-circuit in is_valid)")


def d_rle_validator(prog, f, sy, e, cl):
    """D4c: is_valid_rle_block_for_block_hash indexes blockhash at pos-2..=pos only after `pos >= 2 && pos < blockhash_len`,
    and is called only after norm_hash.is_valid() (so blockhash_len <= SZ_BH)"""
    if not f.path.endswith("algorithms::is_valid_rle_block_for_block_hash"):
        return None
    have_lt = have_ge = False
    for c in path_conds(f, sy, e["blk"]):
        a = bool_atom(c)
        if not a or a[0] not in ("Lt", "Ge"):
            continue
        x, y = strip(a[1]), strip(a[2])
        if a[0] == "Lt" and is_param(y, "blockhash_len"):
            have_lt = True
        if a[0] == "Ge" and y[0] == "bin" and y[1] == "Sub":
            have_ge = True
        if a[0] == "Ge" and y[0] == "cast" or (a[0] == "Ge" and const_value(y) is not None):
            have_ge = True
    if not (have_lt and have_ge):
        return None
    for g, i, t in call_sites(prog, f.path):
        gs = Sym(g)
        ok = False
        for c in path_conds(g, gs, i):
            a = bool_atom(c)
            if a and a[0] == "truth" and a[2] is True and strip(a[1])[0] == "call" and strip(a[1])[1].endswith("::is_valid"):
                ok = True
        if not ok:
            return None
    return ("D4", "index is between pos-2 and pos with 2 <= pos < blockhash_len (dominating guards) and every caller first requires norm_hash.is_valid() (blockhash_len <= SZ_BH)")


def totality_of_validity(ctx, prog):
    ents = total_entries(prog)
    n, nb = audit(ctx, prog, ents, {}, "valid", extra=(d_valid_arm, d_len_guard_at_callers, d_rle_validator))
    ctx.floor(R, len(ents), 10, "is_valid / full_eq / Debug entry points")
    ctx.floor(R, n, 12, "panic edges in their closure")
