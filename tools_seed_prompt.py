#!/usr/bin/env python3
"""dev helper: write the prompt for an area-focused seeding agent (round 6 onwards).
usage: tools_seed_prompt.py <root dir, e.g. /tmp/seed9> <area> [extra focus text]  -> prints the prompt; the agent works in <root>/<area>,
a scratch `git worktree` of /repo that must exist.  The agent sees the property texts only (nothing from /verif); the avoid-list is the
one-line summaries of the changes already stored under /verif/seeded that touched the area's files."""
import glob, json, os, sys
root, area = sys.argv[1], sys.argv[2]
focus = sys.argv[3] if len(sys.argv) > 3 else ""
W = "%s/%s" % (root, area)
AREAS = {
 "gen": ("ffuzzy/src/internals/generate.rs, ffuzzy/src/internals/generate/hashes/rolling_hash.rs, ffuzzy/src/internals/generate/hashes/partial_fnv.rs, ffuzzy/src/internals/generate_easy.rs, ffuzzy/src/internals/generate_easy_std.rs, ffuzzy/src/internals/utils.rs", ["generate", "utils.rs"]),
 "parse": ("ffuzzy/src/internals/hash/algorithms.rs, ffuzzy/src/internals/hash/parser_state.rs, ffuzzy/src/internals/base64.rs and the parse / format parts of ffuzzy/src/internals/hash.rs (from_bytes*, from_str, store_into_bytes, to_string, Display, len_in_str)", ["algorithms.rs", "parser_state.rs", "base64.rs", "internals/hash.rs"]),
 "hash": ("ffuzzy/src/internals/hash.rs (everything except parse/format) and ffuzzy/src/internals/hash/block.rs", ["internals/hash.rs", "hash/block.rs"]),
 "dual": ("ffuzzy/src/internals/hash_dual.rs", ["hash_dual.rs"]),
 "cmp": ("ffuzzy/src/internals/compare.rs and ffuzzy/src/internals/compare_easy.rs", ["internals/compare.rs", "compare_easy.rs"]),
 "pos": ("ffuzzy/src/internals/compare/position_array.rs", ["position_array.rs"]),
}
desc, keys = AREAS[area]
props = [json.loads(l) for l in open("/verif/properties.jsonl")]
ptxt = "\n\n".join("%s - %s: %s" % (p["id"], p["title"], p["statement"]) for p in props if p["id"] not in ("C08", "C09"))
avoid = []
for m in sorted(glob.glob("/verif/seeded/*/meta.json")):
    am = json.load(open(m)).get("agent_meta", {})
    files = " ".join(am.get("files_changed", []) or [])
    if any(k in files for k in keys):
        avoid.append("- " + " ".join((am.get("summary") or "").split())[:420])
print(f"""You are working in a scratch git worktree of the Rust library a4lg/ffuzzy (a pure-Rust ssdeep fuzzy hashing library; crate `ffuzzy`, lib name `ssdeep`) at {W}. Work ONLY inside {W}; never read or touch /repo, /verif or other /tmp directories. There is no network: always run cargo with `--offline` and the environment `CARGO_NET_OFFLINE=true CARGO_TARGET_DIR={W}/target`.

The library is supposed to satisfy the following semantic properties (id - title: statement):

{ptxt}

YOUR TASK: you are a bug seeder for ONE source area: {desc}.
Produce THREE independent, different source changes ("seeded bugs") to non-test code in that area, each of which BREAKS at least one of the properties above (say which), while the crate still compiles with no new compiler warnings and the existing test suite still passes completely:
    cd {W} && CARGO_NET_OFFLINE=true CARGO_TARGET_DIR={W}/target cargo test --offline -p ffuzzy --lib     (198 tests must pass; takes one to three minutes)
Requirements for each change:
 * Realistic: the kind of small slip or well-meant "improvement" a maintainer could plausibly commit. Keep each change small.
 * It must need something specific to manifest (a particular unusual input, a border value, a multi-step call sequence, a reused object, a rarely used entry point, a non-default feature `unsafe` / `unchecked` / `opt-reduce-fnv-table` / `strict-parser` / `--no-default-features`, a release-only or debug-only difference, or two cooperating sites) - NOT something ordinary use or the existing tests expose at once.
 * The three changes must be in three different functions and of three different kinds.
 * {focus or "Look for places NOBODY has looked at yet: small accessors and helpers, trait impls, constants and compile-time tables, error types and their accessors, feature-gated twins, `Default`/`From`/`AsRef` impls, boundary handling for empty and maximum-size inputs, interactions between two functions that each look fine alone."}
 * Earlier rounds already produced the ideas below in this area; do NOT reuse them or close variants:
{chr(10).join(avoid)}
 * Do not edit tests, Cargo files, or build scripts.
For each change also write a DEMONSTRATION: a small Rust integration test file (e.g. {W}/ffuzzy/tests/demo_{area}_1.rs using the public API `ssdeep::...`; features can be given with `--features`) that FAILS with the change applied and PASSES on the unchanged code. Verify both directions yourself. Keep demos fast (under two minutes).

DELIVERABLES, in {W}/OUT/ (create the directory):
  patch1.diff, patch2.diff, patch3.diff   - `git diff` of ONLY the library change (each against the clean checkout; must apply with `git apply patchN.diff`)
  demo1.rs, demo2.rs, demo3.rs            - the demonstration test files (copies)
  meta1.json, meta2.json, meta3.json      - {{"property": "<the property id it breaks most directly, e.g. C07>", "summary": "...", "needs_to_manifest": "...", "files_changed": [...], "demo_command": "exact cargo command only (from the worktree root, demo placed at ffuzzy/tests/demo_{area}_N.rs), no commentary", "suite_command": "...", "observed": "suite passes with change (N tests), demo fails with change, demo passes without"}}
When done, leave the worktree with NO change applied to library files and remove your demo copies from ffuzzy/tests/ (keep OUT/). Do not commit, do not use git stash. Aim to finish within about 45 minutes; deliver fewer than three if you must. In your final answer, summarise briefly what the changes are.""")
