"""SA-CAST: a census of lossy integer casts.

Every `as` cast to a narrower integer type whose operand is not a constant that fits silently drops bits.  The crate has
about twenty of them, in twelve functions; each was read and is listed below with the reason its operand fits (or why
dropping bits is intended).  The rule enumerates the casts of the type-checked program (MIR `Cast(IntToInt)`, outside
assertion macros) and reports any that is not covered: a cast in a function that is not listed, or more casts of a kind
than were reviewed in a listed function.  It is a who-may rule (Engler et al.): it does not prove the listed operands
bounded, it makes a NEW silent truncation impossible to add without showing up."""
import re
from ..sym import Sym, strip, canon, const_value

R = "SA-CAST"
W = {"u8": 8, "u16": 16, "u32": 32, "u64": 64, "usize": 64, "i8": 8, "i16": 16, "i32": 32, "i64": 64, "isize": 64, "u128": 128, "i128": 128}

# function suffix -> {(source type, target type): (max count, reason)}
REVIEWED = {
    "BlockHashPositionArrayImplInternal::edit_distance_internal": {("usize", "u32"): (1, "other.len() <= 64 by the caller contract asserted by the safe wrappers; u32 holds any slice length that matters")},
    "BlockHashPositionArrayImplInternal::score_strings_internal": {("usize", "u8"): (1, "other.len() <= 64: safe wrapper asserts, internal callers pass block-hash slices")},
    "BlockHashPositionArrayImplInternal::score_strings_raw_internal": {("usize", "u8"): (1, "as above")},
    "BlockHashPositionArrayImplMutInternal::init_from_partial": {("usize", "u8"): (1, "blockhash.len() <= 64: init_from asserts, internal callers pass block-hash slices")},
    "Generator::finalize_raw_internal": {("usize", "u8"): (4, "block-size index < 31; piece counters <= the array lengths they index (bounds-checked copies follow)")},
    "PartialFNVHash::update_by_byte": {("u32", "u8"): (1, "opt-reduce-fnv-table: the low byte of the product is the state by design; value() masks to 6 bits (SA-DATA)")},
    "FuzzyHashData::<S1, S2, NORM>::new_from_internals_near_raw_internal": {("usize", "u8"): (2, "lengths checked against S1/S2 (<= 64) by the asserting constructor / range-checked copies")},
    "algorithms::normalize_block_hash_in_place_internal": {("usize", "u8"): (2, "output counter <= input length, itself a u8 (the second occurrence is the operand of the `len as u8 <= old` belief in builds that keep it)")},
    "algorithms::parse_block_hash_from_bytes": {("usize", "u8"): (2, "stored length <= N <= 64 (capacity guard / take(N))")},
    "NumericWindows::<'a>::new::{closure#0}": {("usize", "u32"): (1, "shift amount derived from a position < 7")},
    "hash_dual::algorithms::compress_block_hash_with_rle": {("usize", "u8"): (1, "output counter <= SZ_BH <= 64")},
    "hash_dual::algorithms::update_rle_block": {("usize", "u8"): (3, "position < 64 (6 bits) and run length field < 4 (2 bits) of one RLE byte; inputs bounded by the compressor (SA-PANIC side condition)")},
}


def census(ctx, prog, scope=None, floor=None):
    ctx.rule(R, "lossy-cast census: every integer cast to a narrower type whose operand is not a fitting constant lies in a reviewed function, and no reviewed function has more such casts than were read; a new silent truncation shows up as an uncovered cast")
    rx = re.compile(scope) if scope else None
    n = 0
    for f in prog.fns:
        if f.derived or (rx and not rx.search(f.path)):
            continue
        sy = None
        found = {}
        for i, j, s in f.stmts():
            if s["s"] != "assign" or s["rv"]["r"] != "cast":
                continue
            m = s["sp"].get("macros", [])
            if "invariant" in m or "debug_assert" in m or "assert" in m:
                continue
            to = s["rv"]["to"]
            a = s["rv"]["a"]
            src = a["pl"]["ty"] if a["k"] in ("copy", "move") else a.get("ty")
            if src not in W or to not in W or W[to] >= W[src]:
                continue
            sy = sy or Sym(f)
            e = strip(sy.operand(a))
            v = const_value(e)
            if v is not None and 0 <= v < (1 << W[to]):
                continue
            found.setdefault((src, to), []).append((canon(e)[:80], s["sp"]))
        if not found:
            continue
        ctx.visit(f, weak=True)
        ent = None
        for suf, tab in REVIEWED.items():
            if f.path.endswith(suf):
                ent = tab
        for (src, to), sites in found.items():
            n += len(sites)
            if ent is None or (src, to) not in ent:
                ctx.ob(R, "%s: %s -> %s casts are reviewed" % (f.short, src, to), False,
                       "unreviewed lossy cast of %s" % "; ".join(x[0] for x in sites), f.loc(sites[0][1]))
                continue
            mx, why = ent[(src, to)]
            ctx.ob(R, "%s: %s -> %s casts are reviewed" % (f.short, src, to), len(sites) <= mx,
                   ("%d casts (%s), %d reviewed: %s" % (len(sites), "; ".join(x[0] for x in sites), mx, why))[:400], f.loc(sites[0][1]))
    if floor is not None:
        ctx.floor(R, n, floor, "lossy casts in scope")
