"""C04 — parsing is total; index/err discipline; the grammar as outcome tables of the three field parsers and the driver."""
from ..rules import parser, data, normal, casts, summary, features, beliefs

EXPL = ("Decides: (1) SA-PANIC totality: every panic edge in the call-graph closure of the six generic parse entry points "
        "(from_bytes, from_bytes_with_last_index, from_str for plain and dual types) in release-like configurations is discharged "
        "(constant divisor, index bounded by type, dominating guard on the same operands) or is a reviewed residue entry with a "
        "structural side condition - notably: the RLE encoder update_rle_block is callable only from compress_block_hash_with_rle, "
        "whose inputs are length-bounded at every call site (the defect F1, now fixed, violated exactly this); (2) SA-ERRPURE: the "
        "caller's index is written only on the way to Ok; (3) SA-PHASE: every ParseError built in the k-th block-hash phase names "
        "BlockHash<k>, the two parse calls fill (blockhashK, len_blockhashK) with capacity SK; (4) the stored symbol is the reverse "
        "table value on the not-INVALID arm and the tables are exact inverses (SA-DATA), destinations are fresh; (5) SA-GUARD, the grammar as tables read off the controlling branch conditions: the block-size field parser "
        "reaches each of its six errors and Ok exactly under the grammar's condition with the documented position (digits accumulated as "
        "10*x + d with overflow detection, leading zero, empty, out of range, not one of the 31 sizes, stray byte, end of input); a block-hash "
        "field stops with MetColon / MetComma at ':' / ',' (terminator eaten), MetEndOfString at the end, Base64Error at any other byte, "
        "OverflowError exactly when the stored length reached the capacity (default parser) or the bounded iterator ran dry before a "
        "terminator (strict parser), `consumed` being the counter of items taken; the driver turns (field, stop state) into the documented "
        "outcome: field 1 must stop at ':', field 2 at ',' (index = offset-1) or the end (index = offset), every other state is the "
        "documented error kind / origin / position, offset being the sum of the consumed counts; all public forms run this one driver on "
        "the caller's bytes; the run limit of the normalising parser agrees with the other run detectors. NOT decided: the composition "
        "of these tables into `accepted language == grammar` as a statement over all strings (it follows from them by reading, not by a "
        "mechanised argument), and the values stored for accepted text beyond `each symbol is the reverse-table value`.")


def run(ctx):
    cfgs = ["rel", "strict", "unsafe"] if ctx.tier == "quick" else ["rel", "strict", "dbg", "unsafe", "nodef", "unchecked"]
    ctx.progs(cfgs)  # build all configurations in parallel
    for c in cfgs:
        prog = ctx.prog(c)
        if c != "dbg":
            ctx.guard("C04", "totality", lambda: parser.totality(ctx, prog))
        ctx.guard("C04", "index", lambda: parser.index_purity(ctx, prog))
        ctx.guard("C04", "phase", lambda: parser.error_origin_by_phase(ctx, prog))
        ctx.guard("C04", "store", lambda: parser.symbol_store(ctx, prog))
        ctx.guard("C04", "lookahead", lambda: parser.strict_lookahead(ctx, prog))
        ctx.guard("C04", "blocksize", lambda: parser.block_size_field(ctx, prog))
        ctx.guard("C04", "forms", lambda: parser.entry_forms(ctx, prog))
        ctx.guard("C04", "endclass", lambda: parser.end_classification(ctx, prog))
        ctx.guard("C04", "capacity", lambda: parser.capacity_after_collapse(ctx, prog))
        ctx.guard("C04", "outcomes", lambda: parser.driver_outcomes(ctx, prog))
        ctx.guard("C04", "runlimit", lambda: normal.run_limit_agreement(ctx, prog))
        ctx.guard("C04", "tables", lambda: data.base64_tables(ctx, prog))
        if c == "unsafe":
            # every belief (invariant!) on the parse path is backed by a run-time check of the safe build: an unbacked one (say, a bound
            # on how much text a normalising parser may consume) panics in debug builds and is undefined behaviour under `unsafe`
            ctx.guard("C04", "invpair", lambda: features.invpair(ctx, prog, scope=r"hash::algorithms::parse_|::from_bytes|::from_str|hash_dual::algorithms::(compress_block_hash_with_rle|update_rle_block)", floors=(6, 4)))
        ctx.guard("C04", "casts", lambda: casts.census(ctx, prog, scope='hash::algorithms::parse_|::from_bytes|::from_str|hash_dual::algorithms::(compress_block_hash_with_rle|update_rle_block)', floor=2))
        ctx.guard("C04", "const values", lambda: data.const_census(ctx, prog, data.CONST_SCOPES["C04"], floor=1))
        ctx.guard("C04", "panic conditions", lambda: beliefs.live_census(ctx, prog, beliefs.SCOPES["C04"][0]))
        ctx.guard("C04", "validator-outcomes", lambda: normal.validator_outcomes(ctx, prog))
        ctx.guard("C04", "parser-init", lambda: parser.initial_values(ctx, prog))
        ctx.guard("C04", "run-counters", lambda: normal.run_counters(ctx, prog, ("validator", "parser")))
        ctx.guard("C04", "run-reports", lambda: parser.run_reports(ctx, prog))
        ctx.guard("C04", "summaries", lambda: summary.check(ctx, prog, 'parser_state::|ParseErrorEither|::from_bytes|::from_str', floor=4))
        ctx.guard("C04", "generic consts", lambda: summary.check_consts(ctx, prog, floor=13))
        ctx.guard("C04", "path summaries", lambda: summary.check_paths(ctx, prog, 'parser_state::|ParseErrorEither|::from_bytes|::from_str', floor=0))
        if c in ("dbg", "unsafe_dbg", "strict_dbg"):
            ctx.guard("C04", "beliefs", lambda: beliefs.census(ctx, prog, beliefs.SCOPES["C04"][0], floor=beliefs.SCOPES["C04"][1]))
    return ctx.finish(EXPL, ["overflow checks of debug builds are not part of the verdict (release-like configurations decide)", "core slice/iterator APIs panic only as documented", "residue entries are reviewed by hand; each states its reason"])
