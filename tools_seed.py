#!/usr/bin/env python3
"""Confirm a seeded change and run the checks against it.
usage: tools_seed.py <PID> <n> [--skip-confirm]
 1. in the scratch worktree /tmp/seed/<PID>: apply OUT/patch<n>.diff, run the pinned lib suite (must pass),
    run the demo (must fail); revert; run the demo again (must pass).
 2. apply the patch to /repo, run every registered check (quick; thorough for the target), revert /repo.
 3. store under /verif/seeded/<PID>-<n>/ : patch.diff, demo.rs, meta.json (agent's meta + what was run and observed)."""
import json, os, re, shutil, subprocess, sys, time
pid, n = sys.argv[1], sys.argv[2]
skip = "--skip-confirm" in sys.argv
ROOT = os.environ.get("SEED_ROOT", "/tmp/seed")
OFFSET = int(os.environ.get("SEED_OFFSET", "0"))
W = os.environ.get("SEED_WT", "%s/%s" % (ROOT, pid))
OUT = W + "/OUT"
patch = "%s/patch%s.diff" % (OUT, n)
demo = "%s/demo%s.rs" % (OUT, n)
meta = json.load(open("%s/meta%s.json" % (OUT, n)))
env = dict(os.environ, CARGO_NET_OFFLINE="true", CARGO_TARGET_DIR=W + "/target")
res = {"confirmed": None}

def run(cmd, cwd, env=env, timeout=3000):
    p = subprocess.run(cmd, cwd=cwd, env=env, shell=isinstance(cmd, str), capture_output=True, text=True, timeout=timeout)
    return p.returncode, (p.stdout + p.stderr)

def demo_cmd():
    c = meta.get("demo_command", "")
    m = re.search(r"--test\s+(\S+)", c)
    name = m.group(1) if m else "demo_%s_%s" % (pid, n)
    feats = re.search(r"--features[= ]\s*(\S+)", c)
    nd = "--no-default-features" in c
    rel = "--release" in c
    cmd = ["cargo", "test", "--offline", "-p", "ffuzzy", "--test", name]
    if feats: cmd += ["--features", feats.group(1).strip('"\'')]
    if nd: cmd += ["--no-default-features"]
    if rel: cmd += ["--release"]
    return name, cmd

if not skip:
    run(["git", "checkout", "--", "."], W)
    name, dcmd = demo_cmd()
    dst = "%s/ffuzzy/tests/%s.rs" % (W, name)
    os.makedirs(os.path.dirname(dst), exist_ok=True)
    shutil.copy(demo, dst)
    rc, o = run(["git", "apply", patch], W)
    assert rc == 0, "patch does not apply: " + o
    rc_s, o_s = run(["cargo", "test", "--offline", "-p", "ffuzzy", "--lib"], W)
    m = re.search(r"test result: (\w+)\. (\d+) passed; (\d+) failed", o_s)
    res["suite_with_change"] = m.group(0) if m else o_s[-300:]
    rc_d1, o_d1 = run(dcmd, W)
    res["demo_with_change_exit"] = rc_d1
    run(["git", "apply", "-R", patch], W)
    rc_d0, o_d0 = run(dcmd, W)
    res["demo_without_change_exit"] = rc_d0
    os.unlink(dst)
    run(["git", "checkout", "--", "."], W)
    res["confirmed"] = bool(m and m.group(1) == "ok" and int(m.group(2)) == 198 and rc_d1 != 0 and rc_d0 == 0)
    res["demo_cmd"] = " ".join(dcmd)
    print("confirm:", res)
    if not res["confirmed"]:
        print(o_d1[-1500:]); print(o_d0[-800:])

# 2. run checks with the patch applied.  Default: in the scratch worktree (VERIF_REPO=<worktree>, same content as /repo's
#    HEAD plus the patch) so that development in /verif is not disturbed; with --repo: git -C /repo apply / checkout.
use_repo = "--repo" in sys.argv
target = "/repo" if use_repo else W
if use_repo:
    assert run(["git", "status", "--porcelain"], "/repo")[1].strip() == "", "/repo dirty"
else:
    assert run(["git", "rev-parse", "HEAD"], W)[1].strip() == run(["git", "rev-parse", "HEAD"], "/repo")[1].strip(), "worktree not at /repo HEAD"
CHK = os.environ.get("VERIF_CHECK_DIR", "/verif")   # a frozen snapshot of /verif's HEAD when evaluating in the background
man = json.load(open(CHK + "/MANIFEST.json"))
claimed = [c["property_id"] for c in man["checks"]]
rc, o = run(["git", "apply", patch], target)
assert rc == 0, o
caught = {}
try:
    cenv = dict(os.environ, VERIF_FACT_CACHE="1", VERIF_REPO=target, VERIF_EVIDENCE_DIR="%s/evidence-%s-%s" % (ROOT, pid, n))
    for c in claimed:
        tier = "thorough" if c == pid else "quick"
        rc, o = run(["./check", c, "--tier", tier], CHK, env=cenv)
        viol = [l for l in o.splitlines() if ": SA-" in l or "FLOOR" in l or "ANCHOR" in l or "SHAPE" in l]
        caught[c] = {"exit": rc, "tier": tier, "reports": [v[:300] for v in viol if "VIOLATION" not in v][:6]}
finally:
    run(["git", "checkout", "--", "."], target)
    shutil.rmtree("%s/evidence-%s-%s" % (ROOT, pid, n), ignore_errors=True)
res["checks"] = caught
det = [c for c, v in caught.items() if v["exit"] != 0]
print("DETECTED BY:", det)
for c in det:
    for r in caught[c]["reports"][:3]: print("   ", c, r[:260])
d = "/verif/seeded/%s-%s" % (pid, os.environ.get("SEED_INDEX") or (int(n) + OFFSET))
os.makedirs(d, exist_ok=True)
prev_conf = None
if skip and os.path.exists(d + "/meta.json"):
    try:
        prev_conf = json.load(open(d + "/meta.json")).get("confirmation")
    except Exception:
        prev_conf = None
shutil.copy(patch, d + "/patch.diff"); shutil.copy(demo, d + "/demo.rs")
meta_out = {"property": pid, "agent_meta": meta, "needs_to_manifest": meta.get("needs_to_manifest"), "confirmation": res if not skip else (prev_conf if isinstance(prev_conf, dict) else "skipped"),
            "detected_by": det, "target_detected": pid in det, "checks_run": {c: {"exit": v["exit"], "tier": v["tier"]} for c, v in caught.items()},
            "checks_target_tree": target, "reports": {c: caught[c]["reports"] for c in det}, "when": time.strftime("%Y-%m-%d %H:%M")}
json.dump(meta_out, open(d + "/meta.json", "w"), indent=1)
