"""Block-size predicates and score helpers (block.rs / compare.rs): C20 clauses."""
from ..sym import Sym, strip, show, is_param, const_named, const_value, canon, lin, signed, match
from ..mir import callee_of, AnchorError
from . import guard as G

R = "SA-GUARD"


def is_log_valid(ctx, prog):
    f = prog.fn("block_size::is_log_valid")
    ctx.visit(f)
    e = Sym(f).local(0)
    ok = match(e, ("bin", "Lt", ("param", "log_block_size"), ("named", "block_size::NUM_VALID", 31)))
    ctx.ob(R, "is_log_valid(x) is true iff x in [0, 31)", ok, show(e), f.loc())


def is_valid_shape(ctx, prog):
    f = prog.fn("block_size::is_valid")
    ctx.visit(f)
    sy = Sym(f)
    # false outcome iff bs % MIN != 0 ; otherwise result = is_power_of_two(bs / MIN)
    fb = G.blocks_assigning_ret(f, sy, lambda e: e[0] == "const" and e[1] == 0)

    def rem_spec(a):
        if a[0] not in ("Ne", "Eq"):
            return False
        x, y = a[1], a[2]
        return a[0] == "Ne" and match(x, ("bin", "Rem", ("param", "block_size"), ("named", "block_size::MIN", 3))) and const_value(y) == 0
    G.check_exact(ctx, R, "is_valid(bs) is false when bs % 3 != 0", f, sy, fb, [("bs % MIN != 0", rem_spec)])
    ok = False
    why = "no delegated result"
    for i, t in f.calls():
        if t["dest"]["l"] == 0:
            e = sy.call(t)
            why = show(e)
            ok = match(e, ("call", "is_power_of_two", [("bin", "Div", ("param", "block_size"), ("named", "block_size::MIN", 3))]))
    ctx.ob(R, "is_valid(bs) otherwise is (bs / 3).is_power_of_two()  => exactly the 31 values 3*2^n < 2^32", ok, why, f.loc())


def _diff_form(e, a="lhs", b="rhs"):
    """linear form restricted to the two parameters: returns (coef_a, coef_b, const) or None"""
    l = lin(e)
    if l is None:
        return None
    d, c = l
    ka, kb = "param:%s" % a, "param:%s" % b
    if set(d) - {ka, kb}:
        return None
    return d.get(ka, 0), d.get(kb, 0), c


def relation_predicates(ctx, prog):
    """is_near_eq / is_near_lt / is_near_gt / is_near / compare_sizes as difference constraints on (lhs - rhs)"""
    ctx.rule("SA-RELATION", "each block-size relation predicate, read as a constraint on d = lhs - rhs of the logarithms, equals the definition: NearEq d=0 (equal), NearLt d=-1 (rhs is double), NearGt d=+1 (rhs is half), Near d in {-1,0,1}, Far otherwise")
    RR = "SA-RELATION"
    sem = {}
    # is_near_eq
    f = prog.fn("block_size::is_near_eq")
    ctx.visit(f)
    e = Sym(f).local(0)
    ok = match(e, ("bin", "Eq", ("param", "lhs"), ("param", "rhs")))
    ctx.ob(RR, "is_near_eq(lhs,rhs) iff lhs - rhs == 0", ok, show(e), f.loc())
    # is_near_lt
    f = prog.fn("block_size::is_near_lt")
    ctx.visit(f)
    e = strip(Sym(f).local(0))
    ok = False
    if e[0] == "bin" and e[1] == "Eq":
        df = _diff_form(e[2])
        c = const_value(e[3])
        if df and c is not None:
            c = signed(c, strip(e[3])[3])
            # coef_a*lhs + coef_b*rhs + k == c
            ok = (df[0], df[1]) == (-1, 1) and c - df[2] == 1 or (df[0], df[1]) == (1, -1) and c - df[2] == -1
    ctx.ob(RR, "is_near_lt(lhs,rhs) iff rhs - lhs == 1", ok, show(e), f.loc())
    # is_near_gt = is_near_lt with swapped arguments (or the mirrored constraint)
    f = prog.fn("block_size::is_near_gt")
    ctx.visit(f)
    e = strip(Sym(f).local(0))
    ok = match(e, ("call", "block_size::is_near_lt", [("param", "rhs"), ("param", "lhs")]))
    if not ok and e[0] == "bin" and e[1] == "Eq":
        df = _diff_form(e[2])
        c = const_value(e[3])
        if df and c is not None:
            c = signed(c, strip(e[3])[3])
            ok = (df[0], df[1]) == (1, -1) and c - df[2] == 1 or (df[0], df[1]) == (-1, 1) and c - df[2] == -1
    ctx.ob(RR, "is_near_gt(lhs,rhs) iff lhs - rhs == 1", ok, show(e), f.loc())
    # is_near: (lhs - rhs + 1) as u32 <= 2   (operands are widened u8, so wrapping is exact for d in -255..255)
    f = prog.fn("block_size::is_near")
    ctx.visit(f)
    e = strip(Sym(f).local(0))
    ok = False
    if e[0] == "bin" and e[1] in ("Le", "Lt"):
        df = _diff_form(e[2])
        c = const_value(e[3])
        if df and c is not None and abs(df[0]) == 1 and df[0] == -df[1]:
            hi = c if e[1] == "Le" else c - 1
            # 0 <= s*d + k <= hi  (as unsigned)  ->  d in [-k, hi-k] for s=+1
            lo_d, hi_d = -df[2], hi - df[2]
            if df[0] == -1:
                lo_d, hi_d = -hi_d, -lo_d
            ok = (lo_d, hi_d) == (-1, 1)
    ctx.ob(RR, "is_near(lhs,rhs) iff lhs - rhs in {-1,0,1}", ok, show(e), f.loc())
    # compare_sizes: switch on (lhs - rhs)
    f = prog.fn("block_size::compare_sizes")
    ctx.visit(f)
    sy = Sym(f)
    adt = prog.adt("block::BlockSizeRelation")
    variants = [v["name"] for v in adt["variants"]]
    ctx.ob(RR, "BlockSizeRelation has exactly the variants Far, NearLt, NearEq, NearGt", sorted(variants) == ["Far", "NearEq", "NearGt", "NearLt"], str(variants))
    got = {}
    def assigns_ret(b):
        return any(s["s"] == "assign" and s["lhs"]["l"] == 0 for s in f.blocks[b]["stmts"])
    sw = [i for i in f.live if f.blocks[i]["term"]["t"] == "switch" and len(set(f.lsuccs(i))) >= 2 and all(assigns_ret(x) for x in f.lsuccs(i))]
    ok = len(sw) == 1
    why = "%d switches" % len(sw)
    if ok:
        t = f.blocks[sw[0]]["term"]
        de = strip(sy.operand(t["on"]))
        df = _diff_form(de)
        ty = f.locals[t["on"]["pl"]["l"]]["ty"] if not t["on"]["pl"]["p"] else "i32"
        ok = df is not None and (df[0], df[1], df[2]) == (1, -1, 0)
        why = "switch on %s" % show(de)

        def variant_of(b):
            for s in f.blocks[b]["stmts"]:
                if s["s"] == "assign" and s["lhs"]["l"] == 0:
                    e = sy.rvalue(s["rv"])
                    if e[0] == "agg":
                        return e[1].split("::")[-1]
            return None
        for v, tgt in t["arms"]:
            got[signed(int(v), ty)] = variant_of(tgt)
        got["else"] = variant_of(t["otherwise"])
        ok = ok and got == {-1: "NearLt", 0: "NearEq", 1: "NearGt", "else": "Far"}
        why += " arms %s" % got
    ctx.ob(RR, "compare_sizes(lhs,rhs): d=-1 NearLt, d=0 NearEq, d=+1 NearGt, otherwise Far (d = lhs - rhs)", ok, why, f.loc())


def log_conversions(ctx, prog):
    RD = "SA-DELEGATE"
    ctx.rule(RD, "a public form obtains its result only from the named single implementation (resolved call graph), so a property shown for that implementation holds for every form")
    f = prog.fn("block_size::from_log")
    ctx.visit(f)
    e = strip(Sym(f).local(0))
    ok = False
    why = show(e)
    if e[0] == "call" and e[1].endswith("bool>::then"):
        c0 = strip(e[2][0])
        ok = match(c0, ("call", "block_size::is_log_valid", [("param", "log_block_size")]))
        cl = prog.closures_of(f)
        ok = ok and len(cl) == 1
        if ok:
            ce = strip(Sym(cl[0]).local(0))
            ok = ce[0] == "call" and ce[1].endswith("block_size::from_log_internal")
            why += " ; closure: " + show(ce)
    if not ok:
        # the same function spelled with if/else: Some(from_log_internal(x)) exactly under is_log_valid(x), None otherwise
        from ..sym import path_conds, bool_atom
        sy = Sym(f)
        some, none, other = [], [], []
        for i, j, s in f.stmts():
            if s["s"] == "assign" and s["lhs"]["l"] == 0 and not s["lhs"]["p"]:
                v = strip(sy.rvalue(s["rv"]))
                ats = [bool_atom(c) for c in path_conds(f, sy, i)]
                g = [a[2] for a in ats if a and a[0] == "truth" and match(strip(a[1]), ("call", "block_size::is_log_valid", [("param", "log_block_size")]))]
                if v[0] == "agg" and v[1].endswith("Option::Some") and strip(v[2][0])[0] == "call" and strip(v[2][0])[1].endswith("block_size::from_log_internal") and \
                        match(strip(strip(v[2][0])[2][0]), ("param", "log_block_size")) and g == [True]:
                    some.append(i)
                elif v[0] == "agg" and v[1].endswith("Option::None") and g == [False]:
                    none.append(i)
                else:
                    other.append(show(v)[:60])
        ok = len(some) == 1 and len(none) == 1 and not other
        why += " ; if/else form: Some at bb%s, None at bb%s, other %s" % (some, none, other)
    ctx.ob(RD, "from_log(x) = is_log_valid(x).then(|| from_log_internal(x))", ok, why, f.loc())
    g = prog.fn("block_size::from_log_internal")
    ctx.visit(g)
    e = strip(Sym(g).local(0))
    ctx.ob(RD, "from_log_internal(x) = from_log_internal_const(x)", match(e, ("call", "block_size::from_log_internal_const", [("param", "log_block_size")])), show(e), g.loc())
    h = prog.fn("block_size::from_log_internal_const")
    e = Sym(h).local(0)
    ctx.ob(R, "from_log_internal_const(n) = MIN(3) << n", match(e, ("bin", "Shl", ("named", "block_size::MIN", 3), ("param", "log_block_size"))), show(e), h.loc())
    # log_from_valid: live assert!(is_valid(bs)) then the table lookup
    k = prog.fn("block_size::log_from_valid")
    ctx.visit(k)
    sy = Sym(k)
    ok = False
    why = ""
    for i, t in k.calls():
        if t["dest"]["l"] == 0 and callee_of(t).endswith("block_size::log_from_valid_internal"):
            conds = G.path_conds(k, sy, i)
            ats = G.atoms(conds)
            ok = any(a[0] == "truth" and a[2] is True and match(a[1], ("call", "block_size::is_valid", [("param", "block_size")])) for a in ats)
            why = "; ".join(G.show_atom(a) for a in ats)
    ctx.ob(R, "log_from_valid(bs): the table lookup is reached only when is_valid(bs) (release-live assert)", ok, why or "lookup call not found", k.loc())
    # FuzzyHashData::block_size() / dual go through from_log_internal(self.log_blocksize)
    n = 0
    for f2 in prog.fns_matching(r"(FuzzyHashData|FuzzyHashDualData)::<[^>]*>::block_size$"):
        ctx.visit(f2)
        n += 1
        e = strip(Sym(f2).local(0))
        ok = e[0] == "call" and e[1].endswith("block_size::from_log_internal") and canon(strip(e[2][0])).endswith(".log_blocksize")
        ctx.ob(RD, "%s = from_log_internal(self.log_blocksize)" % f2.short, ok, show(e), f2.loc())
    ctx.floor(RD, n, 2, "block_size() accessors")


def score_cap(ctx, prog):
    f = prog.fn("FuzzyHashCompareTarget::score_cap_on_block_hash_comparison")
    ctx.visit(f)
    sy = Sym(f)
    hundred = G.blocks_assigning_ret(f, sy, lambda e: e[0] == "const" and e[1] == 100)
    border = lambda e: is_param(e, "log_block_size")
    c = prog.const("FuzzyHashCompareTarget::LOG_BLOCK_SIZE_CAPPING_BORDER")
    b = int(c["v"])
    ctx.ob("SA-DATA", "LOG_BLOCK_SIZE_CAPPING_BORDER == 4 == ceil(log2(ceil(100/7)))", b == 4, "value %d" % b)
    G.check_exact(ctx, R, "score_cap_on_block_hash_comparison returns 100 iff log_block_size in [BORDER, 255]", f, sy, hundred,
                  [("log_block_size >= BORDER", G.iv_spec(border, (b, 255), maxv=255))])
    ok = False
    why = ""
    for i, t in f.calls():
        if t["dest"]["l"] == 0:
            e = sy.call(t)
            why = show(e)
            ok = match(e, ("call", "FuzzyHashCompareTarget::score_cap_on_block_hash_comparison_internal",
                           [("param", "log_block_size"), ("param", "len_block_hash_lhs"), ("param", "len_block_hash_rhs")]))
    ctx.ob(R, "below the border the cap is score_cap_on_block_hash_comparison_internal(log, l1, l2)", ok, why, f.loc())
    g = prog.fn("FuzzyHashCompareTarget::score_cap_on_block_hash_comparison_internal")
    ctx.visit(g)
    e = Sym(g).local(0)
    ok = match(e, ("bin", "Mul", ("bin", "Shl", ("v", 1), ("param", "log_block_size")),
                   ("call", "Ord::min", [("param", "len_block_hash_lhs"), ("param", "len_block_hash_rhs")], "comm")))
    ctx.ob("SA-FORMULA", "score cap formula is (1 << log_block_size) * min(l1, l2)", ok, show(e), g.loc())


def raw_score(ctx, prog):
    ctx.rule("SA-FORMULA", "the returned expression tree (single-assignment temporaries expanded, casts ignored, commutative operands unordered) equals the documented formula; floor divisions make the tree canonical")
    g = prog.fn("FuzzyHashCompareTarget::raw_score_by_edit_distance_internal")
    ctx.visit(g)
    e = Sym(g).local(0)
    FULL = ("named", "block_hash::FULL_SIZE", 64)
    pat = ("bin", "Sub", ("v", 100),
           ("bin", "Div", ("bin", "Mul", ("v", 100),
                           ("bin", "Div", ("bin", "Mul", ("param", "edit_distance"), FULL),
                            ("bin", "Add", ("param", "len_block_hash_lhs"), ("param", "len_block_hash_rhs")))), FULL))
    ctx.ob("SA-FORMULA", "raw score formula is 100 - (100 * ((d * 64) / (l1 + l2))) / 64", match(e, pat), show(e), g.loc())
    # the checked public form asserts its domain with release-live asserts, then delegates
    f = prog.fn("FuzzyHashCompareTarget::raw_score_by_edit_distance")
    ctx.visit(f)
    sy = Sym(f)
    ok = False
    why = ""
    for i, t in f.calls():
        if t["dest"]["l"] == 0 and callee_of(t).endswith("raw_score_by_edit_distance_internal"):
            ats = G.atoms(G.path_conds(f, sy, i))
            why = "; ".join(G.show_atom(a) for a in ats)
            MIN = ("named", "block_hash::MIN_LCS_FOR_COMPARISON", 7)
            need = [
                ("bin", "Ge", ("param", "len_block_hash_lhs"), MIN), ("bin", "Ge", ("param", "len_block_hash_rhs"), MIN),
                ("bin", "Le", ("param", "len_block_hash_lhs"), FULL), ("bin", "Le", ("param", "len_block_hash_rhs"), FULL),
                ("bin", "Le", ("param", "edit_distance"), ("bin", "Sub", ("bin", "Add", ("param", "len_block_hash_lhs"), ("param", "len_block_hash_rhs")), ("bin", "Mul", ("v", 2), MIN))),
            ]
            found = 0
            for p in need:
                for a in ats:
                    if a[0] in ("Ge", "Le", "Lt", "Gt") and match(("bin", a[0], a[1], a[2]), p):
                        found += 1
                        break
            ok = found == len(need)
    ctx.ob(R, "raw_score_by_edit_distance: the formula is reached only inside its documented domain (7<=l<=64, d<=l1+l2-14), enforced by release-live asserts", ok, why, f.loc())
