"""In-memory view of a fact file: functions, CFG helpers, printing, def-use."""
import collections
import json
import os
import re
import sys

sys.setrecursionlimit(20000)


class AnchorError(Exception):
    """An anchor (function, constant, type) the rule needs is missing or ambiguous."""


def pl(p):
    s = "_%d" % p["l"]
    for e in p["p"]:
        if e == "*":
            s = "(*%s)" % s
        elif "f" in e:
            s += "." + e["n"]
        elif "ix" in e:
            s += "[_%d]" % e["ix"]
        elif "cix" in e:
            s += "[%s%d]" % ("-" if e["fe"] else "", e["cix"])
        elif "sub" in e:
            s += "[%d..%s%d]" % (e["sub"][0], "-" if e["fe"] else "", e["sub"][1])
        elif "dc" in e:
            s = "(%s as %s)" % (s, e["dc"])
        else:
            s += "?%s" % e
    return s


def op(o):
    if o is None:
        return "None"
    if o["k"] in ("copy", "move"):
        return pl(o["pl"])
    if o["k"] == "const":
        if o.get("def"):
            return "const " + o["def"]
        if o.get("fn"):
            return "const fn " + o["fn"]
        if o.get("tyconst"):
            return "const " + o["tyconst"]
        return "const " + o["txt"]
    return o.get("txt", "?")


def rv(r):
    k = r["r"]
    if k == "use":
        return op(r["a"])
    if k == "ref":
        return ("&mut " if r["mut"] else "&") + pl(r["pl"])
    if k == "bin":
        return "%s(%s, %s)" % (r["op"], op(r["a"]), op(r["b"]))
    if k == "un":
        return "%s(%s)" % (r["op"], op(r["a"]))
    if k == "cast":
        return "%s as %s [%s]" % (op(r["a"]), r["to"], r["kind"])
    if k == "agg":
        kd = r["kind"]
        nm = kd.get("adt") or kd.get("agg")
        return "%s::%s{%s}" % (nm, kd.get("variant", ""), ", ".join(op(x) for x in r["ops"]))
    if k == "discr":
        return "discr(%s)" % pl(r["pl"])
    if k == "repeat":
        return "[%s; %s]" % (op(r["a"]), r["n"])
    if k == "rawptr":
        return "&raw " + pl(r["pl"])
    return r.get("txt", str(r))[:120]


def succs(t):
    k = t["t"]
    if k == "goto":
        return [t["to"]]
    if k == "switch":
        return [a[1] for a in t["arms"]] + [t["otherwise"]]
    if k in ("call", "assert", "drop"):
        return [t["to"]] if t["to"] is not None else []
    return []


# free-function spellings of the same std operation are read as the method spelling the rules are written against
_CALLEE_ALIASES = {
    "core::cmp::min": "core::cmp::Ord::min",
    "core::cmp::max": "core::cmp::Ord::max",
}


def callee_of(t):
    c = t["resolved"] or t["callee"]
    return _CALLEE_ALIASES.get(c, c)


def is_panic_call(t):
    if t["t"] != "call":
        return False
    c = callee_of(t)
    return c.startswith("core::panicking::") or c.startswith("std::rt::begin_panic") or \
        c.startswith("core::slice::index::slice_index_fail") or c.startswith("core::option::unwrap_failed") or \
        c.startswith("core::result::unwrap_failed") or c.startswith("core::option::expect_failed")


def const_val(o):
    """integer value of a constant operand (by value), else None"""
    if o and o["k"] == "const" and "v" in o:
        return int(o["v"])
    return None


def is_local(o, l=None):
    return o["k"] in ("copy", "move") and not o["pl"]["p"] and (l is None or o["pl"]["l"] == l)


_REF_PARAMS = None


class Fn:
    def __init__(self, prog, d):
        self.prog = prog
        self.d = d
        self.path = d["path"]
        self.blocks = d["blocks"]
        self.locals = d["locals"]
        self.argc = d["argc"]
        self.exported = d["exported"]
        self.reachable = d["reachable"]
        self.unsafe = d["unsafe"]
        self.kind = d["kind"]
        self.impl_trait = d["impl_trait"]
        self.impl_self = d["impl_self"]
        self.derived = d["derived"]
        self.file = d["span"]["file"]
        self.line = d["span"]["line"]
        self._live = None
        self._preds = None
        self._defs = None
        self._dom = None

    def __repr__(self):
        return "<Fn %s>" % self.path

    @property
    def short(self):
        return self.path.replace("internals::", "")

    def loc(self, sp=None):
        sp = sp or self.d["span"]
        return "%s:%d" % (sp.get("cs_file") or sp["file"], sp.get("cs_line") or sp["line"])

    # ---- constant-branch pruning -------------------------------------------------
    def pruned_succs(self, i):
        b = self.blocks[i]
        t = b["term"]
        if t["t"] == "switch" and is_local(t["on"]):
            l = t["on"]["pl"]["l"]
            for s in reversed(b["stmts"]):
                if s["s"] == "assign" and s["lhs"]["l"] == l and not s["lhs"]["p"]:
                    r = s["rv"]
                    if r["r"] == "use" and r["a"]["k"] == "const" and "v" in r["a"] \
                            and "def" not in r["a"] and "tyconst" not in r["a"]:
                        v = r["a"]["v"]
                        for a in t["arms"]:
                            if a[0] == v:
                                return [a[1]]
                        return [t["otherwise"]]
                    break
        if t["t"] == "assert":
            # overflow/bounds asserts: keep normal edge only (unwind edges dropped)
            return [t["to"]]
        return succs(t)

    @property
    def live(self):
        """blocks reachable from entry under constant-branch pruning, without cleanup blocks"""
        if self._live is None:
            seen = set()
            st = [0]
            while st:
                n = st.pop()
                if n in seen or self.blocks[n]["cleanup"]:
                    continue
                seen.add(n)
                st += self.pruned_succs(n)
            self._live = seen
        return self._live

    def lsuccs(self, i):
        return [s for s in self.pruned_succs(i) if s in self.live]

    @property
    def preds(self):
        if self._preds is None:
            P = collections.defaultdict(list)
            for i in self.live:
                for s in self.lsuccs(i):
                    P[s].append(i)
            self._preds = P
        return self._preds

    def rpo(self):
        seen = set()
        order = []

        def dfs(n):
            seen.add(n)
            for s in self.lsuccs(n):
                if s not in seen:
                    dfs(s)
            order.append(n)
        dfs(0)
        order.reverse()
        return order

    @property
    def dom(self):
        """immediate-dominator based dominator sets (dict block -> set of dominators)"""
        if self._dom is None:
            order = self.rpo()
            allb = set(order)
            D = {n: set(allb) for n in order}
            D[0] = {0}
            ch = True
            while ch:
                ch = False
                for n in order:
                    if n == 0:
                        continue
                    ps = [p for p in self.preds[n] if p in D]
                    new = set.intersection(*[D[p] for p in ps]) if ps else set()
                    new = new | {n}
                    if new != D[n]:
                        D[n] = new
                        ch = True
            self._dom = D
        return self._dom

    def dominates(self, a, b):
        return a in self.dom.get(b, ())

    def reach_from(self, start, avoid=()):
        """blocks reachable from `start` (inclusive) in the pruned CFG, not passing through `avoid`"""
        seen = set()
        st = [start]
        while st:
            n = st.pop()
            if n in seen or n in avoid or n not in self.live:
                continue
            seen.add(n)
            st += self.lsuccs(n)
        return seen

    # ---- definitions ---------------------------------------------------------
    @property
    def defs(self):
        """local -> list of (block, idx or 'term', kind, payload) for whole-local definitions (live blocks)"""
        if self._defs is None:
            D = collections.defaultdict(list)
            for i in sorted(self.live):
                b = self.blocks[i]
                for j, s in enumerate(b["stmts"]):
                    if s["s"] == "assign" and not s["lhs"]["p"]:
                        D[s["lhs"]["l"]].append((i, j, "rv", s["rv"]))
                t = b["term"]
                if t["t"] == "call" and not t["dest"]["p"]:
                    D[t["dest"]["l"]].append((i, "term", "call", t))
            self._defs = D
        return self._defs

    @property
    def uses(self):
        """local -> list of (block, position) where it is read (position = statement index, or len(stmts) for the terminator)"""
        if getattr(self, "_uses", None) is None:
            U = collections.defaultdict(list)

            def upl(p, acc):
                acc.add(p["l"])
                for e in p["p"]:
                    if isinstance(e, dict) and "ix" in e:
                        acc.add(e["ix"])

            def uop(o, acc):
                if o and o["k"] in ("copy", "move"):
                    upl(o["pl"], acc)
            for i in sorted(self.live):
                b = self.blocks[i]
                for j, s in enumerate(b["stmts"]):
                    if s["s"] != "assign":
                        continue
                    u = set()
                    r = s["rv"]
                    k = r["r"]
                    if k in ("use", "un", "cast", "repeat"):
                        uop(r["a"], u)
                    elif k == "bin":
                        uop(r["a"], u)
                        uop(r["b"], u)
                    elif k in ("ref", "rawptr", "discr"):
                        upl(r["pl"], u)
                    elif k == "agg":
                        for o in r["ops"]:
                            uop(o, u)
                    lhs = s["lhs"]
                    if lhs["p"]:
                        upl(lhs, u)
                    for l in u:
                        U[l].append((i, j))
                t = b["term"]
                u = set()
                if t["t"] == "switch":
                    uop(t["on"], u)
                elif t["t"] == "call":
                    for a in t["args"]:
                        uop(a, u)
                    if t.get("fop"):
                        uop(t["fop"], u)
                    if t["dest"]["p"]:
                        upl(t["dest"], u)
                elif t["t"] == "assert":
                    uop(t["cond"], u)
                    for v in t["msg"].values():
                        if isinstance(v, dict):
                            uop(v, u)
                elif t["t"] == "drop":
                    upl(t["pl"], u)
                for l in u:
                    U[l].append((i, len(b["stmts"])))
            self._uses = U
        return self._uses

    def pos_reach(self, src, dst, avoid):
        """can execution go from just after position `src` to position `dst` without executing position `avoid`?
        positions are (block, index); a call's definition takes effect at the terminator (index = len(stmts))"""
        sb, si = src
        db, di = dst
        ab, ai = avoid
        if sb == db and di > si and not (ab == sb and si < ai < di):
            return True
        if ab == sb and ai > si:
            return False
        seen = set()
        st = list(self.lsuccs(sb))
        while st:
            n = st.pop()
            if n in seen or n not in self.live:
                continue
            seen.add(n)
            if n == db and not (ab == n and ai < di):
                return True
            if n == ab:
                continue
            st += self.lsuccs(n)
        return False

    def single_def(self, l):
        ds = self.defs.get(l, [])
        return ds[0] if len(ds) == 1 else None

    def calls(self, live_only=True):
        for i, b in enumerate(self.blocks):
            if b["cleanup"] or (live_only and i not in self.live):
                continue
            t = b["term"]
            if t["t"] == "call":
                yield i, t

    def stmts(self, live_only=True):
        for i, b in enumerate(self.blocks):
            if b["cleanup"] or (live_only and i not in self.live):
                continue
            for j, s in enumerate(b["stmts"]):
                yield i, j, s

    def return_blocks(self):
        return [i for i in self.live if self.blocks[i]["term"]["t"] == "return"]

    def show(self, out=sys.stdout, live_only=True):
        print("FN", self.path, "argc", self.argc, file=out)
        for i, l in enumerate(self.locals):
            if l["name"] or i <= self.argc:
                print("   _%d: %s  %s" % (i, l["ty"], l["name"]), file=out)
        for i, b in enumerate(self.blocks):
            if b["cleanup"] or (live_only and i not in self.live):
                continue
            print(" bb%d:" % i, file=out)
            for s in b["stmts"]:
                if s["s"] == "assign":
                    m = s["sp"]["macros"]
                    print("    %s = %s%s" % (pl(s["lhs"]), rv(s["rv"]), ("   #" + ",".join(m)) if m else ""), file=out)
                else:
                    print("   ", {k: v for k, v in s.items() if k != "sp"}, file=out)
            t = b["term"]
            if t["t"] == "call":
                m = t["sp"]["macros"]
                print("    %s = CALL %s(%s) -> bb%s %s" % (pl(t["dest"]), callee_of(t), ", ".join(op(a) for a in t["args"]), t["to"], ("#" + ",".join(m)) if m else ""), file=out)
            elif t["t"] == "switch":
                print("    SWITCH %s %s else bb%d" % (op(t["on"]), t["arms"], t["otherwise"]), file=out)
            elif t["t"] == "assert":
                msg = {k: (op(v) if isinstance(v, dict) else v) for k, v in t["msg"].items()}
                print("    ASSERT %s==%s %s -> bb%d #%s" % (op(t["cond"]), t["expected"], msg, t["to"], ",".join(t["sp"]["macros"])), file=out)
            elif t["t"] == "drop":
                print("    DROP %s -> bb%d" % (pl(t["pl"]), t["to"]), file=out)
            elif t["t"] == "goto":
                print("    GOTO bb%d" % t["to"], file=out)
            else:
                print("    %s" % t["t"], file=out)


class Program:
    def __init__(self, cfg, d):
        self.cfg = cfg
        self.raw = d
        from . import inline, loopidiom, rename, constinline
        self.renamed = rename.run(d)
        self.const_expanded = constinline.run(d)
        self.inlined = inline.run(d)
        self.loop_idioms = loopidiom.run(d)
        from . import exits
        self.exits_threaded = exits.run(d, cfg)
        self.fns = [Fn(self, f) for f in d["fns"]]
        self.by_path = {}
        for f in self.fns:
            self.by_path.setdefault(f.path, []).append(f)
        self.param_renames = []
        self._canon_params()
        from . import orient
        self.reoriented = orient.run(self)
        self.adts = {a["path"]: a for a in d["adts"]}
        self.consts = {}
        for c in d["consts"]:
            self.consts.setdefault(c["path"], c)
        self.impls = d["impls"]
        self.sigs = {}
        for s in d["sigs"]:
            self.sigs.setdefault(s["path"], s)

    def _canon_params(self):
        """A parameter is identified by its position (that is how callers pass it); its name is a label.  The rules
        refer to parameters by the names they have on the reviewed tree (sa/ref_params.json: path -> [names]); when a
        body's parameter at the same position carries another name, the reviewed name is used and the renaming is
        recorded in the evidence.  A changed parameter count leaves the names alone (the rules then fail closed)."""
        global _REF_PARAMS
        if _REF_PARAMS is None:
            try:
                with open(os.path.join(os.path.dirname(os.path.abspath(__file__)), "ref_params.json")) as fh:
                    _REF_PARAMS = json.load(fh)
            except OSError:
                _REF_PARAMS = {}
        for path, fs in self.by_path.items():
            ref = _REF_PARAMS.get(path)
            if not ref or len(ref) != len(fs):
                continue
            for f, names in zip(fs, ref):
                if len(names) != f.argc:
                    continue
                for k, want in enumerate(names, start=1):
                    have = f.locals[k]["name"]
                    if want and have and have != want:
                        f.locals[k]["name"] = want
                        self.param_renames.append("%s: parameter %d `%s` is read as `%s`" % (path, k, have, want))

    def fn(self, suffix, optional=False):
        """unique function whose path ends with `suffix` (at a `::` boundary)"""
        r = [f for f in self.fns if f.path == suffix or f.path.endswith("::" + suffix)]
        if len(r) != 1:
            if optional and not r:
                return None
            raise AnchorError("anchor function %r: %d matches in config %s %s" % (
                suffix, len(r), self.cfg, [x.path for x in r][:6]))
        return r[0]

    def fns_matching(self, regex):
        rx = re.compile(regex)
        return [f for f in self.fns if rx.search(f.path)]

    def get(self, path):
        r = self.by_path.get(path)
        return r[0] if r else None

    def const(self, suffix):
        if suffix in self.consts:
            return self.consts[suffix]
        r = [c for p, c in self.consts.items() if p == suffix or p.endswith("::" + suffix)]
        if len(r) != 1:
            raise AnchorError("anchor constant %r: %d matches in config %s" % (suffix, len(r), self.cfg))
        return r[0]

    def adt(self, suffix):
        r = [a for p, a in self.adts.items() if p == suffix or p.endswith("::" + suffix)]
        if len(r) != 1:
            raise AnchorError("anchor type %r: %d matches in config %s" % (suffix, len(r), self.cfg))
        return r[0]

    def closures_of(self, f):
        pre = f.path + "::{closure"
        return [g for g in self.fns if g.path.startswith(pre)]

    def callees(self, f):
        out = []
        for _, t in f.calls():
            c = callee_of(t)
            g = self.get(c)
            if g:
                out.append(g)
        return out

    def closure(self, entries, follow_closures=True):
        """call-graph closure (crate-local bodies) from the entry functions"""
        seen = {}
        st = list(entries)
        while st:
            f = st.pop()
            if f.path in seen:
                continue
            seen[f.path] = f
            for _, t in f.calls():
                for c in (t["resolved"], t["callee"]):
                    g = self.get(c) if c else None
                    if g and g.path not in seen:
                        st.append(g)
            if follow_closures:
                st += self.closures_of(f)
        return list(seen.values())


def bytes_of(c):
    return bytes.fromhex(c["bytes"]) if "bytes" in c else None
