"""SA-SUMMARY: branch-free functions keep the value they had on the reviewed tree.

About a third of the crate's bodies are accessors, thin delegators and constructors without a single branch: their whole meaning is
one resolved def-use expression (plus, for a few, a list of stores / `&mut` hand-offs).  That normal form - temporaries inlined,
callees resolved, parameters by position, user locals numbered by first appearance - is recorded for the reviewed tree in
sa/ref_summaries.json and compared on every run.  It is not a text match: renaming, re-ordering of independent statements,
explaining variables and inlined helpers leave it unchanged; returning another field, swapping two arguments of a delegated call,
dropping a store or adding a branch changes it.  Functions that gain a branch are reported as `no longer branch-free`."""
import json
import os
import re

R = "SA-SUMMARY"
# formatting glue (argument order of `write!` is syntax, not behaviour) is left to the dedicated rules
EXCLUDE = re.compile(r"::fmt$|FromStr>::from_str$")
_REF = None


def straight(f):
    from .features import debug_regions
    region = debug_regions(f)
    for i in f.live:
        t = f.blocks[i]["term"]
        if t["t"] == "switch" and len(set(f.lsuccs(i))) > 1:
            # debug-only assertion plumbing is not a branch of the function (SA-BELIEF reads those)
            if i in region or _belief_edge(f, i):
                continue
            return False
    # no loops
    try:
        order = f.rpo()
        pos = {b: k for k, b in enumerate(order)}
        for b in order:
            for s in f.lsuccs(b):
                if pos.get(s, 1 << 30) <= pos[b]:
                    return False
    except Exception:
        return False
    return True


def _split_top(txt):
    """split `a,b,c` at commas outside any bracket"""
    out, depth, cur = [], 0, []
    for ch in txt:
        if ch in "([{<":
            depth += 1
        elif ch in ")]}>":
            depth -= 1
        if ch == "," and depth == 0:
            out.append("".join(cur))
            cur = []
        else:
            cur.append(ch)
    out.append("".join(cur))
    return out


def _unchecked_ops(txt):
    """`(AddWithOverflow(a,b)).0` (the checked addition of a debug build) is `Add(a,b)`"""
    for op in ("Add", "Sub", "Mul"):
        key = "(%sWithOverflow(" % op
        i = txt.find(key)
        while i >= 0:
            depth, j = 0, i + len(key) - 1
            while j < len(txt):
                if txt[j] in "([{<":
                    depth += 1
                elif txt[j] in ")]}>":
                    depth -= 1
                    if depth == 0:
                        break
                j += 1
            if txt[j + 1:j + 4] == ").0":
                txt = txt[:i] + "%s(%s)" % (op, txt[i + len(key):j]) + txt[j + 4:]
                i = txt.find(key, i)
            else:
                i = txt.find(key, i + 1)
    return txt


def _rewrite_nodes(txt, name, fn):
    """apply fn(args) -> replacement text (or None) to every `name(a,b)` node, innermost first"""
    key = name + "("
    i = txt.find(key)
    while i >= 0:
        if i == 0 or not (txt[i - 1].isalnum() or txt[i - 1] == "_"):
            depth, j = 0, i + len(name)
            while j < len(txt):
                if txt[j] in "([{<":
                    depth += 1
                elif txt[j] in ")]}>":
                    depth -= 1
                    if depth == 0:
                        break
                j += 1
            args = [_rewrite_nodes(a, name, fn) for a in _split_top(txt[i + len(key):j])]
            rep = fn(args)
            if rep is None:
                rep = "%s(%s)" % (name, ",".join(args))
            txt = txt[:i] + rep + txt[j + 1:]
            i = txt.find(key, i + len(rep))
            continue
        i = txt.find(key, i + len(key))
    return txt


def norm_arith(txt):
    """constants by value, constant sub-expressions folded, powers of two in one spelling (`x >> k` = `x / 2^k`, `x << k` = `x * 2^k`,
    `x & (2^k - 1)` = `x % 2^k`), `..n` as `0..n`"""
    txt = re.sub(r"(?<![\w>])[A-Za-z_][\w:]*=(\d+)", r"\1", txt)
    txt = txt.replace("core::ops::RangeTo::RangeTo{", "core::ops::Range::Range{0,")
    for _ in range(4):
        new = re.sub(r"\b(Add|Sub|Mul|Shl|Shr)\((\d+),(\d+)\)", lambda m: str({"Add": lambda a, b: a + b, "Sub": lambda a, b: a - b, "Mul": lambda a, b: a * b,
                                                                                    "Shl": lambda a, b: a << b, "Shr": lambda a, b: a >> b}[m.group(1)](int(m.group(2)), int(m.group(3))))
                     if not (m.group(1) == "Sub" and int(m.group(2)) < int(m.group(3))) and not (m.group(1) in ("Shl", "Shr") and int(m.group(3)) > 63) else m.group(0), txt)
        new = re.sub(r"\((\d+) as \w+\)", r"\1", new)
        if new == txt:
            break
        txt = new

    def shr(a):
        return "Div(%s,%d)" % (a[0], 1 << int(a[1])) if len(a) == 2 and re.fullmatch(r"\d+", a[1]) and int(a[1]) < 64 else None

    def shl(a):
        return "Mul(%s,%d)" % (a[0], 1 << int(a[1])) if len(a) == 2 and re.fullmatch(r"\d+", a[1]) and int(a[1]) < 64 and not re.fullmatch(r"\d+", a[0]) else None

    def band(a):
        if len(a) != 2:
            return None
        for x, m in ((a[0], a[1]), (a[1], a[0])):
            if re.fullmatch(r"\d+", m) and int(m) > 0 and (int(m) & (int(m) + 1)) == 0 and not re.fullmatch(r"\d+", x):
                return "Rem(%s,%d)" % (x, int(m) + 1)
        return None
    txt = _rewrite_nodes(txt, "Shr", shr)
    txt = _rewrite_nodes(txt, "Shl", shl)
    txt = _rewrite_nodes(txt, "BitAnd", band)
    # operand order is form: the operands of a commutative operator are sorted, `a > b` is `b < a`, `a >= b` is `b <= a`
    txt = _rewrite_nodes(txt, "Gt", lambda a: "Lt(%s,%s)" % (a[1], a[0]) if len(a) == 2 else None)
    txt = _rewrite_nodes(txt, "Ge", lambda a: "Le(%s,%s)" % (a[1], a[0]) if len(a) == 2 else None)
    for _ in range(5):
        before = txt
        # (`min` / `max` of a total order agree with their mirrored call up to `==`; all uses here are on primitive integers)
        for op in ("BitOr", "BitAnd", "BitXor", "Mul", "Eq", "Ne", "core::cmp::Ord::min", "core::cmp::Ord::max", "core::cmp::min", "core::cmp::max"):
            txt = _rewrite_nodes(txt, op, lambda a, op=op: "%s(%s)" % (op, ",".join(sorted(a))) if len(a) == 2 else None)
        if txt == before:
            break
    return txt


def norm_sums(txt):
    """sums of several terms are written flat, terms sorted, literal terms folded: `Add(Add(a,1),Add(b,1))` = `Sum(2,a,b)` (additions of
    small unsigned quantities: the association is form)"""
    i = txt.find("Add(")
    while i >= 0:
        if i == 0 or not (txt[i - 1].isalnum() or txt[i - 1] == "_"):
            depth, j = 0, i + 3
            while j < len(txt):
                if txt[j] in "([{<":
                    depth += 1
                elif txt[j] in ")]}>":
                    depth -= 1
                    if depth == 0:
                        break
                j += 1
            inner = txt[i + 4:j]
            args = _split_top(inner)
            if len(args) == 2:
                terms = []
                for a in args:
                    a = norm_sums(a)
                    if a.startswith("Sum(") and a.endswith(")"):
                        terms += _split_top(a[4:-1])
                    else:
                        terms.append(a)
                lit = sum(int(t) for t in terms if re.fullmatch(r"\d+", t))
                rest = sorted(t for t in terms if not re.fullmatch(r"\d+", t))
                rep = "Sum(%s)" % ",".join(([str(lit)] if lit else []) + rest)
                txt = txt[:i] + rep + txt[j + 1:]
                i = txt.find("Add(", i + len(rep))
                continue
        i = txt.find("Add(", i + 4)
    return txt


def _copy_types(prog):
    ts = getattr(prog, "_copy_types", None)
    if ts is None:
        ts = {re.sub(r"<.*$", "", i["self"]) for i in prog.impls if i["trait"] == "core::marker::Copy"}
        prog._copy_types = ts
    return ts


def summary(f):
    from .features import effect_canon
    lines = effect_canon(f, cells=True)
    # `x.clone()` / `Clone::clone(&x)` of a `Copy` type is the copy `*x`
    cts = _copy_types(f.prog)

    def unclone(m):
        ty = re.sub(r"<.*$", "", m.group(1))
        return m.group(2) if ty in cts else m.group(0)
    lines = [re.sub(r"<((?:[^<>()]|<[^<>()]*>)*) as core::clone::Clone>::clone\(([^()]*)\)", unclone, l) for l in lines]
    # whole-variable assignments are not effects: a variable assigned once is replaced by its value wherever it is used
    # (`CALL~` = the kept result of a call that receives no `&mut`: a value, like a store of an expression)
    stores = {}
    for l in lines:
        m = re.match(r"^(?:STORE|CALL~) (local:\w+) = (.*)$", l)
        if m:
            stores.setdefault(m.group(1), []).append(m.group(2))
    single = {k: v[0] for k, v in stores.items() if len(v) == 1 and k != "local:ret"}
    out = []
    for l in lines:
        m = re.match(r"^(?:STORE|CALL~) (local:\w+) = ", l)
        if m and m.group(1) in single:
            continue
        out.append(l)
    for _ in range(4):
        changed = False
        for k, v in single.items():
            rx = re.compile(re.escape(k) + r"(?!\w)")
            new_out = [rx.sub(lambda _m: "(%s)" % v, l) for l in out]
            if new_out != out:
                out, changed = new_out, True
        if not changed:
            break
    lines = out
    names = {}

    def L(m):
        k = m.group(1)
        if k not in names:
            names[k] = "v%d" % len(names)
        return "local:" + names[k]
    lines = [norm_sums(norm_arith(_unchecked_ops(l))) for l in lines]
    # a whole array field set to one value: `f = [v; N]` and `f.fill(v)` are the same store
    lines = [re.sub(r"^STORE (param:[\w.]+) = \[(.*);\w+\]$", r"CALL core::slice::<impl [T]>::fill(\1,\2)", l) for l in lines]
    # the kept result of a pure call is a value like any other
    lines = [re.sub(r"^CALL~ (local:\w+) = ", r"STORE \1 = ", l) for l in lines]
    # the whole of an array as a slice: `&a[..]` and the unsizing coercion `a as &[T]` are the same view
    lines = [re.sub(r"core::(?:array|slice)::[^()]*?::index(?:_mut)?\(([^(),]*),core::ops::RangeFull::RangeFull\{\}\)", r"\1", l) for l in lines]
    lines = [re.sub(r"\(([^()]+) as &(?:mut )?\[\w+\]\)", r"\1", l) for l in lines]
    return [re.sub(r"local:(\w+)", L, l) for l in lines]


def ref():
    global _REF
    if _REF is None:
        try:
            with open(os.path.join(os.path.dirname(os.path.dirname(os.path.abspath(__file__))), "ref_summaries.json")) as fh:
                _REF = json.load(fh)
        except OSError:
            _REF = {}
    return _REF


def const_normal(prog, f, depth=0):
    """value of a generic constant's initialiser as a polynomial-like normal form over the const parameters: references to other
    constants (evaluated or generic) are expanded, sums are collected.  `A + S1 + S2 + 2` and `OTHER::MAX` are the same thing when
    OTHER::MAX is that sum.  None when the initialiser is not of this arithmetic kind (then the plain normal form is compared)."""
    from ..sym import Sym, strip

    def lin(e, d):
        e = strip(e)
        if d > 8:
            return None
        if e[0] == "const":
            if isinstance(e[1], int):
                return {(): e[1]}
            name = e[2] or ""
            gs = prog.by_path.get(name)
            if gs and len(gs) == 1 and "Const" in (gs[0].kind or ""):
                return lin(Sym(gs[0]).local(0), d + 1)
            return {(name,): 1}
        if e[0] == "cast":
            return lin(e[1], d + 1)
        if e[0] == "bin" and e[1] in ("Add", "Sub"):
            a, b = lin(e[2], d + 1), lin(e[3], d + 1)
            if a is None or b is None:
                return None
            out = dict(a)
            for k, v in b.items():
                out[k] = out.get(k, 0) + (v if e[1] == "Add" else -v)
            return {k: v for k, v in out.items() if v != 0 or k == ()}
        if e[0] == "bin" and e[1] == "Mul":
            a, b = lin(e[2], d + 1), lin(e[3], d + 1)
            if a is None or b is None:
                return None
            out = {}
            for ka, va in a.items():
                for kb, vb in b.items():
                    k = tuple(sorted(ka + kb))
                    out[k] = out.get(k, 0) + va * vb
            return out
        return None

    def show(l):
        return " + ".join("%s%s" % (("%d" % v) if not k else ("" if v == 1 else "%d*" % v), "*".join(k)) for k, v in sorted(l.items()) if v != 0 or not k) or "0"
    e = strip(Sym(f).local(0))
    if e[0] == "const" and e[1] is None and depth < 6:
        gs = prog.by_path.get(e[2] or "")
        if gs and len(gs) == 1 and "Const" in (gs[0].kind or ""):
            return const_normal(prog, gs[0], depth + 1)
    if e[0] == "bin" and e[1] in ("Eq", "Ne", "Lt", "Le", "Gt", "Ge"):
        a, b = lin(e[2], 0), lin(e[3], 0)
        if a is None or b is None:
            return None
        return "%s(%s, %s)" % (e[1], show(a), show(b))
    l = lin(e, 0)
    return show(l) if l is not None else None


def check_consts(ctx, prog, floor=10):
    """generic constants (associated constants over const parameters: MAX_LEN_IN_STR, MAX_BLOCK_HASH_SIZE_n, IS_LONG_FORM, ...) cannot
    be evaluated without instantiating them; the driver dumps their initialisers as bodies, and those expressions are the reviewed ones"""
    paths = sorted(p for p, fs in prog.by_path.items() if len(fs) == 1 and "Const" in (fs[0].kind or ""))
    if not paths:
        return ctx.floor(R, 0, floor, "initialisers of generic constants")
    return check(ctx, prog, "^(" + "|".join(re.escape(p) for p in paths) + ")$", floor=floor, what="initialisers of generic constants")


def check(ctx, prog, scope, floor=1, what="branch-free bodies in scope"):
    ctx.rule(R, "branch-free bodies (accessors, delegators, constructors) have the normal form - returned expression, stores, `&mut` hand-offs, with resolved callees and positional parameters - recorded for the reviewed tree")
    rx = re.compile(scope)
    refs = ref()
    n = 0
    for path, fs in sorted(prog.by_path.items()):
        if not rx.search(path) or len(fs) != 1:
            continue
        key = "%s|%s" % (path, "*")
        ent = refs.get(path, {})
        want = ent.get(prog.cfg)
        if want is None and "*" in ent and prog.cfg in ent.get("in", []):
            want = ent["*"]
        if want is None:
            continue
        f = fs[0]
        n += 1
        if (prog.cfg, f.path) in ctx.vouched:
            continue   # a dedicated rule of this check already determines what this body computes: the normal form adds nothing there
        if EXCLUDE.search(path):
            continue
        if not straight(f) and _three_way(prog, f, want):
            ctx.visit(f)
            ctx.generic_visits.add((prog.cfg, f.path))
            ctx.ob(R, "%s is branch-free and has its reviewed value" % f.short, True,
                   "written as a three-way chain over the two operands of the reviewed integer `cmp` (Less exactly under <, Equal under ==, Greater under >)", f.loc())
            continue
        if not straight(f):
            # the body changed form (a loop or a branch appeared): nothing to compare the normal form with.  Whether that is an alarm
            # depends on whether a dedicated rule of this check reads the body - decided when the check finishes.
            ctx.deferred.append((R, "%s is branch-free and has its reviewed value" % f.short, "no longer branch-free, and no other rule of this check reads the body", f.loc(), prog.cfg, (prog.cfg, f.path)))
            continue
        if (prog.cfg, f.path) not in ctx.vouched:
            ctx.generic_visits.add((prog.cfg, f.path))
        ctx.visit(f)
        if "Const" in (f.kind or ""):
            cn = const_normal(prog, f)
            want_cn = ent.get("const_normal")
            if cn is not None and want_cn is not None:
                ctx.ob(R, "%s is branch-free and has its reviewed value" % f.short, cn == want_cn, "value over the const parameters: %s%s" % (cn, "" if cn == want_cn else " (reviewed: %s)" % want_cn), f.loc())
                continue
        got = summary(f)
        # values are def-use expressions, so the ORDER of independent effects carries no information: compare as multisets
        ok = sorted(got) == sorted(want)
        why = "%d effect line(s)" % len(got)
        if not ok:
            for k, (a, b) in enumerate(zip(sorted(got), sorted(want))):
                if a != b:
                    why = "line %d: `%s` (reviewed: `%s`)" % (k, a[:140], b[:140])
                    break
            else:
                why = "%d lines, reviewed %d: %s" % (len(got), len(want), (got[len(want):] or want[len(got):])[:2])
        ctx.ob(R, "%s is branch-free and has its reviewed value" % f.short, ok, why, f.loc())
    ctx.floor(R, n, floor, what)


_INT_CMP = re.compile(r"^STORE local:v0 = core::cmp::impls::<impl core::cmp::Ord for (?:u8|u16|u32|u64|u128|usize|i8|i16|i32|i64|i128|isize)>::cmp\((.*)\)$")


def _three_way(prog, f, want):
    """the reviewed body is `a.cmp(&b)` on integers and the new one answers Less / Equal / Greater on paths whose conditions are
    comparisons of a and b only: decided over the three orderings of (a, b) - no value is enumerated"""
    if len(want) != 2 or "RET" not in want:
        return False
    m = _INT_CMP.match([w for w in want if w != "RET"][0])
    if not m:
        return False
    ab = _split_top(m.group(1))
    if len(ab) != 2:
        return False
    a, b = ab
    try:
        ps = path_summary(prog, f)
    except Exception:
        return False
    if not ps or len(ps) < 3:
        return False
    holds = {"Lt": {"lt"}, "Le": {"lt", "eq"}, "Eq": {"eq"}, "Ne": {"lt", "gt"}, "Ge": {"gt", "eq"}, "Gt": {"gt"}}
    flip = {"lt": "gt", "gt": "lt", "eq": "eq"}
    table = {"Less": set(), "Equal": set(), "Greater": set()}
    for ln in ps:
        res, _, conds = ln.partition(" <= ")
        mm = re.match(r"^core::cmp::Ordering::(Less|Equal|Greater)\{\}$", res)
        if not mm:
            return False
        live = {"lt", "eq", "gt"}
        for at in [c for c in conds.split(" & ") if c]:
            am = re.match(r"^(Lt|Le|Eq|Ne|Ge|Gt)\((.*)\)$", at)
            if not am:
                return False
            xy = _split_top(am.group(2))
            if len(xy) != 2:
                return False
            if xy == [a, b]:
                live &= holds[am.group(1)]
            elif xy == [b, a]:
                live &= {flip[o] for o in holds[am.group(1)]}
            else:
                return False
        table[mm.group(1)] |= live
    return table == {"Less": {"lt"}, "Equal": {"eq"}, "Greater": {"gt"}}


# ---- path summaries: loop-free, store-free bodies with a few result sites ------------------------------------------------------------

def loop_free(f):
    try:
        order = f.rpo()
        pos = {b: k for k, b in enumerate(order)}
        for b in order:
            for s in f.lsuccs(b):
                if pos.get(s, 1 << 30) <= pos[b]:
                    return False
    except Exception:
        return False
    return True


def _variants(prog, ty):
    """number of variants of the enum a discriminant is read from (None when unknown)"""
    ty = ty.lstrip("&").strip()
    base = ty.split("<")[0]
    a = prog.adts.get(base)
    if a is None:
        cands = [v for k, v in prog.adts.items() if k.endswith("::" + base.split("::")[-1])]
        a = cands[0] if len(cands) == 1 else None
    if a is None:
        if base.startswith("core::option::Option"):
            return 2
        if base.startswith("core::result::Result"):
            return 2
        return None
    return len(a.get("variants", [])) or None


def _subst_local(e, l, val):
    if not isinstance(e, tuple) or not e or not isinstance(e[0], str):
        return e
    if e[0] == "local" and e[1] == l:
        return val
    return tuple(_subst_local(y, l, val) if isinstance(y, tuple) and y and isinstance(y[0], str) else
                 (tuple(_subst_local(z, l, val) if isinstance(z, tuple) else z for z in y) if isinstance(y, tuple) else y) for y in e)


def _norm_result(v):
    """canonical text of a result; a comparison (possibly under `!`) is written in one way"""
    from ..sym import strip, canon
    v = strip(v)
    neg = False
    while v[0] == "un" and v[1] == "Not":
        v = strip(v[2])
        neg = not neg
    if v[0] == "bin" and v[1] in ("Lt", "Le", "Gt", "Ge", "Eq", "Ne"):
        op, a, b = v[1], canon(strip(v[2])), canon(strip(v[3]))
        if neg:
            op = {"Lt": "Ge", "Le": "Gt", "Gt": "Le", "Ge": "Lt", "Eq": "Ne", "Ne": "Eq"}[op]
        if op in ("Gt", "Ge"):
            op, a, b = {"Gt": "Lt", "Ge": "Le"}[op], b, a
        elif op in ("Eq", "Ne") and b < a:
            a, b = b, a
        return "%s(%s,%s)" % (op, a, b)
    t = canon(v)
    return "Not(%s)" % t if neg else t


def _belief_edge(f, sb):
    """the branch in block sb is a debug_assert!/invariant! test (its other arm panics under one of those macros)"""
    from ..mir import is_panic_call
    for b in f.lsuccs(sb):
        t = f.blocks[b]["term"]
        if is_panic_call(t) and any(m in ("debug_assert", "invariant", "debug_assert_eq", "debug_assert_ne") for m in t["sp"].get("macros", [])):
            return True
    return False


def path_summary(prog, f):
    """sorted list of (conditions, result) for every site that assigns the return place; None when the body stores to memory, hands
    out `&mut`, or has too many sites"""
    from ..sym import Sym, strip, canon, path_conds, bool_atom, walk
    from ..mir import callee_of, is_panic_call
    from .features import debug_regions
    sy = Sym(f)
    region = debug_regions(f)
    for i, j, s in f.stmts():
        if s["s"] == "assign" and s["lhs"]["p"] and i not in region:
            return None
    for i, t in f.calls():
        if i in region or is_panic_call(t):
            continue
        if any(a["k"] in ("copy", "move") and a["pl"]["ty"].startswith(("&mut", "*mut")) for a in t["args"]):
            return None
    names = {}

    def ren(txt):
        def L(m):
            k = m.group(0)
            if k not in names:
                names[k] = "local:v%d" % len(names)
            return names[k]
        return re.sub(r"local:\w+", L, txt)
    sites = []
    res = []
    for i, j, s in f.stmts():
        if s["s"] == "assign" and s["lhs"]["l"] == 0 and not s["lhs"]["p"] and i not in region:
            res.append((i, strip(sy.rvalue(s["rv"]))))
    for i, t in f.calls():
        if t["dest"]["l"] == 0 and not t["dest"]["p"] and i not in region:
            res.append((i, strip(sy.call(t, i))))
    if not res or len(res) > 8:
        return None
    # a result read from a local assigned on several arms (`let r = match ..`, `matches!`) is split per assignment
    res2 = []
    for blk, v in res:
        phis = sorted({x[1] for x in walk(v) if x[0] == "local" and len(f.defs.get(x[1], [])) > 1})
        if len(phis) == 1 and len(f.defs[phis[0]]) <= 6:
            l = phis[0]
            alts = []
            for d in f.defs[l]:
                bi = d[0]
                if bi in region or bi not in f.live:
                    continue
                val = None
                if d[1] == "term":
                    t = f.blocks[bi]["term"]
                    if t.get("t") == "call" and t["dest"]["l"] == l and not t["dest"]["p"]:
                        val = strip(sy.call(t, bi))
                else:
                    s = f.blocks[bi]["stmts"][d[1]]
                    if s["s"] == "assign" and s["lhs"]["l"] == l and not s["lhs"]["p"]:
                        val = strip(sy.rvalue(s["rv"]))
                if val is None:
                    alts = None
                    break
                alts.append((bi, val))
            if alts:
                for bi, val in alts:
                    res2.append(((blk, bi), _subst_local(v, l, val)))
                continue
        res2.append(((blk,), v))
    for blks, v in sorted(res2, key=lambda z: z[0]):
        conds = []
        pcs = []
        for b in blks:
            pcs += path_conds(f, sy, b)
        for c in pcs:
            if len(c) > 3 and _belief_edge(f, c[3][0]):
                continue
            e = strip(c[0])
            a0 = bool_atom(c) if e[0] == "discr" else None
            if e[0] == "discr" and not (a0 is not None and a0[0] != "truth"):
                # as the set of admitted variants, so that `matches!`, `if let` and an exhaustive `match` read alike
                ty = None
                inner = strip(e[1])
                vals = sorted(c[2])
                n = None
                if inner[0] in ("param", "local"):
                    n = _variants(prog, f.locals[inner[1]]["ty"])
                elif inner[0] == "deref" and strip(inner[1])[0] in ("param", "local"):
                    n = _variants(prog, f.locals[strip(inner[1])[1]]["ty"])
                if c[1] == "notin" and n is not None:
                    vals = [k for k in range(n) if k not in vals]
                    op = "in"
                else:
                    op = c[1]
                conds.append("discr(%s) %s %s" % (canon(inner), op, vals))
                continue
            a = bool_atom(c)
            if a is None:
                conds.append("%s %s %s" % (canon(e), c[1], sorted(c[2])))
            elif a[0] == "truth":
                x0 = strip(a[1])
                if x0[0] == "local" and len(f.defs.get(x0[1], [])) > 1:
                    # a boolean temporary of a short-circuit / inlined predicate: when exactly one of its definitions can give the wanted
                    # value, path_conds has already added that definition's own conditions - the temporary itself says nothing more
                    prod = 0
                    for (_b, _i, k_, x_) in f.defs[x0[1]]:
                        if k_ == "rv":
                            v_ = sy.rvalue(x_)
                            if v_[0] == "const" and v_[1] in (0, 1) and v_[2] is None:
                                prod += 1 if bool(v_[1]) == a[2] else 0
                            else:
                                prod += 1
                        else:
                            prod += 1
                    if prod == 1:
                        continue
                tt, tv = canon(strip(a[1])), a[2]
                # `x != y` through the trait method is `!(x == y)`
                m = re.match(r"^(.*PartialEq[^(]*)::ne(?:::<[^()]*>)?\((.*)$", tt)
                if m and strip(a[1])[0] == "call":
                    tt, tv = "%s::eq(%s" % (m.group(1), m.group(2)), not tv
                conds.append("%s is %s" % (tt, tv))
            else:
                x, y = canon(strip(a[1])), canon(strip(a[2]))
                op = a[0]
                if op in ("Gt", "Ge"):
                    op, x, y = {"Gt": "Lt", "Ge": "Le"}[op], y, x
                elif op in ("Eq", "Ne") and y < x:
                    x, y = y, x
                conds.append("%s(%s,%s)" % (op, x, y))
        rv = _norm_result(v)
        rv = {"Not(0)": "1", "Not(1)": "0"}.get(rv, rv)
        if rv == "0" and f.locals[0]["ty"] == "bool":
            # a predicate is determined by where it is not `false`: the constant-false sites are the complement of the others, and how
            # they are split over early returns / `&&` chains is a matter of form
            continue
        sites.append((sorted(set(conds)), rv))
    # merge sites with equal results whose condition sets differ in one discriminant only is left to the comparison (sets of pairs)
    # `==` / `!=` go through `PartialEq`, as an impl method (`<T as PartialEq>::eq`), the trait's provided `ne`, or the array impl: one name
    def peq(txt):
        return re.sub(r"(?:<[^()]*? as core::cmp::PartialEq(?:<[^()]*?>)?>|core::cmp::PartialEq|core::array::equality::<impl core::cmp::PartialEq<[^()]*?> for [^()]*?>|core::cmp::impls::<impl core::cmp::PartialEq<[^()]*?> for [^()]*?>)::(eq|ne)(?:::<[^()]*>)?\(", r"PartialEq::\1(", txt)
    def nrm(t):
        return norm_sums(norm_arith(_unchecked_ops(t)))
    out = sorted({"%s <= %s" % (ren(nrm(peq(r))), ren(" & ".join(sorted(nrm(peq(c)) for c in cs)))) for cs, r in sites})
    return out


_REF_PATHS = None
R2 = "SA-PATHSUM"


def check_paths(ctx, prog, scope, floor=1):
    """loop-free, effect-free bodies with branches: the set of (conditions -> result) pairs is the reviewed one"""
    global _REF_PATHS
    if _REF_PATHS is None:
        try:
            with open(os.path.join(os.path.dirname(os.path.dirname(os.path.abspath(__file__))), "ref_paths.json")) as fh:
                _REF_PATHS = json.load(fh)
        except OSError:
            _REF_PATHS = {}
    ctx.rule(R2, "loop-free, effect-free bodies with branches (predicates, classifiers, small selectors): the set of (conditions -> result) pairs - conditions as normalised comparison atoms and admitted enum variants - is the one recorded for the reviewed tree")
    rx = re.compile(scope)
    n = 0
    for path, fs in sorted(prog.by_path.items()):
        if not rx.search(path) or len(fs) != 1 or EXCLUDE.search(path):
            continue
        ent = _REF_PATHS.get(path, {})
        want = ent.get(prog.cfg)
        if want is None and "*" in ent and prog.cfg in ent.get("in", []):
            want = ent["*"]
        if want is None:
            continue
        f = fs[0]
        n += 1
        if (prog.cfg, f.path) in ctx.vouched:
            continue
        got = path_summary(prog, f) if loop_free(f) else None
        if got is None:
            ctx.deferred.append((R2, "%s keeps its reviewed (conditions -> result) table" % f.short, "no longer a loop-free, effect-free body, and no other rule of this check reads it", f.loc(), prog.cfg, (prog.cfg, f.path)))
            continue
        if (prog.cfg, f.path) not in ctx.vouched:
            ctx.generic_visits.add((prog.cfg, f.path))
        ctx.visit(f)
        ok = got == want
        why = "%d result site(s)" % len(got)
        if not ok:
            d = [g for g in got if g not in want][:2] or [w for w in want if w not in got][:2]
            why = "differs: %s" % [x[:160] for x in d]
        ctx.ob(R2, "%s keeps its reviewed (conditions -> result) table" % f.short, ok, why, f.loc())
    ctx.floor(R2, n, floor, "branching effect-free bodies in scope")
