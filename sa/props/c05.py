"""C05 — formatter contract (structural clauses; the round trip parse(format(x)) == x is not decided)."""
from ..rules import text, data, fields, eqord, parser, features, vis, summary, beliefs, normal

EXPL = ("Decides: store_into_bytes refuses exactly when buffer.len() < len_in_str() and no store to the buffer lies on that path; it "
        "returns Ok(len_in_str()); to_string allocates exactly len_in_str() bytes and fills them with that one formatter, Display "
        "slices its MAX_LEN_IN_STR buffer by the formatter's own Ok payload, String::from = to_string - so all forms produce the same "
        "text of the advertised length; len_in_str() = BLOCK_SIZES_STR[log].len()+len1+len2+2 and the writer copies the same table "
        "entry; MAX_LEN_IN_STR = 10+64+64+2; every byte stored into the buffer is b':', BASE64_TABLE_U8[..] or a BLOCK_SIZES_STR entry "
        "(all ASCII, SA-DATA), hence from_utf8().unwrap() cannot fire and from_utf8_unchecked (unsafe feature) is sound; alphabet and "
        "reverse table are exact inverses; on the parse side of the round trip the stored symbol is the reverse-table value under "
        "the not-INVALID guard, the two parse calls fill (blockhashK, len_blockhashK) with capacity SK, and the strict parser's "
        "look-ahead reads the byte at the consumed-input position exactly when its bounded iterator ran dry; the block hash text is written from (blockhashK, len_blockhashK) with like indices. NOT "
        "decided: parse(format(x)) == x as a value statement.")


def run(ctx):
    cfgs = ["rel", "strict", "unsafe", "dbg"] if ctx.tier == "quick" else ["rel", "strict", "dbg", "unsafe", "nodef", "alloc"]
    ctx.progs(cfgs)  # build all configurations in parallel
    for c in cfgs:
        prog = ctx.prog(c)
        ctx.guard("C05", "guard", lambda: text.store_guard(ctx, prog))
        ctx.guard("C05", "len", lambda: text.len_formula(ctx, prog))
        ctx.guard("C05", "layout", lambda: text.layout(ctx, prog))
        ctx.guard("C05", "ascii", lambda: text.ascii_only(ctx, prog))
        ctx.guard("C05", "one", lambda: text.one_formatter(ctx, prog))
        ctx.guard("C05", "tables", lambda: data.base64_tables(ctx, prog))
        ctx.guard("C05", "sizes", lambda: data.block_size_tables(ctx, prog))
        ctx.guard("C05", "consts", lambda: data.len_constants(ctx, prog))
        # parse side of the round trip (structural clauses shared with C04)
        ctx.guard("C05", "parse-store", lambda: parser.symbol_store(ctx, prog))
        ctx.guard("C05", "parse-phase", lambda: parser.error_origin_by_phase(ctx, prog))
        ctx.guard("C05", "parse-look", lambda: parser.strict_lookahead(ctx, prog))
        ctx.guard("C05", "parse-forms", lambda: parser.entry_forms(ctx, prog))
        if c == "dbg":
            # nothing the formatter / parser does is hidden inside a debug-only assertion (it would vanish in release builds)
            ctx.guard("C05", "assert-pure", lambda: features.assertions_pure(ctx, prog))
        if c == "unsafe":
            # every belief (invariant!) inside the formatter / parser helpers is backed by a run-time check of the safe build: a belief
            # that is not (e.g. a bound on the CALLER's buffer) panics in debug builds and is undefined behaviour under `unsafe`
            ctx.guard("C05", "invpair", lambda: features.invpair(ctx, prog, scope=r"hash::algorithms::|::store_into_bytes|::to_string|core::fmt::Display>::fmt|::len_in_str|::from_bytes|::from_str", floors=(8, 6)))
        ctx.guard("C05", "parse-bs", lambda: parser.block_size_field(ctx, prog))
        ctx.guard("C05", "parse-end", lambda: parser.end_classification(ctx, prog))
        ctx.guard("C05", "parse-out", lambda: parser.driver_outcomes(ctx, prog))
        ctx.guard("C05", "parse-cap", lambda: parser.capacity_after_collapse(ctx, prog))
        ctx.guard("C05", "traits", lambda: vis.trait_census(ctx, prog, scope='core::fmt::Display for internals::hash|core::str::FromStr|for alloc::string::String'))
        ctx.guard("C05", "sym", lambda: eqord.len_index_symmetry(ctx, prog, scope=r"(store_into_bytes|insert_block_hash_into_bytes|len_in_str|::to_string|core::fmt::Display)", floor=2))
        ctx.guard("C05", "const values", lambda: data.const_census(ctx, prog, data.CONST_SCOPES["C05"], floor=1))
        ctx.guard("C05", "panic conditions", lambda: beliefs.live_census(ctx, prog, beliefs.SCOPES["C05"][0]))
        ctx.guard("C05", "parser-init", lambda: parser.initial_values(ctx, prog))
        ctx.guard("C05", "run-counters", lambda: normal.run_counters(ctx, prog, ("parser",)))
        ctx.guard("C05", "summaries", lambda: summary.check(ctx, prog, '::to_string|alloc::string::String>::from|::len_in_str|core::fmt::Display', floor=1))
        ctx.guard("C05", "generic consts", lambda: summary.check_consts(ctx, prog, floor=13))
        ctx.guard("C05", "path summaries", lambda: summary.check_paths(ctx, prog, '::to_string|alloc::string::String>::from|::len_in_str|core::fmt::Display', floor=0))
        if c in ("dbg", "unsafe_dbg", "strict_dbg"):
            ctx.guard("C05", "beliefs", lambda: beliefs.census(ctx, prog, beliefs.SCOPES["C05"][0], floor=beliefs.SCOPES["C05"][1]))
    return ctx.finish(EXPL, ["core::str::from_utf8 accepts all-ASCII input", "alloc::vec::from_elem(0, n) yields n bytes"])
