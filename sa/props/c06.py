"""C06 — normalisation: one routine on every route, freed tail cleared, run limit agreed by all implementations."""
from ..rules import tail, convert, normal, fields, eqord, casts, parser, features, summary, beliefs, data

EXPL = ("Decides: SA-TAIL: the in-place normaliser stores the new length and clears [new length, previous length) (value-equal start "
        "by linear normal form; the previous length is read before any store), the dual compressor clears from the stored length to the "
        "end; SA-DELEGATE: normalize / normalize_in_place / clone_normalized / From<raw> / from_raw_form all reach the one in-place "
        "routine unconditionally for both block hashes with capacities S1,S2 and the source's own NORM flag; SA-SIBLING: the three "
        "independent run-collapsers (in-place, parser branch, dual compressor) and the checker compare a 0/+1 counter against the same "
        "named constant MAX_SEQUENCE_SIZE (=3) as `counter >= MAX` right after the increment; is_normalized inspects both block hashes "
        "with like indices. NOT decided: that exactly the right characters survive; idempotence as a value statement.")


def run(ctx):
    cfgs = ["rel", "unchecked"] if ctx.tier == "quick" else ["rel", "dbg", "strict", "unsafe", "nodef", "unchecked"]
    ctx.progs(cfgs)  # build all configurations in parallel
    for c in cfgs:
        prog = ctx.prog(c)
        ctx.guard("C06", "tail", lambda: tail.normalize_in_place(ctx, prog))
        ctx.guard("C06", "tail2", lambda: tail.compress_expand(ctx, prog))
        ctx.guard("C06", "funnel", lambda: convert.normaliser_funnel(ctx, prog))
        ctx.guard("C06", "traits", lambda: convert.trait_forms(ctx, prog))
        ctx.guard("C06", "limit", lambda: normal.run_limit_agreement(ctx, prog))
        ctx.guard("C06", "isnorm", lambda: normal.is_normalized_both(ctx, prog))
        ctx.guard("C06", "complete", lambda: fields.dest_complete(ctx, prog, scope=r"hash_dual::FuzzyHashDualData|FuzzyHashData::<[^>]*>::(normalize|clone_normalized|from_raw_form)", floor=1))
        ctx.guard("C06", "capacity", lambda: parser.capacity_after_collapse(ctx, prog))
        if c == "unchecked":
            ctx.guard("C06", "twins", lambda: features.twins(ctx, prog, scope='FuzzyHashData::<[^>]*>::(new|init)_from_internals|FuzzyHashDualData', floor=2))
        ctx.guard("C06", "casts", lambda: casts.census(ctx, prog, scope='hash::algorithms::normalize_|FuzzyHashData.*::normaliz', floor=1))
        ctx.guard("C06", "writers", lambda: tail.classify_writers(ctx, prog, scope=r"(normalize|from_raw_form|init_from_raw_form|hash_dual::algorithms::compress|core::convert::From<internals::hash::FuzzyHashData<S1, S2, false>>)", floor=3))
        ctx.guard("C06", "const values", lambda: data.const_census(ctx, prog, data.CONST_SCOPES["C06"], floor=1))
        ctx.guard("C06", "panic conditions", lambda: beliefs.live_census(ctx, prog, beliefs.SCOPES["C06"][0]))
        ctx.guard("C06", "validator-outcomes", lambda: normal.validator_outcomes(ctx, prog))
        ctx.guard("C06", "parser-init", lambda: parser.initial_values(ctx, prog))
        ctx.guard("C06", "run-counters", lambda: normal.run_counters(ctx, prog, ("validator", "parser")))
        ctx.guard("C06", "normalize-step", lambda: normal.normalize_step(ctx, prog))
        ctx.guard("C06", "run-reports", lambda: parser.run_reports(ctx, prog))
        ctx.guard("C06", "summaries", lambda: summary.check(ctx, prog, '::normalize|::is_normalized|::clone_normalized|verify_block_hash', floor=2))
        ctx.guard("C06", "path summaries", lambda: summary.check_paths(ctx, prog, '::normalize|::is_normalized|::clone_normalized|verify_block_hash', floor=2))
        if c in ("dbg", "unsafe_dbg", "strict_dbg"):
            ctx.guard("C06", "beliefs", lambda: beliefs.census(ctx, prog, beliefs.SCOPES["C06"][0], floor=beliefs.SCOPES["C06"][1]))
    return ctx.finish(EXPL, ["slice::fill has its documented meaning"])
