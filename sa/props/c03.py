"""C03 — the hash depends only on the byte stream, not on how it is fed (structural half)."""
from ..rules import engine, errflow, generator as gen, witness, vis, summary, beliefs, data

EXPL = ("Decides: SA-SIBLING: the per-byte regions of update / update_by_iter / update_by_byte (from the rolling-hash update of the "
        "current byte to the back edge) canonicalise to identical MIR, in release, debug and unsafe builds, and each form iterates its "
        "whole input feeding every yielded byte to the step exactly once; SA-LOOPSTATE: nothing but the iterator (and, under `unsafe`, "
        "the two pointer caches, tied to their fields by SA-MIRROR) is carried across iterations, so all per-byte state is in *self and "
        "the state after any call sequence is a fold of one step function over the concatenated bytes; SA-ACCOUNT: the processed size "
        "is added once up front (slice), once per item before the step (iterator), once (byte); `+=` forms forward to these; "
        "SA-PURE: finalisers take &self, the state types have no interior mutability and nothing in their closure writes through a "
        "shared reference, Clone is derived - finalising or cloning cannot disturb later updates; hash_buf declares buffer.len(), "
        "feeds the same slice once and finalises the same generator; the reader loop feeds exactly buffer[0..len] of each read "
        "(SA-ERRFLOW); SA-FIELDS: a size declaration records exactly Some(size) and the fork limit min(NUM_VALID-1, index(size)+1) - the one "
        "limit that never withholds a context the final block-size guess for that size can select, so declaring (as hash_buf/hash_file do) cannot change the hash. NOT decided: that up-front vs per-byte size accounting cannot change an elimination decision (monotonicity "
        "argument over sizes) and the step function itself.")


def run(ctx):
    cfgs = ["rel", "unsafe"] if ctx.tier == "quick" else ["rel", "dbg", "unsafe", "unsafe_dbg", "fnv", "nodef"]
    ctx.progs(cfgs)  # build all configurations in parallel
    for c in cfgs:
        prog = ctx.prog(c)
        ctx.guard("C03", "siblings", lambda: engine.siblings(ctx, prog))
        ctx.guard("C03", "loopstate", lambda: engine.loop_state(ctx, prog))
        ctx.guard("C03", "account", lambda: engine.accounting(ctx, prog))
        ctx.guard("C03", "outside", lambda: engine.outside_loop_writes(ctx, prog))
        ctx.guard("C03", "pure", lambda: engine.finalize_pure(ctx, prog))
        ctx.guard("C03", "writers", lambda: gen.field_writers(ctx, prog))
        ctx.guard("C03", "addassign", lambda: engine.add_assign_forms(ctx, prog))
        ctx.guard("C03", "delegate", lambda: gen.finalizers_delegate(ctx, prog))
        ctx.guard("C03", "declared", lambda: gen.ok_effects_set_fixed(ctx, prog))
        ctx.guard("C03", "traits", lambda: vis.trait_census(ctx, prog, scope='for internals::generate::Generator$'))
        if c.startswith("unsafe"):
            ctx.guard("C03", "mirror", lambda: engine.mirror(ctx, prog))
            ctx.guard("C03", "cursor", lambda: engine.pointer_cursor(ctx, prog))
            base = ctx.prog("dbg" if c.endswith("_dbg") else "rel")
            ctx.guard("C03", "enginemap", lambda: engine.engine_correspondence(ctx, base, prog))
        if c != "nodef":
            ctx.guard("C03", "buf", lambda: errflow.buf(ctx, prog))
            ctx.guard("C03", "stream", lambda: errflow.stream_common(ctx, prog))
        ctx.guard("C03", "const values", lambda: data.const_census(ctx, prog, data.CONST_SCOPES["C03"], floor=1))
        ctx.guard("C03", "panic conditions", lambda: beliefs.live_census(ctx, prog, beliefs.SCOPES["C03"][0]))
        ctx.guard("C03", "summaries", lambda: summary.check(ctx, prog, 'Generator::(input_size|new)$|<internals::generate::Generator as core::(default::Default|ops::AddAssign)|generate_easy', floor=2))
        ctx.guard("C03", "path summaries", lambda: summary.check_paths(ctx, prog, 'Generator::(input_size|new)$|<internals::generate::Generator as core::(default::Default|ops::AddAssign)|generate_easy', floor=0))
        if c in ("dbg", "unsafe_dbg", "strict_dbg"):
            ctx.guard("C03", "beliefs", lambda: beliefs.census(ctx, prog, beliefs.SCOPES["C03"][0], floor=beliefs.SCOPES["C03"][1]))
    if ctx.tier == "thorough":
        ctx.cfg = "witness"
        ctx.guard("C03", "witness", lambda: witness.run(ctx, "witness", ["W5"]))
    return ctx.finish(EXPL, ["iterators yield each element of their source exactly once, in order", "saturating_add has its documented meaning"])
