#!/usr/bin/env python3
"""dev helper: write the prompt for a behaviour-preserving-refactoring agent (false-alarm campaigns).
usage: tools_refac_prompt.py <root dir> <area>   -> prints the prompt; the agent works in <root>/<area> (a scratch worktree of /repo).
The avoid-list is read from the notes.json files of the corpora already stored under /verif/benign*."""
import glob, json, sys
root, area = sys.argv[1], sys.argv[2]
KINDS_FILE = sys.argv[3] if len(sys.argv) > 3 else None
W = "%s/%s" % (root, area)
FILES = {
 "gen": "ffuzzy/src/internals/generate.rs, ffuzzy/src/internals/generate/hashes/*.rs, ffuzzy/src/internals/generate_easy.rs, ffuzzy/src/internals/generate_easy_std.rs",
 "parse": "ffuzzy/src/internals/hash/algorithms.rs, ffuzzy/src/internals/hash/parser_state.rs, ffuzzy/src/internals/base64.rs and the parse/format parts of ffuzzy/src/internals/hash.rs",
 "hash": "ffuzzy/src/internals/hash.rs (everything except parse/format) and ffuzzy/src/internals/hash/block.rs",
 "dual": "ffuzzy/src/internals/hash_dual.rs",
 "cmp": "ffuzzy/src/internals/compare.rs and ffuzzy/src/internals/compare_easy.rs",
 "pos": "ffuzzy/src/internals/compare/position_array.rs, ffuzzy/src/internals/utils.rs",
}
DEFAULT_KINDS = '''This round, use these kinds (each at least once across the eight, at sites not listed below):
 * a predicate / classifier rewritten in another form: `matches!(x, A | B)` <-> exhaustive `match` <-> `if let`; an `a && b && c` chain <-> early `return false` ladder <-> nested `if`; `!matches!(..)` <-> match with swapped results;
 * a loop rewritten: iterator adaptor (`all`, `any`, `position`, `fold`, `for_each`) <-> explicit `for` loop with early exit, `for x in arr.iter()` <-> `for x in &arr` <-> `while let Some(x) = it.next()`, index loop <-> `iter().enumerate()`;
 * debug assertions: ADD a `debug_assert!` (or the crate's `invariant!` where that macro is already used in the function) that is CERTAINLY TRUE at that point because an earlier `if`/`assert!`/early return of the same function established it, or because of plain arithmetic (a masked value is at most the mask, a `u8 as usize` is below 256, ...); REWORD an existing `debug_assert!`/`invariant!` condition equivalently (`a <= b` as `!(a > b)` or `b >= a`); MOVE an existing debug assertion a few lines without crossing anything that changes its operands; REMOVE a redundant duplicate debug assertion;
 * slicing / range forms: `&a[0..n]` <-> `&a[..n]`, `a[i..i + k]` <-> `a[i..][..k]`, `copy_from_slice` <-> `clone_from_slice` for `u8`, `fill(0)` <-> explicit loop writing 0;
 * extracting a few lines INCLUDING their debug assertions into a private `#[inline]` helper, or inlining a tiny private helper (with its debug assertions) into its single caller;
 * integer conversions that cannot change the value: `x as usize` <-> `usize::from(x)` for u8/u16/u32, `u32::from(b)` <-> `b as u32`;
 * `Option`/`Result` combinators <-> `match` (`map_or`, `ok_or`, `and_then`, `?` <-> explicit match with the same `From` conversion).
'''
prev = []
for n in sorted(glob.glob("/verif/benign*/*/notes.json")):
    a = n.split("/")[-2]
    for o in json.load(open(n)):
        prev.append("- %s: %s (%s)" % (a, str(o.get("kind"))[:80], str(o.get("where"))[:90]))
KINDS = open(KINDS_FILE).read() if KINDS_FILE else DEFAULT_KINDS
print(f"""You are working in a scratch git worktree of the Rust library a4lg/ffuzzy (a pure-Rust ssdeep fuzzy hashing library; crate `ffuzzy`, lib name `ssdeep`) at {W}. Work ONLY inside {W}; never read or touch /repo, /verif or other /tmp directories. There is no network: always run cargo with `--offline` and the environment `CARGO_NET_OFFLINE=true CARGO_TARGET_DIR={W}/target`.

YOUR TASK: produce EIGHT independent BEHAVIOUR-PRESERVING refactorings of the library's non-test code in: {FILES[area]}
Each refactoring is a separate small patch (each against the clean checkout, not stacked) of the kind a maintainer commits during routine maintenance, and must leave the observable behaviour of the crate EXACTLY unchanged for every input, every call sequence, every build profile (debug and release) and every feature combination (`unsafe`, `unchecked`, `opt-reduce-fnv-table`, `strict-parser`, `--no-default-features`, `--no-default-features --features alloc,easy-functions`): same results, same errors, same panics, same public API (no renamed/added/removed public items, no changed signatures; renaming PARAMETERS and private locals is fine).
{KINDS}
An earlier round already produced the refactorings listed below; choose DIFFERENT functions / sites:
{chr(10).join(prev)}
Do NOT change algorithms, constants, error values, the order of side effects, or anything whose equivalence is not obvious by inspection; do not touch tests, Cargo files or build scripts; no new compiler warnings.
For each patch verify: `cd {W} && CARGO_NET_OFFLINE=true CARGO_TARGET_DIR={W}/target cargo test --offline -p ffuzzy --lib` passes (198 tests), and `cargo check --offline -p ffuzzy --lib` also succeeds with each of `--features unsafe`, `--features unchecked`, `--features strict-parser`, `--features opt-reduce-fnv-table`, `--no-default-features`. If the touched code is feature-gated, also run the test suite with that feature.

DELIVERABLES in {W}/OUT/ (create the directory): refactor1.diff ... refactor8.diff (`git diff` of only the library change; each must apply with `git apply` on a clean checkout), and notes.json = a list of 8 objects {{"patch": "refactorN.diff", "kind": "...", "where": "file/function", "why_equivalent": "one sentence"}}. Leave the worktree with NO change applied (git checkout -- .). Do not commit, do not use git stash. Aim to finish within about 40 minutes. In your final answer list the eight refactorings briefly.""")
