"""Check context: obligations, floors, known findings, evidence, replay files."""
import hashlib
import json
import os
import time
import traceback

from . import facts
from .mir import AnchorError

VERIF = facts.VERIF
EVID = os.environ.get("VERIF_EVIDENCE_DIR") or os.path.join(VERIF, "evidence")
KNOWN = os.path.join(VERIF, "KNOWN_FINDINGS.txt")


def load_known():
    """lines: `open: property=<id> key=<key> :: <what>` / `fixed: property=<id> <commit> <what>`"""
    open_ = {}
    fixed = []
    if os.path.exists(KNOWN):
        for ln in open(KNOWN):
            ln = ln.rstrip("\n")
            if not ln or ln.startswith("#"):
                continue
            if ln.startswith("open: "):
                body = ln[len("open: "):]
                head, _, what = body.partition(" :: ")
                parts = head.split(" ", 1)
                pid = parts[0].split("=", 1)[1]
                key = parts[1].split("=", 1)[1]
                open_[(pid, key)] = what
            elif ln.startswith("fixed: "):
                fixed.append(ln)
    return open_, fixed


class Ob:
    __slots__ = ("rule", "key", "ok", "why", "loc", "cfg", "known")

    def __init__(self, rule, key, ok, why, loc, cfg):
        self.rule, self.key, self.ok, self.why, self.loc, self.cfg = rule, key, ok, why, loc, cfg
        self.known = False

    def full_key(self):
        return "%s|%s" % (self.rule, self.key)

    def as_dict(self):
        return {"rule": self.rule, "key": self.key, "ok": self.ok, "why": self.why, "loc": self.loc, "config": self.cfg}


_DED = None


def _dedicated_elsewhere():
    """function paths that some property's check reads with a rule of its own (recorded on the reviewed tree)"""
    global _DED
    if _DED is None:
        try:
            import json as _json
            with open(os.path.join(os.path.dirname(os.path.abspath(__file__)), "ref_dedicated.json")) as fh:
                _DED = set(_json.load(fh))
        except OSError:
            _DED = set()
    return _DED


class Ctx:
    def __init__(self, pid, tier, seed=0, only_key=None):
        self.pid = pid
        self.tier = tier
        self.seed = seed
        self.obs = []
        self.cfg = None
        self.only_key = only_key
        self.t0 = time.time()
        self.notes = []
        self.rules_doc = {}
        self.analysed = {"functions": set(), "call_sites": 0, "blocks": 0}
        self.vouched = set()   # (cfg, path) read by a rule that determines what the body computes
        self.generic_visits = set()   # (cfg, path) read by the generic normal-form rules (SA-SUMMARY / SA-PATHSUM) only
        self.deferred = []   # (rule, key, why, loc, cfg, (cfg, path)): verdicts that depend on whether some other rule reads the body

    # -- loading -------------------------------------------------------------
    def prog(self, cfg):
        p = facts.load(cfg)
        self.cfg = cfg
        return p

    def progs(self, cfgs):
        return facts.load_many(cfgs)

    def visit(self, f, weak=False):
        """record a function body as analysed.  weak=True: the rule looks at one aspect of the body only (its panic edges, its casts,
        its stores on error paths, the tails it writes ...) and does not vouch for what the body computes - the generic normal-form
        rules still compare such a body, and a change of its form is still theirs to report"""
        k = (f.prog.cfg, f.path)
        if not weak:
            self.vouched.add(k)
        if k not in self.analysed["functions"]:
            self.analysed["functions"].add(k)
            self.analysed["blocks"] += len(f.live)
            self.analysed["call_sites"] += sum(1 for _ in f.calls())

    # -- obligations ---------------------------------------------------------
    def rule(self, name, doc):
        self.rules_doc[name] = doc

    def ob(self, rule, key, ok, why="", loc=None, cfg=None):
        o = Ob(rule, key, bool(ok), why, loc, cfg or self.cfg)
        self.obs.append(o)
        return o.ok

    def floor(self, rule, n, floor, what):
        self.ob("FLOOR", "%s|%s" % (rule, what), n >= floor,
                "%d instances of %s found, floor confirmed by hand is %d" % (n, what, floor))

    def guard(self, rule, key, fn):
        """run fn(); AnchorError -> a failed ANCHOR obligation (fail closed)"""
        try:
            return fn()
        except AnchorError as e:
            self.ob("ANCHOR", "%s|%s" % (rule, key), False, str(e))
        except facts.FactError:
            raise
        except Exception as e:  # analyser could not handle the shape: fail closed, diagnosable
            tb = traceback.format_exc().strip().splitlines()
            self.ob("SHAPE", "%s|%s" % (rule, key), False,
                    "analyser could not interpret the construct: %s: %s @ %s" % (type(e).__name__, e, tb[-3].strip() if len(tb) >= 3 else ""))
        return None

    # -- finish ----------------------------------------------------------------
    def finish(self, explanation, assumptions, level="other"):
        for rule, key, why, loc, cfg, fk in self.deferred:
            read = fk in self.vouched
            elsewhere = (not read) and fk[1] in _dedicated_elsewhere()
            self.ob(rule, key, read or elsewhere,
                    ("the body changed form and is read by a dedicated rule of this check" if read else
                     "the body changed form; it is read by a dedicated rule of another property's check (sa/ref_dedicated.json), which judges it" if elsewhere else why), loc, cfg)
        self.deferred = []
        known, fixed = load_known()
        viol = []
        kf = []
        seen = set()
        for o in self.obs:
            if o.ok:
                continue
            k = (self.pid, o.full_key())
            if k in known:
                o.known = True
                if k not in seen:
                    kf.append((o, known[k]))
            else:
                if self.only_key is None or self.only_key == o.full_key():
                    if (o.full_key(), o.cfg) not in seen:
                        viol.append(o)
            seen.add(k)
            seen.add((o.full_key(), o.cfg))
        # dedupe obligations by (rule,key,cfg)
        uniq = {}
        for o in self.obs:
            uniq.setdefault((o.rule, o.key, o.cfg), o)
        obs = list(uniq.values())
        n_ob = len(obs)
        n_ok = sum(1 for o in obs if o.ok)
        per_rule = {}
        for o in obs:
            r = per_rule.setdefault(o.rule, {"obligations": 0, "discharged": 0, "doc": self.rules_doc.get(o.rule, "")})
            r["obligations"] += 1
            r["discharged"] += 1 if o.ok else 0
        distinct = len({(o.rule, o.key) for o in obs})
        samples = []
        byrule = {}
        for o in obs:
            byrule.setdefault(o.rule, []).append(o)
        for r, lst in byrule.items():
            seen_k = set()
            for o in lst:
                if o.key in seen_k:
                    continue
                seen_k.add(o.key)
                samples.append(o.as_dict())
                if len(seen_k) >= 5:
                    break
        for o in obs:
            if not o.ok:
                samples.append(o.as_dict())
        os.makedirs(EVID, exist_ok=True)
        replay_paths = []
        if viol:
            os.makedirs(os.path.join(EVID, "replay"), exist_ok=True)
            for o in viol:
                h = hashlib.sha256(o.full_key().encode()).hexdigest()[:12]
                rp = os.path.join(EVID, "replay", "%s-%s.json" % (self.pid, h))
                with open(rp, "w") as f:
                    json.dump({"property": self.pid, "key": o.full_key(), "config": o.cfg, "why": o.why, "loc": o.loc}, f, indent=1)
                replay_paths.append(rp)
        ev = {
            "property_id": self.pid,
            "tier": self.tier,
            "seed": self.seed,
            "level": level,
            "coverage": {
                "explanation": explanation,
                "obligations": n_ob,
                "discharged": n_ok,
                "evaluations": n_ob,
                "distinct_nontrivial": distinct,
                "rule": "one obligation per (rule, instance key, build configuration); an instance is a construct of the type-checked program (function, call site, field, table entry, guard) selected by the rule; distinct = distinct (rule,key)",
                "samples": samples[:60],
                "per_rule": per_rule,
                "configurations": facts.BUILD_LOG,
                "functions_analysed": len(self.analysed["functions"]),
                "function_paths_analysed": sorted(set(p for (_c, p) in self.analysed["functions"])),
                "function_paths_read_by_dedicated_rules": sorted(set(p for (c_, p) in self.vouched if (c_, p) not in self.generic_visits)),
                "blocks_analysed": self.analysed["blocks"],
                "call_sites_analysed": self.analysed["call_sites"],
                "known_findings": [{"key": o.full_key(), "what": w} for o, w in kf],
                "fixed_findings": fixed,
                "checker_cmd": "./check %s --tier %s" % (self.pid, self.tier),
                "trusted_base": ["rustc nightly MIR construction and Instance resolution", "/verif/driver serialiser", "/verif/sa rule engine", "reviewed tables inside the rules (each entry carries its reason)"],
                "exhaustive": False,
                "notes": self.notes,
                "parameter_renames": sorted(set(r for pr in facts._loaded.values() for r in pr.param_renames)),
                "new_constants_read_as_their_initialiser": sorted(set("%s in %s" % ce for pr in facts._loaded.values() for ce in getattr(pr, "const_expanded", []))),
                "operand_order_read_as_reviewed": sorted(set("%s: %s" % ro for pr in facts._loaded.values() for ro in getattr(pr, "reoriented", []))),
                "new_result_variables_read_as_early_exits": sorted(set("%s: %s (%d blocks duplicated)" % et for pr in facts._loaded.values() for et in getattr(pr, "exits_threaded", []))),
                "inlined_helpers": sorted(set("%s into %s" % hc for pr in facts._loaded.values() for hc in pr.inlined)),
                "renamed_private_functions_read_under_reviewed_name": sorted(set("%s as %s" % rn for pr in facts._loaded.values() for rn in getattr(pr, "renamed", []))),
                "loop_idioms_read_as_calls": sorted(set("%s: %s x%d" % li for pr in facts._loaded.values() for li in getattr(pr, "loop_idioms", []))),
            },
            "assumptions": assumptions,
            "wall_s": round(time.time() - self.t0, 2),
            "violations": len(viol),
        }
        with open(os.path.join(EVID, "%s.json" % self.pid), "w") as f:
            json.dump(ev, f, indent=1)
        for o, w in kf:
            print("KNOWN-FINDING: property=%s %s [%s]" % (self.pid, w, o.full_key()))
        for o, rp in zip(viol, replay_paths):
            print("%s: %s: %s: %s [config %s]" % (o.loc or "-", o.rule, o.key, o.why, o.cfg))
            print("VIOLATION property=%s replay=%s" % (self.pid, rp))
        print("%s %s: %d obligations, %d discharged, %d known findings, %d violations, %.1fs" % (
            self.pid, self.tier, n_ob, n_ok, len(kf), len(viol), time.time() - self.t0))
        return 1 if viol else 0
