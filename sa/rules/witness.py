"""Type-level witnesses: compile_fail doc tests (with error codes) paired with compiling twins, run by
`cargo +nightly test --doc` against /repo.  A cross-check of driver facts (visibility, exportedness, receivers)."""
import os
import re
import subprocess
from .. import facts

R = "SA-WITNESS"


def run(ctx, crate, want):
    ctx.rule(R, "compile-fail witness: a program that violates the encapsulation/receiver rule fails to type-check with the expected error code, and its twin that differs only by the offending line compiles (so the failure is not an artefact of a wrong path)")
    d = os.path.join(facts.VERIF, crate)
    env = dict(os.environ)
    env["VERIF_REPO"] = facts.REPO
    p = subprocess.run([os.path.join(facts.VERIF, "witness", "run.sh"), d], stdout=subprocess.PIPE, stderr=subprocess.STDOUT, text=True, env=env)
    out = p.stdout
    res = {}
    for m in re.finditer(r"test src/lib\.rs - (\w+) \(line \d+\) - compile( fail)? \.\.\. (\w+)", out):
        res[(m.group(1), "fail" if m.group(2) else "twin")] = m.group(3)
    n = 0
    for w in want:
        for kind in ("fail", "twin"):
            n += 1
            r = res.get((w, kind))
            ctx.ob(R, "%s %s: %s" % (crate, w, "violating program is rejected with the expected error code" if kind == "fail" else "compiling twin type-checks"),
                   r == "ok", "doc test result: %s" % r)
    ctx.floor(R, len(res), 2 * len(want), "witness doc tests executed in %s" % crate)
