"""SA-BELIEF: debug-only beliefs (`debug_assert!`, and `invariant!` which is a `debug_assert!` when debug assertions are on) are part
of the behaviour of a debug build: a belief that is false for some in-contract input makes the debug build panic where the release
build answers.  Their truth is a statement about run-time values and is not decided here.  What is decided: the population of
beliefs is the reviewed one.  Each site of today's tree was read once (caller contracts of `_internal` bodies, object invariants of
validated types, loop bounds; the `invariant!` ones are in addition paired with run-time checks by SA-INVPAIR).  A site beyond that
population is accepted only when the analysis can discharge it:
  (a) a later run-time check of the same function fails exactly when it is false (the pairing of SA-INVPAIR),
  (b) a live (release) branch that dominates it already established the same predicate,
  (c) it repeats, on the operands handed over, a belief of a crate function it calls (hoisting a callee's belief),
  (d) it is the negation-free copy of a release-live `assert!` of the same function,
  (e) it is a comparison that holds for every value its operands can take (interval enclosure from the leaf types and operators, and
      from the ranges that dominating release-live comparisons with constants give to immutable leaves),
  (f) it is a conjunct of a crate predicate whose release-live call dominates it (`assert!(is_valid(x))` establishes `x % MIN == 0`).
Anything else is reported as an unreviewed debug-only belief.  Removing a belief never alarms."""
import json, os, re
from collections import Counter
from ..sym import Sym, strip, canon, show, path_conds, bool_atom
from ..mir import callee_of
from . import validate

R = "SA-BELIEF"
_REF = None
CONFIGS = ("dbg", "unsafe_dbg", "strict_dbg")
# property -> (functions whose beliefs are part of the behaviour the property speaks about, floor = half of the counted sites:
# removing a belief is behaviour-preserving and must not alarm; the floor only guards against a vacuous pass)
SCOPES = {
    "C01": (r"internals::generate", 12), "C03": (r"internals::generate", 12), "C12": (r"internals::generate", 12),
    "C13": (r"internals::generate", 12), "C18": (r"internals::generate", 12), "C19": (r"internals::generate::hashes", 1),
    "C02": (r"internals::compare|compare_easy|block_size::|block_hash::", 26), "C10": (r"internals::compare|compare_easy|block_size::|block_hash::", 26),
    "C17": (r"internals::compare", 20), "C20": (r"block_size::|internals::compare::FuzzyHashCompareTarget", 14),
    "C04": (r"internals::hash::|internals::hash_dual::", 46), "C05": (r"internals::hash::", 29), "C06": (r"internals::hash::|internals::hash_dual::", 46),
    "C07": (r"internals::hash_dual::|internals::hash::algorithms", 22), "C11": (r"internals::(hash|hash_dual|compare)::", 65),
    "C15": (r"internals::(hash|hash_dual)::", 46), "C16": (r"internals::(hash|hash_dual)::", 46),
}


def fn_key(path):
    """beliefs of a closure are counted with the function it is written in (a loop body moved into or out of a closure keeps its place)"""
    return re.sub(r"(::\{closure#\d+\})+$", "", path)


def _items(e, closure=False):
    """what an iteration visits, however it is spelled (`for x in a.iter()`, `while let`, `for i in 0..a.len()` with `a[i]`,
    `iter().enumerate()`): the maximal place expression (fields, derefs, indexing, variant payloads) that contains an iterator's `next()`
    becomes the one token `elem`"""
    PROJ = ("field", "deref", "index", "downcast", "ref")

    def rec(x):
        if not isinstance(x, tuple) or not x or not isinstance(x[0], str):
            return x, False
        if x[0] == "call" and re.search(r"(Iterator>?|Range<A>>|Iterator for [^:]*>)::next$", x[1]):
            return ("const", None, "elem", ""), True
        if closure and x[0] == "param" and x[1] >= 2:
            return ("const", None, "elem", ""), True
        out, hit = [], False
        for y in x:
            if isinstance(y, tuple) and y and isinstance(y[0], str):
                r, h = rec(y)
                out.append(r)
                hit = hit or h
            elif isinstance(y, tuple):
                ys = []
                for z in y:
                    if isinstance(z, tuple):
                        r, h = rec(z)
                        ys.append(r)
                        hit = hit or h
                    else:
                        ys.append(z)
                out.append(tuple(ys))
            else:
                out.append(y)
        if hit and x[0] in PROJ:
            return ("const", None, "elem", ""), True
        return tuple(out), False if x[0] not in PROJ else hit
    return rec(e)[0]


def _arith(e):
    """arithmetic with powers of two in one spelling (`x >> k` = `x / 2^k`, `x & (2^k - 1)` = `x % 2^k`, `x << k` = `x * 2^k`) and
    constants by value (`MAX_RUN_LENGTH` = 4, `MAX_RUN_LENGTH - 1` = 3)"""
    from ..sym import fold_const
    if not isinstance(e, tuple) or not e or not isinstance(e[0], str):
        return e
    v = fold_const(e) if e[0] in ("const", "bin") else None
    if v is not None:
        return ("const", v, None, "")
    if e[0] == "bin" and e[1] in ("Shr", "Shl", "BitAnd"):
        a, b = _arith(e[2]), _arith(e[3])
        cb = b[1] if b[0] == "const" and isinstance(b[1], int) else None
        ca = a[1] if a[0] == "const" and isinstance(a[1], int) else None
        if e[1] == "Shr" and cb is not None and cb < 64:
            return ("bin", "Div", a, ("const", 1 << cb, None, ""))
        if e[1] == "Shl" and cb is not None and cb < 64:
            return ("bin", "Mul", a, ("const", 1 << cb, None, ""))
        if e[1] == "BitAnd":
            if cb is not None and cb > 0 and (cb & (cb + 1)) == 0:
                return ("bin", "Rem", a, ("const", cb + 1, None, ""))
            if ca is not None and ca > 0 and (ca & (ca + 1)) == 0:
                return ("bin", "Rem", b, ("const", ca + 1, None, ""))
        return ("bin", e[1], a, b)
    return tuple(_arith(y) if isinstance(y, tuple) and y and isinstance(y[0], str) else
                 (tuple(_arith(z) if isinstance(z, tuple) else z for z in y) if isinstance(y, tuple) else y) for y in e)


def _orient(e):
    """a top-level comparison in one orientation (`b >= a` is `a <= b`, `!(a > b)` is `a <= b`; `==`/`!=` operands ordered)"""
    from .features import _cmp_of
    c = _cmp_of(e)
    if c is None:
        return e
    op, a, b = c
    if op in ("Eq", "Ne") and canon(strip(b)) < canon(strip(a)):
        a, b = b, a
    return ("bin", op, a, b)


def pred_key(prog, e, truth, closure=False):
    from .features import expand
    e = _arith(_items(e, closure))
    try:
        # a predicate that only forwards to another one (`is_near_gt(a, b)` = `is_near_lt(b, a)`) is that other one
        if strip(e)[0] == "call" and prog.get(strip(e)[1]) is not None and prog.get(strip(e)[1]).locals[0]["ty"] == "bool":
            e = expand(prog, e)
    except Exception:
        pass
    if not truth:
        e2 = _orient(("un", "Not", e))
        if e2[0] == "bin":
            e, truth = e2, True
    else:
        e = _orient(e)
    t = validate.closure_canon(prog, e)
    t = re.sub(r"local:\w+", "local", t)
    return ("" if truth else "!") + t


def _same_phi(f, sy, e, depth=0):
    """a variable assigned in several places, every time the same expression (`len = read()?` before the loop and at the end of its body),
    is that expression"""
    if not isinstance(e, tuple) or depth > 8:
        return e
    if e and e[0] == "local" and len(e) >= 2 and isinstance(e[1], int):
        ds = f.defs.get(e[1], [])
        if len(ds) >= 2 and all(k == "rv" for (_b, _i, k, _x) in ds):
            vals = [strip(sy.rvalue(x)) for (_b, _i, _k, x) in ds]
            keys = {re.sub(r"(local:\w*?)_\d+\b", r"\1", canon(v)) for v in vals}
            if len(keys) == 1 and "local:%s" % (e[2] or "") not in next(iter(keys)):
                return vals[0]
        return e
    return tuple(_same_phi(f, sy, x, depth + 1) if isinstance(x, tuple) else
                 ([_same_phi(f, sy, y, depth + 1) if isinstance(y, tuple) else y for y in x] if isinstance(x, list) else x) for x in e)


def sites(prog, f, want_kind="belief"):
    sy = Sym(f)
    out = []
    for kind, e, truth, sp in validate.guards_of(f, sy):
        if kind == want_kind:
            try:
                e = _same_phi(f, sy, e)
            except Exception:
                pass
            out.append((pred_key(prog, e, truth, "{closure" in f.path), e, truth, sp))
    return sy, out


def population(prog, scope=None, want_kind="belief"):
    pop = {}
    for f in prog.fns:
        if f.derived or (scope is not None and not scope.search(f.path)):
            continue
        try:
            _, ss = sites(prog, f, want_kind)
        except RecursionError:
            continue
        for k, e, truth, sp in ss:
            pop.setdefault(fn_key(f.path), Counter())[k] += 1
    return pop


def _block_of(f, sp):
    from ..mir import is_panic_call
    for i in f.live:
        t = f.blocks[i]["term"]
        if is_panic_call(t) and t["sp"] is sp:
            return i
    return None


_W = {"u8": 8, "u16": 16, "u32": 32, "u64": 64, "usize": 64, "bool": 1}


def _ival(f, e, depth=0, facts=None):
    """(lo, hi, bits) enclosing every value an unsigned integer expression can take, from the types of its leaves and the operators
    alone (no path facts); None when not known.  An operation whose enclosure leaves its type is not enclosed (it could wrap)."""
    e = strip(e)
    if depth > 12 or not isinstance(e, tuple) or not e:
        return None
    k = e[0]
    if facts and k in ("param", "local", "cast", "call", "field", "deref"):
        fk = canon(e)
        if fk in facts:
            base = _ival(f, e, depth, None)
            lo, hi = facts[fk]
            if base is not None:
                return (max(base[0], lo), min(base[1], hi), base[2])

    def of_type(ty):
        ty = (ty or "").lstrip("&").replace("mut ", "").strip()
        w = _W.get(ty)
        return (0, (1 << w) - 1, w) if w else None
    if k == "const":
        if isinstance(e[1], int) and e[1] >= 0:
            w = _W.get((e[3] or "").strip(), 64) if len(e) > 3 else 64
            return (e[1], e[1], w)
        return None
    if k in ("param", "local"):
        return of_type(f.locals[e[1]]["ty"])
    if k == "deref":
        x = strip(e[1])
        if x[0] in ("param", "local"):
            return of_type(f.locals[x[1]]["ty"])
        return None
    if k == "cast":
        t = of_type(e[2])
        a = _ival(f, e[1], depth + 1, facts)
        if t is None:
            return None
        if a is not None and a[1] <= t[1]:
            return (a[0], a[1], t[2])
        return t
    if (k == "call" and e[1].endswith("::len") and len(e[2]) == 1) or k == "len":
        # the length of an array behind an unsizing cast: its type says it
        from ..sym import walk
        for x in walk(e[2][0] if k == "call" else e[1]):
            ty = None
            if x[0] == "const" and len(x) > 3:
                ty = x[3]
            elif x[0] in ("param", "local"):
                ty = f.locals[x[1]]["ty"]
            m = re.search(r"\[[^;\]]+; (\d+)(?:_usize)?\]", ty or "")
            if m:
                return (int(m.group(1)), int(m.group(1)), 64)
            if x[0] in ("param", "local", "const", "call"):
                break
        return None
    if k == "bin":
        op = e[1]
        a, b = _ival(f, e[2], depth + 1, facts), _ival(f, e[3], depth + 1, facts)
        if op == "BitAnd":
            his = [x[1] for x in (a, b) if x is not None]
            ws = [x[2] for x in (a, b) if x is not None]
            return (0, min(his), max(ws)) if his else None
        if op == "Rem" and b is not None and b[0] > 0:
            return (0, b[1] - 1 if a is None else min(a[1], b[1] - 1), b[2] if a is None else max(a[2], b[2]))
        if a is None or b is None:
            return None
        w = max(a[2], b[2])
        top = (1 << w) - 1
        if op == "Add":
            r = (a[0] + b[0], a[1] + b[1], w)
        elif op == "Sub":
            r = (a[0] - b[1], a[1] - b[0], w)
        elif op == "Mul":
            r = (a[0] * b[0], a[1] * b[1], w)
        elif op == "Shr" and b[0] == b[1] and b[0] < 64:
            r = (a[0] >> b[0], a[1] >> b[0], a[2])
            top = (1 << a[2]) - 1
        elif op == "Shl" and b[0] == b[1] and b[0] < 64:
            r = (a[0] << b[0], a[1] << b[0], a[2])
            top = (1 << a[2]) - 1
        elif op == "Div" and b[0] > 0:
            r = (a[0] // b[1], a[1] // b[0], w)
        elif op == "Rem" and b[0] > 0:
            r = (0, min(a[1], b[1] - 1), w)
        elif op == "BitOr":
            r = (max(a[0], b[0]), (1 << max(a[1], b[1]).bit_length()) - 1, w)
        else:
            return None
        if r[0] < 0 or r[1] > top:
            return None
        return r
    return None


def _leaf_facts(f, sy, blk):
    """ranges of immutable leaves (parameters, single-assignment locals and casts / calls over them) established by release-live
    comparisons with constants that dominate block blk"""
    from .features import _cmp_of
    from .summary import _belief_edge
    facts = {}
    for c in path_conds(f, sy, blk):
        if len(c) > 3 and _belief_edge(f, c[3][0]):
            continue
        a = bool_atom(c)
        if a is None or a[0] == "truth":
            continue
        cc = _cmp_of(("bin", a[0], a[1], a[2]))
        if cc is None:
            continue
        op, x, y = cc
        for leaf, other, flip in ((x, y, False), (y, x, True)):
            iv = _ival(f, other)
            lf = strip(leaf)
            if iv is None or iv[0] != iv[1] or lf[0] == "const":
                continue
            from ..sym import walk
            if any(z[0] == "local" and len(f.defs.get(z[1], [])) != 1 for z in walk(lf)):
                continue
            k = iv[0]
            lo, hi = facts.get(canon(lf), (0, 1 << 64))
            # op is Lt/Le/Eq/Ne over (x, y)
            if op == "Lt":
                lo, hi = (lo, min(hi, k - 1)) if not flip else (max(lo, k + 1), hi)
            elif op == "Le":
                lo, hi = (lo, min(hi, k)) if not flip else (max(lo, k), hi)
            elif op == "Eq":
                lo, hi = max(lo, k), min(hi, k)
            else:
                continue
            facts[canon(lf)] = (lo, hi)
    return facts


def _by_ranges(f, e, truth, facts=None):
    """the comparison holds for every value its operands can take (types of the leaves and operators; plus the ranges that dominating
    release-live comparisons with constants give to immutable leaves)"""
    from .features import _cmp_of
    c = _cmp_of(e if truth else ("un", "Not", e))
    if c is None:
        return None
    op, a, b = c
    ia, ib = _ival(f, a, 0, facts), _ival(f, b, 0, facts)
    if ia is None or ib is None:
        return None
    ok = {"Lt": ia[1] < ib[0], "Le": ia[1] <= ib[0], "Ne": ia[1] < ib[0] or ib[1] < ia[0], "Eq": ia[0] == ia[1] == ib[0] == ib[1]}.get(op, False)
    return "holds for every value of its operands: [%d, %d] %s [%d, %d]" % (ia[0], ia[1], op, ib[0], ib[1]) if ok else None


def _discharge(prog, f, sy, e, truth, sp, is_live=False):
    from .features import pair_with_runtime_check
    pb = _block_of(f, sp)
    if pb is None:
        return None
    # the switch block in front of the panic arm
    sw = [i for i in sorted(f.live) if pb in f.lsuccs(i) and f.blocks[i]["term"]["t"] == "switch"]
    if not sw:
        return None
    blk = sw[0]
    want = validate.closure_canon(prog, e)
    try:
        w = _by_ranges(f, e, truth, _leaf_facts(f, sy, blk))
    except Exception:
        w = None
    if w:
        return w
    if truth:
        try:
            w = pair_with_runtime_check(prog, f, sy, blk, e)
        except Exception:
            w = None
        if w:
            return "subsumed by " + w
    # (b) a dominating live branch on the same predicate with the same outcome
    for c in path_conds(f, sy, blk):
        if len(c) > 3:
            from .summary import _belief_edge
            if _belief_edge(f, c[3][0]):
                continue
        a = bool_atom(c)
        if a is None:
            continue
        if a[0] == "truth":
            if validate.closure_canon(prog, validate.expand_cells(sy, a[1])) == want and a[2] == truth:
                return "established by a dominating live branch"
        else:
            from .features import _cmp_of as _c
            x = _c(validate.expand_cells(sy, ("bin", a[0], a[1], a[2])))
            y = _c(e if truth else ("un", "Not", e))
            if x is not None and y is not None:
                kx = (x[0],) + tuple(sorted([canon(strip(x[1])), canon(strip(x[2]))]) if x[0] in ("Eq", "Ne") else [canon(strip(x[1])), canon(strip(x[2]))])
                ky = (y[0],) + tuple(sorted([canon(strip(y[1])), canon(strip(y[2]))]) if y[0] in ("Eq", "Ne") else [canon(strip(y[1])), canon(strip(y[2]))])
                if kx == ky:
                    return "established by a dominating live branch"
    # (f) a dominating release-live call of a crate predicate whose definition contains the belief: `assert!(is_valid(x))` establishes
    # every conjunct of `is_valid` (each of the predicate's non-false results is reached only under the belief, on the operands handed over)
    from .features import _cmp_of
    from .summary import _belief_edge, loop_free

    def norm(x):
        c = _cmp_of(x)
        if c is None:
            return None
        op, a, b = c
        a, b = canon(strip(a)), canon(strip(b))
        if op in ("Eq", "Ne") and b < a:
            a, b = b, a
        return "%s(%s,%s)" % (op, re.sub(r"::<[^()\[\]]*>\(", "(", a), re.sub(r"::<[^()\[\]]*>\(", "(", b))
    mine = norm(e if truth else ("un", "Not", e))
    if mine is not None:
        for c in path_conds(f, sy, blk):
            if len(c) > 3 and _belief_edge(f, c[3][0]):
                continue
            a = bool_atom(c)
            if not (a and a[0] == "truth" and a[2] is True and strip(a[1])[0] == "call"):
                continue
            call = strip(a[1])
            g = prog.get(call[1])
            if g is None or not loop_free(g) or g.locals[0]["ty"] != "bool":
                continue
            gs = Sym(g)
            pm = {k + 1: x for k, x in enumerate(call[2])}
            rsites = []
            for bi, j, st in g.stmts():
                if st["s"] == "assign" and st["lhs"]["l"] == 0 and not st["lhs"]["p"]:
                    rsites.append((bi, strip(gs.rvalue(st["rv"]))))
            for bi, t in g.calls():
                if t["dest"]["l"] == 0 and not t["dest"]["p"]:
                    rsites.append((bi, strip(gs.call(t, bi))))
            nonfalse = [(bi, v) for bi, v in rsites if not (v[0] == "const" and v[1] == 0)]
            if not nonfalse:
                continue
            every = True
            for bi, v in nonfalse:
                atoms = set()
                for c2 in path_conds(g, gs, bi):
                    a2 = bool_atom(c2)
                    if a2 and a2[0] != "truth":
                        atoms.add(norm(validate.subst(("bin", a2[0], a2[1], a2[2]), pm)))
                n0 = norm(validate.subst(v, pm)) if v[0] == "bin" else None
                if n0:
                    atoms.add(n0)
                if mine not in atoms:
                    every = False
                    break
            if every:
                return "a conjunct of the dominating release-live test %s(..)" % call[1].split("::")[-1]
    # (d) a release-live assert! of the same function on the same predicate
    for kind, e2, t2, sp2 in validate.guards_of(f, sy):
        if kind == "live" and t2 == truth and validate.closure_canon(prog, e2) == want:
            if sp2 is sp:
                continue   # the site itself (when a run-time condition is the one being judged)
            b2 = _block_of(f, sp2)
            if not is_live or (b2 is not None and any(f.dominates(x, blk) for x in f.live if b2 in f.lsuccs(x))):
                return "repeats a release-live assert! of the same function"
    # (c) a callee's belief on the operands handed over
    for i, t in f.calls():
        g = prog.get(callee_of(t))
        if g is None or g.path == f.path:
            continue
        try:
            gsy, gs = sites(prog, g)
        except RecursionError:
            continue
        if not gs:
            continue
        args = [sy.operand(a) for a in t["args"]]
        pm = {k + 1: a for k, a in enumerate(args)}
        for k, ge, gt, gsp in gs:
            if gt == truth and validate.closure_canon(prog, validate.subst(ge, pm)) == want:
                return "repeats the belief of callee %s on the operands handed over" % g.short.split("::")[-1]
    return None


def census(ctx, prog, scope=None, floor=0):
    global _REF
    if _REF is None:
        try:
            with open(os.path.join(os.path.dirname(os.path.dirname(os.path.abspath(__file__))), "ref_beliefs.json")) as fh:
                _REF = json.load(fh)
        except OSError:
            _REF = {}
    ctx.rule(R, "debug-only beliefs (debug_assert!/invariant! conditions, read in a configuration with debug assertions on): every site belongs to the population read on the reviewed tree (keyed by function and normal form of the predicate, local names ignored), or is discharged by a later run-time check of the same function, a dominating release-live branch or assert! on the same predicate, or the same belief of a callee on the operands handed over; otherwise it is reported as an unreviewed belief (debug builds would panic, `unsafe` builds would be undefined, where it is false)")
    ref = _REF.get(prog.cfg)
    if ref is None:
        ctx.ob(R, "reference population for configuration %s" % prog.cfg, False, "no reference recorded", "sa/ref_beliefs.json")
        return
    rx = re.compile(scope) if scope else None
    n = 0
    seen = {}
    for f in prog.fns:
        if f.derived or (rx is not None and not rx.search(f.path)):
            continue
        try:
            sy, ss = sites(prog, f)
        except RecursionError:
            continue
        if not ss:
            continue
        fk = fn_key(f.path)
        have = seen.setdefault(fk, Counter())
        for k, e, truth, sp in ss:
            n += 1
            have[k] += 1
            if have[k] <= ref.get(fk, {}).get(k, 0):
                ctx.ob(R, "%s: belief %s is in the reviewed population" % (f.short, k[:120]), True, "reviewed", f.loc(sp))
                continue
            why = _discharge(prog, f, sy, e, truth, sp)
            ctx.ob(R, "%s: belief %s%s is reviewed or discharged" % (f.short, "" if truth else "!", re.sub(r"_\d+\b", "", show(e))[:140]), why is not None,
                   why or "a debug-only belief that is not in the reviewed population and that no run-time check, dominating branch, assert! or callee belief establishes: if it is false for some in-contract input, debug builds panic (and `unsafe` builds are undefined) where the release build answers",
                   f.loc(sp))
    ctx.floor(R, n, floor, "belief sites%s" % ("" if scope is None else " in scope"))


_REFA = None
RA = "SA-ASSERT"


def live_census(ctx, prog, scope=None, floor=0):
    """run-time panic conditions (`assert!`, hand-written `if .. { panic!() }`): every one belongs to the population read on the reviewed
    tree (function + normal form of the predicate), or is established by a dominating branch / earlier assert / the types of its
    operands.  A NEW condition that nothing establishes makes an entry point refuse (panic on) inputs that the reviewed tree accepts -
    for a checked form that is a disagreement with its unchecked twin and with the documented contract."""
    global _REFA
    if _REFA is None:
        try:
            with open(os.path.join(os.path.dirname(os.path.dirname(os.path.abspath(__file__))), "ref_asserts.json")) as fh:
                _REFA = json.load(fh)
        except OSError:
            _REFA = {}
    ctx.rule(RA, "run-time panic conditions (assert!, explicit panics behind a test): each is in the population of the reviewed tree (function, normal form of the predicate) or is established by a dominating test / the operand types; a new one narrows what the function accepts")
    ref = _REFA.get(prog.cfg)
    if ref is None:
        ctx.ob(RA, "reference population for configuration %s" % prog.cfg, False, "no reference recorded", "sa/ref_asserts.json")
        return
    rx = re.compile(scope) if scope else None
    n = 0
    seen = {}
    for f in prog.fns:
        if f.derived or (rx is not None and not rx.search(f.path)):
            continue
        try:
            sy, ss = sites(prog, f, "live")
        except RecursionError:
            continue
        if not ss:
            continue
        fk = fn_key(f.path)
        have = seen.setdefault(fk, Counter())
        for k, e, truth, sp in ss:
            n += 1
            have[k] += 1
            if have[k] <= ref.get(fk, {}).get(k, 0):
                continue
            try:
                why = _discharge(prog, f, sy, e, truth, sp, is_live=True)
            except Exception:
                why = None
            ctx.ob(RA, "%s: run-time panic condition %s%s is reviewed or established" % (f.short, "" if truth else "!", re.sub(r"_\d+\b", "", show(e))[:140]), why is not None,
                   why or "a run-time panic condition that the reviewed tree does not have in this function and that no dominating test establishes: inputs it refuses were accepted before",
                   f.loc(sp))
    ctx.ob(RA, "run-time panic conditions%s are those of the reviewed tree" % ("" if scope is None else " in scope"), True, "%d sites read" % n)
    ctx.floor(RA, n, floor, "run-time panic condition sites%s" % ("" if scope is None else " in scope"))
