#!/usr/bin/env python3
"""dev helper: mechanical single-token mutation survey.  Generates mutants of the non-test library source (comparison / arithmetic /
boolean operators, small constants), filters those that compile, and runs every claimed QUICK check against each in a scratch worktree
(checks from VERIF_CHECK_DIR or /verif).  A mutant nobody reports is either equivalent or a blind spot - the list is for reading.
usage: tools_mutation_survey.py <out.jsonl> [--workers N] [--limit K] [--files a.rs,b.rs] [--seed S] [--delete] [--swap12] [--argswap] [--residue-of earlier.jsonl]"""
import json, os, random, re, shutil, subprocess, sys, tempfile, threading, queue
V = "/verif"
CHK = os.environ.get("VERIF_CHECK_DIR", V)
out_path = sys.argv[1]
def opt(name, default):
    return sys.argv[sys.argv.index(name) + 1] if name in sys.argv else default
workers = int(opt("--workers", "6"))
limit = int(opt("--limit", "300"))
seed = int(opt("--seed", "1"))
SRC = "/repo/ffuzzy/src/internals"
files = opt("--files", "")
paths = []
for dp, dn, fn in os.walk(SRC):
    for f in sorted(fn):
        if f.endswith(".rs") and f != "tests.rs" and "test" not in f and "/tests" not in dp:
            if not files or f in files.split(","):
                paths.append(os.path.join(dp, f))
OPS = [(r"(?<![<>=!&|+\-*/])<(?![<=>])", "<="), (r"<=(?!=)", "<"), (r"(?<![<>=!\-&|])>(?![>=])", ">="), (r">=", ">"), (r"==", "!="), (r"!=", "=="),
       (r"&&", "||"), (r"\|\|", "&&"), (r"(?<![+\w]) \+ 1\b", " + 2"), (r" - 1\b", " - 2"), (r"(?<![+]) \+ (?![=+])", " - "), (r"(?<![\->]) - (?![=>])", " + "),
       (r"\btrue\b", "false"), (r"\bfalse\b", "true"), (r"\b0\b(?![.x_])", "1"), (r"<<", ">>"), (r"(?<![&])&(?![&=\w' (\[m])", "|"), (r"\^", "|")]
muts = []
for p in paths:
    lines = open(p).read().split("\n")
    in_test = False
    depth_at = None
    for i, l in enumerate(lines):
        st = l.strip()
        if st.startswith("#[cfg(test)]") or re.match(r"^\s*(pub(\(crate\))? )?mod tests\b", l) or "mod const_asserts" in l:
            in_test = True
        if in_test:
            continue   # test modules are at the end of these files
        if st.startswith("//") or st.startswith("#[") or st.startswith("#![") or st.startswith("use ") or not st or st.startswith("*") or st.startswith("/*"):
            continue
        if "const_assert" in l or "where" == st or st.startswith("pub trait") or st.startswith("impl"):
            continue
        code = l.split("//")[0]
        if "--delete" in sys.argv:
            # statement deletion: a plain (compound) assignment or a call statement on one line
            if re.match(r"^\s*[\w\.\[\]\*\(\) ]+ (=|\+=|-=|\|=|&=|<<=|>>=|\^=) [^=].*;\s*$", code) and not re.match(r"^\s*(let|return|const|static|pub|type)\b", code):
                muts.append((p, i, l, re.match(r"^\s*", l).group(0) + "// (deleted)", "DEL"))
            elif re.match(r"^\s*[\w\.]+\.[\w]+\(.*\);\s*$", code) and "assert" not in code and "invariant" not in code:
                muts.append((p, i, l, re.match(r"^\s*", l).group(0) + "// (deleted)", "DELCALL"))
            continue
        if "--swap12" in sys.argv:
            # copy-paste slips between the paired halves of the data structures: one occurrence of a "1" name written as its "2" twin
            PAIRS = [("len_blockhash1", "len_blockhash2"), ("blockhash1", "blockhash2"), ("block_hash_1", "block_hash_2"), ("S1", "S2"), ("C1", "C2"),
                     ("bh_0", "bh_1"), ("h_full", "h_half"), ("FULL_SIZE", "HALF_SIZE"), ("rle_block1", "rle_block2"), ("blockhash_ch_full", "blockhash_ch_half")]
            for a_, b_ in PAIRS:
                for x_, y_ in ((a_, b_), (b_, a_)):
                    for m in re.finditer(r"(?<![\w])%s(?![\w])" % re.escape(x_), code):
                        new = code[:m.start()] + y_ + code[m.end():] + l[len(code):]
                        muts.append((p, i, l, new, x_ + "->" + y_))
            continue
        if "--argswap" in sys.argv:
            # the two arguments of a two-argument call (or the two operands of a method call with receiver) written in the other order
            for m in re.finditer(r"\((&?(?:mut )?[\w\.\[\]]+(?:\(\))?), (&?(?:mut )?[\w\.\[\]]+(?:\(\))?)\)", code):
                a_, b_ = m.group(1), m.group(2)
                if a_ == b_ or ":" in code[max(0, m.start() - 40):m.start()].split("(")[-1] and "fn " in code:
                    continue
                new = code[:m.start()] + "(" + b_ + ", " + a_ + ")" + code[m.end():] + l[len(code):]
                muts.append((p, i, l, new, "argswap"))
            continue
        for rx, rep in OPS:
            for m in re.finditer(rx, code):
                # skip generics / lifetimes / references / arrows
                ctx_ = code[max(0, m.start() - 2):m.end() + 2]
                if "->" in ctx_ or "=>" in ctx_ or "::<" in code[max(0, m.start() - 3):m.end()] or re.search(r"<[A-Za-z_'][\w, :'<>\[\];{}]*>", code[max(0, m.start() - 1):m.end() + 30]) and m.group(0) in "<>":
                    continue
                new = code[:m.start()] + rep + code[m.end():] + l[len(code):]
                muts.append((p, i, l, new, m.group(0) + "->" + rep.strip()))
random.Random(seed).shuffle(muts)
muts = muts[:limit]
if "--residue-of" in sys.argv:   # re-run only the mutants an earlier survey found unreported
    prev = [json.loads(x) for x in open(opt("--residue-of", ""))]
    keep = {(r["file"], r["line"], r["kind"], r["new"]) for r in prev if r["compiles"] and not r["detected_by"]}
    muts = [m for m in muts if (os.path.relpath(m[0], "/repo"), m[1] + 1, m[4], m[3].strip()) in keep]
print(len(muts), "mutants over", len(paths), "files", flush=True)
man = json.load(open(os.path.join(CHK, "MANIFEST.json")))
claimed = [c["property_id"] for c in man["checks"]]
q = queue.Queue()
for k, m in enumerate(muts):
    q.put((k, m))
lock = threading.Lock()
outf = open(out_path, "a")

def worker(wid):
    wt = tempfile.mkdtemp(prefix="ffz-mut-", dir="/tmp")
    os.rmdir(wt)
    subprocess.run(["git", "-C", "/repo", "worktree", "add", "-q", "--detach", wt, "HEAD"], check=True)
    env0 = dict(os.environ, CARGO_NET_OFFLINE="true", CARGO_TARGET_DIR=wt + "/target")
    try:
        while True:
            try:
                k, (p, i, old, new, kind) = q.get_nowait()
            except queue.Empty:
                break
            rel = os.path.relpath(p, "/repo")
            fp = os.path.join(wt, rel)
            lines = open(fp).read().split("\n")
            if lines[i] != old:
                continue
            lines[i] = new
            open(fp, "w").write("\n".join(lines))
            rec = {"k": k, "file": rel, "line": i + 1, "kind": kind, "old": old.strip()[:160], "new": new.strip()[:160]}
            r = subprocess.run(["cargo", "check", "--offline", "-q", "-p", "ffuzzy", "--lib"], cwd=wt, env=env0, capture_output=True, text=True)
            if r.returncode != 0:
                rec["compiles"] = False
            else:
                rec["compiles"] = True
                env = dict(os.environ, VERIF_REPO=wt, VERIF_EVIDENCE_DIR=os.path.join(wt, "_evidence"), VERIF_FACT_CACHE="1")
                det = []
                for c in claimed:
                    pr = subprocess.run([os.path.join(CHK, "check"), c, "--tier", "quick"], capture_output=True, text=True, env=env, cwd=CHK)
                    if pr.returncode == 1:
                        det.append(c)
                    elif pr.returncode not in (0, 1):
                        det.append(c + "?")
                rec["detected_by"] = det
            with lock:
                outf.write(json.dumps(rec) + "\n")
                outf.flush()
                print(k, rel, i + 1, kind, "nocompile" if not rec["compiles"] else (rec["detected_by"] or "UNDETECTED"), flush=True)
            subprocess.run(["git", "-C", wt, "checkout", "--", "."], capture_output=True)
    finally:
        subprocess.run(["git", "-C", "/repo", "worktree", "remove", "--force", wt], capture_output=True)
        shutil.rmtree(wt, ignore_errors=True)

ts = [threading.Thread(target=worker, args=(w,)) for w in range(workers)]
for t in ts:
    t.start()
for t in ts:
    t.join()
print("done")
