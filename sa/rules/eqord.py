"""SA-FIELDS for Eq / Hash / Ord (C16, C07) and index symmetry of paired fields inside one object."""
import re
from ..sym import Sym, strip, show, canon, fpath, walk
from ..mir import callee_of
from . import fields as F

R = "SA-FIELDS"
TYPES = {
    "FuzzyHashData": ("internals::hash::FuzzyHashData", ("blockhash1", "blockhash2", "len_blockhash1", "len_blockhash2", "log_blocksize")),
    "FuzzyHashDualData": ("internals::hash_dual::FuzzyHashDualData", ("rle_block1", "rle_block2", "norm_hash")),
}


def param_fields(e, owner):
    """set of (param index, field name) for fields of `owner`-typed parameters mentioned in expression e"""
    out = set()
    for x in walk(e):
        if x[0] == "field" and len(x) > 3 and x[3] == owner:
            b = x[1]
            while b[0] in ("ref", "deref"):
                b = b[1]
            if b[0] == "param":
                out.add((b[1], x[2]))
    return out


def impl_fn(prog, tyname, trait, method):
    owner = TYPES[tyname][0]
    r = [f for f in prog.fns if f.impl_trait.startswith(trait) and f.impl_self.startswith(owner + "<") and f.path.endswith("::" + method)]
    return r[0] if len(r) == 1 else None


def eq_hash_ord(ctx, prog, tyname):
    F.doc_fields(ctx)
    owner, allf = TYPES[tyname]
    allf = set(allf)
    feq = impl_fn(prog, tyname, "core::cmp::PartialEq", "eq")
    fh = impl_fn(prog, tyname, "core::hash::Hash", "hash")
    fc = impl_fn(prog, tyname, "core::cmp::Ord", "cmp")
    fpc = impl_fn(prog, tyname, "core::cmp::PartialOrd", "partial_cmp")
    for nm, f in (("PartialEq::eq", feq), ("Hash::hash", fh), ("Ord::cmp", fc), ("PartialOrd::partial_cmp", fpc)):
        if f is None:
            ctx.ob("ANCHOR", "%s impl of %s" % (nm, tyname), False, "not found (or derived/ambiguous)")
            return
        ctx.visit(f)
    # ---- eq: like with like, all fields on both sides
    sy = Sym(feq)
    seen_self, seen_other = set(), set()
    pairs_ok = True
    why = []
    comparisons = []
    for i, j, s in feq.stmts():
        if s["s"] == "assign" and s["rv"]["r"] == "bin" and s["rv"]["op"] in ("Eq", "Ne"):
            comparisons.append((sy.operand(s["rv"]["a"]), sy.operand(s["rv"]["b"]), s["sp"]))
    for i, t in feq.calls():
        c = callee_of(t)
        if c.split("::")[-1] in ("eq", "ne") and len(t["args"]) == 2:
            comparisons.append((sy.operand(t["args"][0]), sy.operand(t["args"][1]), t["sp"]))
    for a, b, sp in comparisons:
        fa, fb = param_fields(a, owner), param_fields(b, owner)
        if not fa and not fb:
            continue
        pa, pb = {p for p, _ in fa}, {p for p, _ in fb}
        na, nb = sorted(n for _, n in fa), sorted(n for _, n in fb)
        ok = len(pa) == 1 and len(pb) == 1 and pa != pb and na == nb
        if not ok:
            pairs_ok = False
            why.append("compares %s with %s" % (show(a)[:80], show(b)[:80]))
        for p, n in fa | fb:
            (seen_self if p == 1 else seen_other).add(n)
    ctx.ob(R, "%s PartialEq: every comparison is between the same field(s) of self and other" % tyname, pairs_ok and bool(comparisons),
           "; ".join(why) or "%d comparisons" % len(comparisons), feq.loc())
    ctx.ob(R, "%s PartialEq: all fields of both operands take part" % tyname, seen_self == allf and seen_other == allf,
           "self: %s; other: %s" % (sorted(seen_self), sorted(seen_other)), feq.loc())
    # ---- eq is the CONJUNCTION of those comparisons: a result other than `false` is produced only where every other comparison has
    # already come out equal (no `||`-mixed reject, no early `true`)
    from ..sym import path_conds, bool_atom, const_value as _cv
    sites = []
    for i, j, s in feq.stmts():
        if s["s"] == "assign" and s["lhs"]["l"] == 0 and not s["lhs"]["p"]:
            sites.append((i, strip(sy.rvalue(s["rv"]))))
    for i, t in feq.calls():
        if t["dest"]["l"] == 0 and not t["dest"]["p"]:
            sites.append((i, strip(sy.call(t, i))))
    keyset = set()
    for a, b, sp in comparisons:
        if param_fields(a, owner) or param_fields(b, owner):
            keyset.add(frozenset((canon(strip(a)), canon(strip(b)))))
    bad = []
    n_res = 0
    for blk, v in sites:
        if v[0] == "const" and _cv(v) == 0:
            continue
        n_res += 1
        if v[0] == "const":
            bad.append("constant `true` at bb%d" % blk)
            continue
        have = set()
        if v[0] == "call" and len(v[2]) == 2:
            have.add(frozenset((canon(strip(v[2][0])), canon(strip(v[2][1])))))
        elif v[0] == "bin" and v[1] == "Eq":
            have.add(frozenset((canon(strip(v[2])), canon(strip(v[3])))))
        for c in path_conds(feq, sy, blk):
            a = bool_atom(c)
            if not a:
                continue
            if a[0] == "Eq":
                have.add(frozenset((canon(strip(a[1])), canon(strip(a[2])))))
            elif a[0] == "truth" and a[2] is True and strip(a[1])[0] == "call" and len(strip(a[1])[2]) == 2 and not strip(a[1])[1].endswith("::ne"):
                have.add(frozenset((canon(strip(strip(a[1])[2][0])), canon(strip(strip(a[1])[2][1])))))
            elif a[0] == "truth" and a[2] is False and strip(a[1])[0] == "call" and len(strip(a[1])[2]) == 2 and strip(a[1])[1].endswith("::ne"):
                # `if a != b { return false }`: the ladder form of the same conjunction
                have.add(frozenset((canon(strip(strip(a[1])[2][0])), canon(strip(strip(a[1])[2][1])))))
        miss = [sorted(k) for k in keyset if k not in have]
        if miss:
            bad.append("result at bb%d does not require %s" % (blk, [m[0][:50] for m in miss][:3]))
    ctx.ob(R, "%s PartialEq: the result is the conjunction of all its comparisons (every non-false result requires every other comparison to be equal)" % tyname,
           not bad and n_res >= 1, "; ".join(bad) or "%d comparisons, %d non-false result site(s)" % (len(keyset), n_res), feq.loc())
    # ---- hash: fields fed are a subset of those compared by eq; everything comes from self
    sy = Sym(fh)
    fed = set()
    foreign = False
    n_w = 0
    for i, t in fh.calls():
        c = callee_of(t)
        if "Hasher::write" in c or c.endswith("Hash>::hash") or c.endswith("Hash::hash"):
            n_w += 1
            for a in t["args"]:
                for p, n in param_fields(sy.operand(a), owner):
                    if p != 1:
                        foreign = True
                    fed.add(n)
    ctx.ob(R, "%s Hash: feeds only fields that PartialEq compares (and all of them)" % tyname, fed <= seen_self and fed == allf and not foreign and n_w > 0,
           "fed: %s over %d write calls" % (sorted(fed), n_w), fh.loc())
    # ---- hash: the byte stream is self-delimiting: a field is fed whole (fixed extent), or as a prefix `field[0..len]` whose
    # length `len` (a field of self) was fed before it.  Otherwise two unequal objects feed the same bytes to every hasher.
    bad = []
    fed_scalars = []
    for i, t in sorted(fh.calls()):
        c = callee_of(t)
        if re.search(r"Hasher::write_\w+$", c) and len(t["args"]) == 2:
            fed_scalars.append((i, canon(strip(sy.operand(t["args"][1])))))
        if c.endswith("Hasher::write") and len(t["args"]) == 2:
            e = strip(sy.operand(t["args"][1]))
            txt = canon(e)
            if re.match(r"^\(?param:self\.\w+( as &\[u8\]\))?$", txt):
                continue
            m = re.match(r"^core::array::<impl core::ops::Index<I> for \[T; N\]>::index\(param:self\.\w+,core::ops::(?:Range::Range\{0,|RangeTo::RangeTo\{)\((param:self\.\w+) as usize\)\}\)$", txt)
            if m and any(v == m.group(1) and (j < i or fh.dominates(j, i)) and fh.dominates(j, i) for j, v in fed_scalars):
                continue
            bad.append("write(%s): neither a whole field nor a prefix whose length field was fed before" % txt[:110])
    ctx.ob(R, "%s Hash: the fed byte stream is self-delimiting (whole fields, or prefixes preceded by their length)" % tyname, not bad, "; ".join(bad)[:400] or "ok", fh.loc())
    # ---- cmp: positional agreement of the two tuples
    sy = Sym(fc)
    ok = False
    why = "no tuple comparison found"
    for i, t in fc.calls():
        if t["dest"]["l"] == 0 and callee_of(t).split("::")[-1] == "cmp" and len(t["args"]) == 2:
            l, r = strip(sy.operand(t["args"][0])), strip(sy.operand(t["args"][1]))
            if l[0] == "agg" and r[0] == "agg" and l[1] == "Tuple" and r[1] == "Tuple" and len(l[2]) == len(r[2]):
                ln = [sorted(n for _, n in param_fields(x, owner)) for x in l[2]]
                rn = [sorted(n for _, n in param_fields(x, owner)) for x in r[2]]
                lp = {p for x in l[2] for p, _ in param_fields(x, owner)}
                rp = {p for x in r[2] for p, _ in param_fields(x, owner)}
                flat = [n for x in ln for n in x]
                ok = ln == rn and lp == {1} and rp == {2} and set(flat) == allf and all(len(x) == 1 for x in ln)
                why = "left %s / right %s" % (ln, rn)
                if ok and tyname == "FuzzyHashDualData":
                    ok = ln[0] == ["norm_hash"]
                    why += "; first component norm_hash: %s" % ok
                if ok and tyname == "FuzzyHashData":
                    # documented order: block size, block hash 1 (array then length), block hash 2
                    ok = flat == ["log_blocksize", "blockhash1", "len_blockhash1", "blockhash2", "len_blockhash2"]
                    why += "; order %s" % flat
    ctx.ob(R, "%s Ord: lexicographic tuple compare of the same fields in the same positions, all fields, documented order" % tyname, ok, why, fc.loc())
    sy = Sym(fpc)
    e = strip(sy.local(0))
    ok = e[0] == "agg" and e[1].endswith("Option::Some") and strip(e[2][0])[0] == "call" and strip(e[2][0])[1].endswith("Ord>::cmp")
    ctx.ob(R, "%s PartialOrd::partial_cmp = Some(self.cmp(other))" % tyname, ok, show(e)[:120], fpc.loc())


def len_index_symmetry(ctx, prog, scope=None, floor=30):
    """inside any function: a slice of O.blockhashK bounded by O.len_blockhashJ requires K == J; a call receiving views
    of blockhashK and len_blockhashJ of the same object requires K == J"""
    F.doc_fields(ctx)
    n = 0
    for f in prog.fns:
        if not F.in_scope(f, scope):
            continue
        sy = None
        for i, t in f.calls():
            c = callee_of(t)
            nm = c.split("::")[-1]
            if sy is None:
                sy = Sym(f)
            if nm in ("index", "index_mut") and len(t["args"]) == 2:
                base = sy.operand(t["args"][0])
                rng = sy.operand(t["args"][1])
                bo = F.owner_field(base)
                if not bo or not re.fullmatch(r"(blockhash|rle_block)[12]", bo[2]):
                    continue
                for x in walk(rng):
                    if x[0] == "field" and re.fullmatch(r"len_blockhash[12]", x[2]):
                        lo = F.owner_field(x)
                        if lo and canon(lo[0]) == canon(bo[0]):
                            n += 1
                            ctx.ob(R, "%s: %s sliced by the length of the same index" % (f.short, bo[2]), bo[2][-1] == x[2][-1],
                                   "%s[..] bounded by %s" % (bo[2], x[2]), f.loc(t["sp"]))
            elif f.prog.get(c) is not None or True:
                # calls receiving several indexed fields of one object
                tags = {}
                for a in t["args"]:
                    if a["k"] not in ("copy", "move"):
                        continue
                    e = sy.operand(a)
                    base, _ = F.slice_expr(e)
                    of = F.owner_field(base)
                    if of and re.fullmatch(r"(blockhash|len_blockhash|rle_block)[12]", of[2]):
                        tags.setdefault(canon(of[0]), []).append(of[2])
                for root, names in tags.items():
                    if len(names) >= 2:
                        if nm.startswith("debug_struct_field") or nm in ("cmp", "eq"):
                            continue
                        n += 1
                        idx = {x[-1] for x in names}
                        ctx.ob(R, "%s: call %s receives fields of one index of the object" % (f.short, nm), len(idx) == 1,
                               "fields %s" % names, f.loc(t["sp"]))
                        ga = [g for g in (t.get("gargs") or []) if re.fullmatch(r"[SC][12]", g)]
                        for g in ga:
                            ctx.ob(R, "%s: call %s const generic %s matches the field index" % (f.short, nm, g), g[-1] in idx and len(idx) == 1,
                                   "fields %s with %s" % (names, g), f.loc(t["sp"]))
    ctx.floor(R, n, floor, "indexed-field pairings inside one object%s" % ("" if scope is None else " in scope"))


FULL_EQ = {
    "internals::hash::FuzzyHashData": ("blockhash1", "blockhash2", "len_blockhash1", "len_blockhash2", "log_blocksize"),
    "internals::compare::FuzzyHashCompareTarget": ("blockhash1", "blockhash2", "len_blockhash1", "len_blockhash2", "log_blocksize"),
}


def _field_of(e, owner, pidx):
    """name of the field F when e denotes `param<pidx>.F` (whole field: behind references, an unsizing cast, `[..]`, or `.iter()`)"""
    e = strip(e)
    while True:
        if e[0] == "cast":
            e = strip(e[1])
            continue
        if e[0] == "call" and e[1].split("::")[-1] in ("iter", "as_slice", "as_ref", "deref") and len(e[2]) == 1:
            e = strip(e[2][0])
            continue
        if e[0] == "call" and e[1].split("::")[-1] == "index" and len(e[2]) == 2:
            r = canon(strip(e[2][1]))
            if r.startswith("core::ops::RangeFull"):
                e = strip(e[2][0])
                continue
        break
    if e[0] == "field" and len(e) > 3 and e[3] == owner:
        b = e[1]
        while b[0] in ("ref", "deref"):
            b = b[1]
        if b[0] == "param" and b[1] == pidx:
            return e[2]
    return None


def _eq_unit(prog, sy, e, owner):
    """field name when e is a test that `self.F == other.F` as a whole: `==` on the fields, on `[..]` of them, or
    `self.F.iter().zip(other.F.iter()).all(|(l, r)| l == r)`"""
    from .validate import expand_cells
    e = strip(e)
    if e[0] == "bin" and e[1] == "Eq":
        a, b = e[2], e[3]
    elif e[0] == "call" and re.search(r"::eq(::<[^()]*>)?$", e[1]) and len(e[2]) == 2:
        a, b = e[2]
    elif e[0] == "call" and e[1].endswith("::all") and len(e[2]) == 2:
        src = strip(expand_cells(sy, e[2][0]))
        if src[0] in ("ref",):
            src = strip(src[1])
        src = strip(sy.origin(src)) if src[0] == "local" else src
        cl = strip(e[2][1])
        if not (src[0] == "call" and src[1].split("::")[-1] == "zip" and len(src[2]) == 2 and cl[0] == "agg" and cl[1].startswith("Closure:")):
            return None
        g = prog.get(cl[1][len("Closure:"):])
        if g is None or cl[2]:
            return None
        body = canon(strip(Sym(g).local(0)))
        # the closure compares the two halves of the pair it is given, and nothing else
        if not re.match(r"^(?:.*::)?eq(?:::<[^()]*>)?\(param:\w*2\.0,param:\w*2\.1\)$|^Eq\(param:\w*2\.0,param:\w*2\.1\)$", re.sub(r"^.*?(?=(?:[\w:<>, \[\];&']*::)?eq[(:]|Eq\()", "", body)) and \
                not re.search(r"(::eq(?:::<[^()]*>)?|^Eq)\(param:\w*2\.0,param:\w*2\.1\)$", body):
            return None
        a, b = src[2]
    else:
        return None
    fa, fb = _field_of(a, owner, 1), _field_of(b, owner, 2)
    if fa is None or fb is None:
        fa, fb = _field_of(a, owner, 2), _field_of(b, owner, 1)
    return fa if fa is not None and fa == fb else None


def full_eq(ctx, prog):
    """`full_eq` (structural equality that must hold for ANY content): every result other than `false` requires, for every field F of
    the type, a whole-field test `self.F == other.F` to have come out equal; there is no constant `true`.  Read from the conditions on
    the paths, so `&&` chains, early-return ladders and nested `if`s are the same thing."""
    from ..sym import path_conds, bool_atom
    F.doc_fields(ctx)
    n = 0
    for owner, fields in FULL_EQ.items():
        fs = [f for f in prog.fns if f.path.startswith(owner + "::") and f.path.endswith("::full_eq") and "closure" not in f.path]
        if len(fs) != 1:
            ctx.ob("ANCHOR", "full_eq of %s" % owner.split("::")[-1], False, "%d bodies" % len(fs))
            continue
        f = fs[0]
        n += 1
        ctx.visit(f)
        sy = Sym(f)
        sites = []
        for i, j, s in f.stmts():
            if s["s"] == "assign" and s["lhs"]["l"] == 0 and not s["lhs"]["p"]:
                sites.append((i, strip(sy.rvalue(s["rv"]))))
        for i, t in f.calls():
            if t["dest"]["l"] == 0 and not t["dest"]["p"]:
                sites.append((i, strip(sy.call(t, i))))
        bad = []
        n_res = 0
        for blk, v in sites:
            if v[0] == "const" and v[1] == 0:
                continue
            n_res += 1
            have = set()
            if v[0] == "const":
                pass   # `true` at the end of a ladder: everything must come from the path
            else:
                u = _eq_unit(prog, sy, v, owner)
                if u is None:
                    bad.append("result %s at bb%d is not a whole-field comparison" % (show(v)[:70], blk))
                    continue
                have.add(u)
            for c in path_conds(f, sy, blk):
                a = bool_atom(c)
                if not a:
                    continue
                if a[0] == "Eq":
                    u = _eq_unit(prog, sy, ("bin", "Eq", a[1], a[2]), owner)
                elif a[0] == "truth" and a[2] is True:
                    u = _eq_unit(prog, sy, a[1], owner)
                elif a[0] == "truth" and a[2] is False and strip(a[1])[0] == "call" and re.search(r"::ne(::<[^()]*>)?$", strip(a[1])[1]) and len(strip(a[1])[2]) == 2:
                    u = _eq_unit(prog, sy, ("bin", "Eq", strip(a[1])[2][0], strip(a[1])[2][1]), owner)
                else:
                    u = None
                if u:
                    have.add(u)
            miss = sorted(set(fields) - have)
            if miss:
                bad.append("result at bb%d does not require equality of %s" % (blk, miss))
        ctx.ob(R, "%s::full_eq: every non-false result requires `self.F == other.F` (whole field) for every field F" % owner.split("::")[-1],
               not bad and n_res >= 1, "; ".join(bad)[:500] or "%d non-false result site(s), %d fields" % (n_res, len(fields)), f.loc())
    ctx.floor(R, n, 2, "full_eq bodies")
