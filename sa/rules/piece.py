"""SA-STEP (C01): what one trigger does to a block-hash context, and how the digest takes its last piece.

The per-byte region of the three update forms is loop-free apart from the two inner walks (FNV update of every active
context; level walk).  Every store into generator state inside that region is classified by (place, value) and must be
one of the rows of ssdeep's engine step; every row must be present; guards are read off the controlling branch
conditions; the orderings that matter (piece is taken before its running hash is reset, a fork copies the running hashes
before the piece of the same level resets them, the byte is folded into every active context before the trigger test)
are dominance / reachability facts of the CFG.  Values are compared as resolved def-use expressions, not as text of the
source, so renaming or re-ordering independent statements does not matter."""
import re
from ..sym import Sym, strip, show, canon, const_value
from ..mir import callee_of, pl
from .engine import FORMS, region, _atoms_at, _norm_cmp, is_roll_update

RS = "SA-STEP"
FNV = "internals::generate::hashes::partial_fnv::PartialFNVHash::"
FULL1 = "Sub(internals::hash::block::block_hash::FULL_SIZE=64,1"
HALF = "internals::hash::block::block_hash::HALF_SIZE=32"
NIL = "internals::generate::BLOCKHASH_CHAR_NIL=255"


def _unchecked(c):
    """debug builds: (AddWithOverflow(a,b)).0 == Add(a,b)"""
    return c


def _level_index(f, sy):
    """the level index of the safe engine: a local assigned `self.bhidx_start` and `itself + 1`"""
    out = []
    for l in range(f.argc + 1, len(f.locals)):
        ds = f.defs.get(l, [])
        if len(ds) != 2 or any(k != "rv" for (_b, _i, k, _x) in ds):
            continue
        vals = sorted(canon(strip(sy.rvalue(x))) for (_b, _i, _k, x) in ds)
        me = "local:%s_%d" % (f.locals[l]["name"], l)
        if vals == sorted(["param:self.0.bhidx_start", "Add(%s,1)" % me]):
            out.append((l, me))
    return out


def piece_effects(ctx, prog):
    ctx.rule(RS, "engine step as a table of effects: inside the per-byte region the only stores into the generator are the rows of "
             "ssdeep's step - piece := running hash value at the context's piece index; half char := running half hash value; "
             "index += 1, full hash := initial (only while index < FULL_SIZE-1); half char := NIL, half hash := initial (only while the "
             "advanced index < HALF_SIZE); fork (only from a context with no piece yet, within the fork limit): next.reset(), next.full := "
             "current.full, next.half := current.half, bhidx_end += 1; beyond the limit at the largest block size: h_last := current.full, "
             "is_last := true; elimination stores (checked by the threshold rule) - with the byte folded into the rolling hash, into "
             "h_last (when is_last) and into both running hashes of every context in bhidx_start..bhidx_end before the trigger is tested")
    for name in FORMS:
        f = prog.fn(name)
        ctx.visit(f)
        sy = Sym(f)
        nm = f.short.split("::")[-1]
        H, sw, some, none, order = region(f)
        lv = _level_index(f, sy)
        if len(lv) != 1:
            ctx.ob(RS, "%s: level index (assigned bhidx_start, then itself + 1)" % nm, False, "%d candidates" % len(lv), f.loc())
            continue
        li, me = lv[0]
        CUR = "param:self.0.bh_context[%s]" % me
        NXT = "param:self.0.bh_context[Add(%s,1)]" % me

        def N(c):
            return c.replace(NXT, "NXT").replace(CUR, "CUR")
        byte = None
        stores = []   # (blk, idx, place, value)
        calls = []    # (blk, callee, args)
        for i in sorted(order):
            b = f.blocks[i]
            for j, s in enumerate(b["stmts"]):
                if s["s"] == "assign" and s["lhs"]["p"]:
                    p = canon(strip(sy.place(s["lhs"])))
                    if p.startswith("param:self"):
                        stores.append((i, j, N(p), N(canon(strip(sy.rvalue(s["rv"]))))))
            t = b["term"]
            if t["t"] == "call":
                calls.append((i, callee_of(t), [N(canon(strip(sy.operand(a)))) for a in t["args"]], t))
        # ---- the byte is folded in first ------------------------------------------------------------------------------
        ru = [(i, a) for (i, c, a, t) in calls if c.endswith("RollingHash::update_by_byte")]
        ok = len(ru) == 1 and ru[0][1][0] == "param:self.0.roll_hash"
        ctx.ob(RS, "%s: exactly one rolling-hash update per byte, on self.roll_hash, unconditional" % nm,
               ok and not [a for a in (_norm_cmp(x) for x in _atoms_at(f, sy, ru[0][0])) if not (a[0] == "truth" and a[1].startswith("discr(") and "Iterator>::next(" in a[1] or "Iterator::next(" in a[1])],
               "%s" % [a for _i, a in ru], f.loc())
        if not ok:
            continue
        byte = ru[0][1][1]
        rblk = ru[0][0]
        fnv = [(i, a, t) for (i, c, a, t) in calls if c == FNV + "update_by_byte"]
        per_ctx = [(i, a) for (i, a, t) in fnv if re.search(r"IterMut<'a, T> as core::iter::Iterator>::next\(local:\w+\) as Some\)\.0\.h_(full|half)$", a[0])]
        last = [(i, a) for (i, a, t) in fnv if a[0] == "param:self.0.h_last"]
        other = [a for (i, a, t) in fnv if (i, a) not in per_ctx and (i, a) not in last]
        kinds = sorted(a[0].split(".")[-1] for i, a in per_ctx)
        ok = kinds == ["h_full", "h_half"] and all(a[1] == byte for i, a in per_ctx) and not other
        src_ok = False
        why = "updates: %s" % [a for i, a in per_ctx + last] + (" other: %s" % other if other else "")
        if ok:
            # the iterator walks exactly self.bh_context[bhidx_start..bhidx_end]
            m = re.search(r"next\(local:(\w+?)_(\d+)\)", per_ctx[0][1][0])
            it = int(m.group(2))
            srcs = [canon(strip(sy.rvalue(x) if k == "rv" else sy.call(x, b))) for (b, _i, k, x) in f.defs.get(it, [])]
            src_ok = len(srcs) == 1 and "index_mut(param:self.0.bh_context,core::ops::Range::Range{param:self.0.bhidx_start,param:self.0.bhidx_end})" in srcs[0] \
                and "into_iter(" in srcs[0]
            why = "iterator source %s" % srcs
        ctx.ob(RS, "%s: the byte is folded into h_full and h_half of every context in bh_context[bhidx_start..bhidx_end], and into nothing else" % nm, ok and src_ok, why, f.loc())
        ok = len(last) == 1 and last[0][1][1] == byte
        if ok:
            ats = [_norm_cmp(a) for a in _atoms_at(f, sy, last[0][0])]
            ok = any(a == ("truth", "param:self.0.is_last", True) for a in ats)
        ctx.ob(RS, "%s: the byte is folded into h_last exactly when is_last" % nm, ok, "%s" % last, f.loc())
        # ---- the table of stores ---------------------------------------------------------------------------------------
        rows = {
            "piece": ("CUR.blockhash[CUR.blockhash_index]", FNV + "value(CUR.h_full)"),
            "half": ("CUR.blockhash_ch_half", FNV + "value(CUR.h_half)"),
            "advance": ("CUR.blockhash_index", "Add(CUR.blockhash_index,1)"),
            "full-reset": ("CUR.h_full", FNV + "new()"),
            "half-nil": ("CUR.blockhash_ch_half", NIL),
            "half-reset": ("CUR.h_half", FNV + "new()"),
            "fork-full": ("NXT.h_full", "CUR.h_full"),
            "fork-half": ("NXT.h_half", "CUR.h_half"),
            "fork-end": ("param:self.0.bhidx_end", "Add(param:self.0.bhidx_end,1)"),
            "last-hash": ("param:self.0.h_last", "CUR.h_full"),
            "last-flag": ("param:self.0.is_last", "1"),
        }
        elim = ("param:self.0.bhidx_start", "param:self.0.roll_mask", "param:self.0.elim_border")
        found = {}
        extra = []
        for (i, j, p, v) in stores:
            v2 = re.sub(r"^\((\w+)WithOverflow\((.*)\)\)\.0$", r"\1(\2)", v)
            hit = [k for k, (rp, rvv) in rows.items() if rp == p and rvv == v2]
            if hit:
                found.setdefault(hit[0], []).append((i, j))
            elif p in elim or p == "param:self.0.input_size":
                continue
            else:
                extra.append("%s <- %s" % (p, v[:90]))
        missing = [k for k in rows if len(found.get(k, [])) != 1]
        ctx.ob(RS, "%s: the stores of the per-byte region are exactly the rows of the step table (each once)" % nm, not missing and not extra,
               ("missing/duplicated rows %s; " % missing if missing else "") + ("stores outside the table: %s" % extra if extra else "") or "11 rows + elimination", f.loc())
        if missing or extra:
            continue
        B = {k: found[k][0][0] for k in rows}
        resets = [(i, a) for (i, c, a, t) in calls if c.endswith("BlockHashContext::reset")]
        ok = len(resets) == 1 and resets[0][1] == ["NXT"]
        ctx.ob(RS, "%s: the only reset in the region is of the forked (next) context" % nm, ok, "%s" % resets, f.loc())
        if not ok:
            continue
        B["fork-reset"] = resets[0][0]

        def atoms(k):
            return [(a[0], N(a[1]), N(a[2]) if isinstance(a[2], str) else a[2]) for a in (_norm_cmp(x) for x in _atoms_at(f, sy, B[k]))]

        def has(ats, op, lhs, rhs_pred):
            return any(a[0] == op and a[1] == lhs and rhs_pred(a[2]) for a in ats)
        # guards
        g = {}
        for k in ("fork-reset", "fork-full", "fork-half", "fork-end"):
            ats = atoms(k)
            g[k] = has(ats, "Eq", "CUR.blockhash_index", lambda r: r == "0") and \
                has(ats, "Le", "param:self.0.bhidx_end", lambda r: r == "param:self.0.bhidx_end_limit")
        ctx.ob(RS, "%s: a fork happens only from a context with no piece yet (index == 0) and only while bhidx_end <= bhidx_end_limit" % nm,
               all(g.values()), "%s; conditions at the fork: %s" % (g, atoms("fork-end")[-4:]), f.loc())
        g = {}
        for k in ("last-hash", "last-flag"):
            ats = atoms(k)
            g[k] = has(ats, "Eq", "CUR.blockhash_index", lambda r: r == "0") and \
                has(ats, "Gt", "param:self.0.bhidx_end", lambda r: r == "param:self.0.bhidx_end_limit") and \
                has(ats, "Eq", "param:self.0.bhidx_end_limit", lambda r: r.startswith("Sub(internals::hash::block::block_size::NUM_VALID=31,1")) and \
                any(a == ("truth", "param:self.0.is_last", False) for a in ats)
        ctx.ob(RS, "%s: the last-piece hash is started only at a first piece beyond the fork limit, at the largest block size, once (is_last false)" % nm,
               all(g.values()), "%s; conditions: %s" % (g, atoms("last-flag")[-5:]), f.loc())
        g = {}
        for k in ("advance", "full-reset"):
            g[k] = has(atoms(k), "Lt", "CUR.blockhash_index", lambda r: r.startswith(FULL1))
        ctx.ob(RS, "%s: index += 1 and full hash := initial happen only while index < FULL_SIZE-1" % nm, all(g.values()), "%s" % g, f.loc())
        g = {}
        for k in ("half-nil", "half-reset"):
            ats = atoms(k)
            g[k] = has(ats, "Lt", "CUR.blockhash_index", lambda r: r == HALF) and has(ats, "Lt", "CUR.blockhash_index", lambda r: r.startswith(FULL1))
        ctx.ob(RS, "%s: half char := NIL and half hash := initial happen only while the index < HALF_SIZE" % nm, all(g.values()), "%s" % g, f.loc())
        # that HALF_SIZE test reads the index after the increment
        adv_b, adv_j = found["advance"][0]
        cmp_after = False
        for i, j, s in f.stmts():
            if s["s"] == "assign" and s["rv"]["r"] == "bin" and s["rv"]["op"] == "Lt":
                e = strip(sy.rvalue(s["rv"]))
                if N(canon(strip(e[2]))) == "CUR.blockhash_index" and canon(strip(e[3])) == HALF and i in order:
                    # where is the index read for this comparison?
                    a = s["rv"]["a"]
                    rb, rj = i, j
                    if a["k"] in ("copy", "move") and not a["pl"]["p"]:
                        ds = f.defs.get(a["pl"]["l"], [])
                        if len(ds) == 1:
                            rb, rj = ds[0][0], ds[0][1]
                    cmp_after = (rb == adv_b and rj > adv_j) or (rb != adv_b and f.dominates(adv_b, rb))
        ctx.ob(RS, "%s: the HALF_SIZE test reads the index after it was advanced" % nm, cmp_after, "advance at bb%d[%d]" % (adv_b, adv_j), f.loc())
        # the piece and the half char are unconditional within a level: their guards are those of the level body
        lvl = [a for a in atoms("piece")]
        # (debug builds: the array-bound belief `index < FULL_SIZE` whose other arm panics is not a condition of the step)
        unc = [a for a in lvl if "blockhash_index" in a[1] and a != ("Lt", "CUR.blockhash_index", "internals::hash::block::block_hash::FULL_SIZE=64")]
        ctx.ob(RS, "%s: every level reached stores its piece and half char (no condition on the piece index)" % nm, not unc and atoms("half") == lvl,
               "conditions mentioning the index: %s" % unc, f.loc())
        # ---- what the step may depend on ------------------------------------------------------------------------------------
        # conditions on the way to any row mention only: the trigger value and its level variable, the level index, piece indices of
        # the current/next context, bhidx_start/bhidx_end/bhidx_end_limit, roll_mask, is_last, and - in the elimination border test
        # only - elim_border against fixed_size.unwrap_or(input_size)
        hl = [l for l in range(f.argc + 1, len(f.locals)) if any(k == "rv" and canon(strip(sy.rvalue(x))).startswith("Div(core::num::<impl u32>::wrapping_add(internals::generate::hashes::rolling_hash::RollingHash::value(param:self.0.roll_hash),1),")
                                                                  for (_b, _i, k, x) in f.defs.get(l, []))]
        ok_locals = set(hl) | {li}
        odd = []
        for k in sorted(B):
            for a in atoms(k):
                txt = "%s %s" % (a[1], a[2])
                if a[0] == "truth" and a[1].startswith("discr(") and "Iterator" in a[1]:
                    continue
                flds = set(re.findall(r"param:self\.0\.(\w+)", txt)) | ({"bh_context"} if ("CUR" in txt or "NXT" in txt) else set())
                locs = set(int(n) for _nm, n in re.findall(r"local:(\w+?)_(\d+)(?!\w)", txt))
                if flds & {"input_size", "fixed_size"} and not (a[0] == "Lt" and a[1] == "param:self.0.elim_border" and
                                                                  a[2] == "core::option::Option::<T>::unwrap_or(param:self.0.fixed_size,param:self.0.input_size)"):
                    odd.append("%s: %s" % (k, a))
                elif flds - {"roll_hash", "roll_mask", "bh_context", "bhidx_end", "bhidx_start", "bhidx_end_limit", "is_last", "elim_border", "fixed_size", "input_size"}:
                    odd.append("%s: %s" % (k, a))
                elif locs - ok_locals:
                    odd.append("%s: %s" % (k, a))
                elif re.search(r"param:(?!self\b)\w+", txt):
                    odd.append("%s: %s" % (k, a))
        ctx.ob(RS, "%s: the step's conditions depend only on the trigger value, the level, piece indices, the active range / fork limit, roll_mask and is_last (sizes only in the elimination border test)" % nm,
               not odd, "; ".join(sorted(set(odd)))[:400] or "conditions of %d rows inspected" % len(B), f.loc())
        # ---- orderings ---------------------------------------------------------------------------------------------------
        inc = [b for (b, _i, k, x) in f.defs.get(li, []) if canon(strip(sy.rvalue(x))) != "param:self.0.bhidx_start"]
        avoid = set(inc) | {H}
        bad = []
        if not (f.dominates(B["piece"], B["advance"]) and f.dominates(B["piece"], B["full-reset"])):
            bad.append("piece is not taken before index/full-hash are changed")
        if not (f.dominates(B["half"], B["half-reset"]) and f.dominates(B["half"], B["half-nil"])):
            bad.append("half char is not taken before the half hash is reset")
        if not f.dominates(B["advance"], B["half-nil"]):
            bad.append("half reset not after the advance")
        for k in ("fork-full", "fork-half", "fork-reset", "last-hash"):
            for r in ("full-reset", "half-reset", "advance", "piece"):
                if B[k] in f.reach_from(B[r], avoid=avoid):
                    bad.append("%s reachable after %s within one level" % (k, r))
        if not (f.dominates(B["fork-reset"], B["fork-full"]) and f.dominates(B["fork-reset"], B["fork-half"])):
            bad.append("forked context is reset after its hashes were copied")
        # running hashes include the current byte: every per-context update precedes the piece
        exit_loop = [i for (i, c, a, t) in calls if c.endswith("RollingHash::value")]
        if len(exit_loop) != 1 or not f.dominates(exit_loop[0], B["piece"]) or not f.dominates(rblk, exit_loop[0]):
            bad.append("rolling value is not read between the rolling update and the piece")
        else:
            for i, a in per_ctx:
                if i in f.reach_from(exit_loop[0], avoid={H}):
                    bad.append("a context is updated with the byte after the trigger was evaluated")
            # the FNV walk lies on every path from the byte to the trigger test
            itn = [i for (i, c, a, t) in calls if c.endswith("IterMut<'a, T> as core::iter::Iterator>::next")]
            if len(itn) != 1 or not f.dominates(itn[0], exit_loop[0]):
                bad.append("the context walk does not dominate the trigger test")
        ctx.ob(RS, "%s: orderings - piece/half char taken before their hashes are reset; fork and last-hash copy the running hash before the same level resets it; all contexts are updated with the byte before the trigger test" % nm,
               not bad, "; ".join(bad) or "dominance/reachability facts hold", f.loc())


# ---- digest assembly --------------------------------------------------------------------------------------------------

def digest_last_piece(ctx, prog):
    """finalize_raw_internal: how many stored pieces are taken, and where the unfinished last piece comes from"""
    ctx.rule(RS, "digest assembly: the number of stored pieces taken from a context is its piece index, +1 exactly when its last slot is "
             "occupied (or HALF_SIZE when the half char is set, in the truncated form); bulk copies use the same range on both sides; the "
             "unfinished piece is appended exactly when the rolling value is non-zero, from h_full of context L (block hash 1), h_half "
             "(truncated) or h_full (non-truncated) of context L+1 (block hash 2), or - when context L+1 does not exist - h_full of "
             "context 0 / the dedicated last-piece hash; with a zero rolling value the truncated form ends with the stored half char")
    f = prog.fn("Generator::finalize_raw_internal")
    ctx.visit(f)
    sy = Sym(f)
    L = "internals::generate::Generator::guess_output_log_block_size(param:self)"
    C0 = "param:self.0.bh_context[%s]" % L
    C1 = "param:self.0.bh_context[Add(%s,1)]" % L
    ROLL = "internals::generate::hashes::rolling_hash::RollingHash::value(param:self.0.roll_hash)"

    def N(c):
        return c.replace(C1, "C1").replace(C0, "C0").replace(ROLL, "ROLL").replace(L, "L")

    def atoms(blk):
        out = []
        for a in _atoms_at(f, sy, blk):
            a = _norm_cmp(a)
            out.append((a[0], N(a[1]), N(a[2]) if isinstance(a[2], str) else a[2]))
        return out
    # size locals
    sizes = {}
    for l in range(f.argc + 1, len(f.locals)):
        ds = f.defs.get(l, [])
        vals = [(blk, N(canon(strip(sy.rvalue(x) if k == "rv" else sy.call(x, blk))))) for (blk, _i, k, x) in ds]
        base = [v for b, v in vals if v in ("C0.blockhash_index", "C1.blockhash_index")]
        if len(base) == 1 and len(vals) >= 2:
            sizes[l] = (base[0][:2], vals)
    ok = sorted(c for c, v in sizes.values()) == ["C0", "C1", "C1"]
    ctx.ob(RS, "finalize: three piece counters (one for block hash 1 from context L, two for block hash 2 from context L+1)", ok,
           "%s" % {f.locals[l]["name"] + "_%d" % l: c for l, (c, v) in sizes.items()}, f.loc())
    if not ok:
        return
    bad = []
    trunc_sz = None
    for l, (c, vals) in sizes.items():
        me = "local:%s_%d" % (f.locals[l]["name"], l)
        for blk, v in vals:
            ats = atoms(blk)
            v = re.sub(r"^\((\w+)WithOverflow\((.*)\)\)\.0$", r"\1(\2)", v)
            if v == c + ".blockhash_index":
                continue
            if v == HALF:
                trunc_sz = l
                if not (("Ne", c + ".blockhash_ch_half", NIL) in ats and ("truth", "param:truncate", True) in ats):
                    bad.append("%s := HALF_SIZE without `half char set` and `truncate`" % me)
                continue
            if v == "Add(%s,1)" % me:
                slot = ("Ne", "%s.blockhash[%s)]" % (c, FULL1), NIL)
                rollnz = ("Ne", "ROLL", "0")
                if slot in ats or (rollnz in ats and ("truth", "param:truncate", True) in ats and ("Eq", c + ".blockhash_ch_half", NIL) in ats):
                    continue
                bad.append("%s += 1 under %s" % (me, ats[-3:]))
                continue
            bad.append("%s := %s" % (me, v[:80]))
    ctx.ob(RS, "finalize: a piece counter is the context's piece index, +1 exactly when the last slot is occupied (HALF_SIZE when the half char is set / +1 for the appended piece, truncated form)",
           not bad and trunc_sz is not None, "; ".join(bad) or "counters %s" % sorted(sizes), f.loc())
    # bulk copies
    bad = []
    n = 0
    for i, t in f.calls():
        if not callee_of(t).endswith("clone_from_slice") and not callee_of(t).endswith("copy_from_slice"):
            continue
        d, s = (N(canon(strip(sy.operand(a)))) for a in t["args"][:2])
        # `..n` is `0..n`
        d, s = (re.sub(r"core::ops::RangeTo::RangeTo\{", "core::ops::Range::Range{0,", x) for x in (d, s))
        md = re.search(r"index_mut\(local:\w+\.blockhash([12]),core::ops::Range::Range\{(.*)\}\)$", d)
        ms = re.search(r"index\((C[01])\.blockhash,core::ops::Range::Range\{(.*)\}\)$", s)
        n += 1
        if not md or not ms:
            bad.append("copy %s <- %s" % (d[:80], s[:80]))
            continue
        if md.group(2) != ms.group(2) or not md.group(2).startswith("0,"):
            bad.append("blockhash%s[%s] <- %s.blockhash[%s]" % (md.group(1), md.group(2), ms.group(1), ms.group(2)))
        if (md.group(1), ms.group(1)) not in (("1", "C0"), ("2", "C1")):
            bad.append("blockhash%s copied from %s" % (md.group(1), ms.group(1)))
    ctx.ob(RS, "finalize: stored pieces are copied with the same range 0..n on both sides, block hash 1 from context L and block hash 2 from context L+1",
           not bad and n == 4, "; ".join(bad) or "%d bulk copies" % n, f.loc())
    # single-symbol stores
    rows = {}
    row_ats = []
    bad = []
    for i, j, s in f.stmts():
        if s["s"] != "assign" or not s["lhs"]["p"]:
            continue
        p = N(canon(strip(sy.place(s["lhs"]))))
        m = re.match(r"local:\w+\.blockhash([12])\[(.*)\]$", p)
        if not m:
            continue
        k, idx = m.group(1), m.group(2)
        src = strip(sy.rvalue(s["rv"]))
        alts = []
        if src[0] == "local" and len(f.defs.get(src[1], [])) > 1:
            for (blk, _i, kind, x) in f.defs[src[1]]:
                alts.append((N(canon(strip(sy.rvalue(x) if kind == "rv" else sy.call(x, blk)))), atoms(blk)))
        else:
            alts.append((N(canon(src)), atoms(i)))
        for v, ats in alts:
            fall = ("Ge", "L", "Sub(param:self.0.bhidx_end,1)") in ats
            normal = ("Lt", "L", "Sub(param:self.0.bhidx_end,1)") in ats
            tr = ("truth", "param:truncate", True) in ats
            ntr = ("truth", "param:truncate", False) in ats
            rnz = ("Ne", "ROLL", "0") in ats
            rz = ("Eq", "ROLL", "0") in ats
            if v.startswith(FNV + "value("):
                x = v[len(FNV) + 6:-1]
                if not rnz:
                    bad.append("blockhash%s[%s] <- value(%s) without `rolling value != 0`" % (k, idx, x))
                    continue
                if k == "1" and x == "C0.h_full":
                    rows.setdefault("bh1 <- L.h_full", []).append(idx); row_ats.append((idx, ats))
                elif k == "2" and normal and tr and x == "C1.h_half":
                    rows.setdefault("bh2 (truncated) <- (L+1).h_half", []).append(idx)
                elif k == "2" and normal and ntr and x == "C1.h_full":
                    rows.setdefault("bh2 (not truncated) <- (L+1).h_full", []).append(idx); row_ats.append((idx, ats))
                elif k == "2" and fall and x == "C0.h_full" and ("Eq", "L", "0") in ats and idx == "0":
                    rows.setdefault("bh2 (no next context, L = 0) <- L.h_full", []).append(idx)
                elif k == "2" and fall and x == "param:self.0.h_last" and ("Ne", "L", "0") in ats and idx == "0":
                    rows.setdefault("bh2 (no next context, L > 0) <- h_last", []).append(idx)
                else:
                    bad.append("blockhash%s[%s] <- value(%s) under %s" % (k, idx, x, [a for a in ats if a[0] == "truth" or a[1] == "L"]))
            elif v == "C1.blockhash_ch_half":
                if k == "2" and normal and tr and rz and ("Ne", "C1.blockhash_ch_half", NIL) in ats:
                    rows.setdefault("bh2 (truncated, zero rolling value) <- stored half char", []).append(idx)
                else:
                    bad.append("blockhash%s[%s] <- stored half char under %s" % (k, idx, ats[-4:]))
            else:
                bad.append("blockhash%s[%s] <- %s" % (k, idx, v[:80]))
    want = ["bh1 <- L.h_full", "bh2 (truncated) <- (L+1).h_half", "bh2 (not truncated) <- (L+1).h_full", "bh2 (no next context, L = 0) <- L.h_full",
            "bh2 (no next context, L > 0) <- h_last", "bh2 (truncated, zero rolling value) <- stored half char"]
    missing = [w for w in want if w not in rows]
    ctx.ob(RS, "finalize: the unfinished piece is appended exactly under `rolling value != 0` and comes from the running hash the mode prescribes (6 rows)",
           not bad and not missing, "; ".join(bad + ["missing row: " + m for m in missing]) or "%s" % {k: len(v) for k, v in rows.items()}, f.loc())
    # positions: the appended piece goes to slot n (n the piece counter) or, when the counter is already FULL_SIZE, replaces the last slot;
    # in the truncated form with the half char set it goes to slot HALF_SIZE-1
    badp = []
    for r, idxs in rows.items():
        for idx in idxs:
            m = re.match(r"local:\w+_(\d+)$", idx)
            if m and int(m.group(1)) in sizes:
                want_c = "C0" if r.startswith("bh1") else "C1"
                if sizes[int(m.group(1))][0] != want_c:
                    badp.append("%s at counter of %s" % (r, sizes[int(m.group(1))][0]))
                continue
            m = re.match(r"Sub\(local:\w+_(\d+),1\)$", idx)
            if m and int(m.group(1)) == trunc_sz:
                continue
            if idx.startswith(FULL1) or idx == "0":
                continue
            badp.append("%s at [%s]" % (r, idx))
    # non-truncated long form: the last slot is REPLACED exactly when the counter has reached FULL_SIZE, the piece is APPENDED at the counter
    # otherwise (the test the other way round overwrites a stored piece of a shorter hash and writes past the end of a full one)
    for idx, ats in row_ats:
        cmpf = [a for a in ats if a[0] in ("Eq", "Ne", "Lt", "Ge") and (str(a[2]).endswith("FULL_SIZE=64") or str(a[2]) == "64") and str(a[1]).startswith("local:")]
        if idx.startswith(FULL1):
            if not any(a[0] == "Eq" for a in cmpf):
                badp.append("last slot replaced without `counter == FULL_SIZE`: %s" % cmpf)
        elif re.match(r"local:\w+_(\d+)$", idx) and cmpf:
            if not all(a[0] in ("Ne", "Lt") for a in cmpf):
                badp.append("piece appended at the counter under %s" % cmpf)
    ctx.ob(RS, "finalize: the appended piece is written at the piece counter of its own context (or replaces slot FULL_SIZE-1 / HALF_SIZE-1 when the counter is at capacity)",
           not badp, "; ".join(badp) or "positions %s" % sorted(set(i for v in rows.values() for i in v)), f.loc())
    # what the digest may depend on
    odd = []
    for i, j, s in f.stmts():
        if s["s"] != "assign" or not s["lhs"]["p"]:
            continue
        p = N(canon(strip(sy.place(s["lhs"]))))
        if not re.match(r"local:\w+\.(blockhash[12]\[|len_blockhash[12]$|log_blocksize$)", p):
            continue
        for a in atoms(i):
            txt = "%s %s" % (a[1], a[2])
            flds = set(re.findall(r"param:self\.0\.(\w+)", txt))
            locs = set(int(n) for _nm, n in re.findall(r"local:(\w+?)_(\d+)(?!\w)", txt))
            fz = set(int(n) for _nm, n in re.findall(r"local:(\w+?)_(\d+)\.(?:blockhash|len_blockhash)", txt))
            if "input_size" in flds and not ("MAX_INPUT_SIZE" in txt or "fixed_size" in txt):
                odd.append("%s under %s" % (p[:40], a))
            elif flds - {"input_size", "fixed_size", "bhidx_end", "bh_context"}:
                odd.append("%s under %s" % (p[:40], a))
            elif (locs - fz) - set(sizes):
                odd.append("%s under %s" % (p[:40], a))
            elif set(re.findall(r"param:(?!self\b)(\w+)", txt)) - {"truncate"}:
                odd.append("%s under %s" % (p[:40], a))
    ctx.ob(RS, "finalize: what is written depends only on the block-size guess L, the rolling value, the piece counters, the half char / last slot of the chosen contexts, bhidx_end, the truncation flag and the output form (sizes only in the two refusals)",
           not odd, "; ".join(sorted(set(odd)))[:400] or "conditions of all output stores inspected", f.loc())
    # lengths
    badl = []
    nlen = 0
    kinds = {}
    for i, j, s in f.stmts():
        if s["s"] != "assign" or not s["lhs"]["p"]:
            continue
        p = N(canon(strip(sy.place(s["lhs"]))))
        m = re.match(r"local:\w+\.len_blockhash([12])$", p)
        if not m:
            continue
        nlen += 1
        k = m.group(1)
        v = re.sub(r"^\((\w+)WithOverflow\((.*)\)\)\.0$", r"\1(\2)", N(canon(strip(sy.rvalue(s["rv"])))))
        ats = atoms(i)
        # stores under exactly the same conditions (the same straight-line arm; debug builds split it at overflow checks)
        same_block = [N(canon(strip(sy.place(x["lhs"])))) for (bi, bj, x) in f.stmts()
                      if x["s"] == "assign" and x["lhs"]["p"] and (bi == i or (atoms(bi) == ats and (f.dominates(bi, i) or f.dominates(i, bi))))]
        mm = re.match(r"local:\w+_(\d+)$", v)
        if mm and int(mm.group(1)) in sizes:
            kinds.setdefault(k, []).append("counter")
            if sizes[int(mm.group(1))][0] != ("C0" if k == "1" else "C1"):
                badl.append("len_blockhash%s := counter of %s" % (k, sizes[int(mm.group(1))][0]))
            continue
        kinds.setdefault(k, []).append("+1" if v == "Add(%s,1)" % p else v[:12])
        if v == "Add(%s,1)" % p:
            if not any(re.match(r"local:\w+\.blockhash%s\[local:\w+_\d+\]$" % k, q) for q in same_block) or ("Ne", "ROLL", "0") not in ats:
                badl.append("len_blockhash%s += 1 without an appended piece in the same block" % k)
            continue
        if v == "1":
            if not any(re.match(r"local:\w+\.blockhash%s\[0\]$" % k, q) for q in same_block):
                badl.append("len_blockhash%s := 1 without a piece at [0]" % k)
            continue
        if v == "0":
            if not (("Eq", "ROLL", "0") in ats and ("Ge", "L", "Sub(param:self.0.bhidx_end,1)") in ats):
                badl.append("len_blockhash%s := 0 under %s" % (k, ats[-3:]))
            continue
        badl.append("len_blockhash%s := %s" % (k, v[:80]))
    ctx.ob(RS, "finalize: every stored length is the piece counter of the matching context, +1 together with an appended piece, 1 together with a piece at [0], or 0 when there is neither a next context nor a rolling value",
           not badl and nlen >= 8, "; ".join(badl) or "%d length stores" % nlen, f.loc())
    # ... and none is missing: block hash 1 gets its counter and one `+1`; block hash 2 gets its counter on the two bulk-copy routes, `+1`
    # on the two appending routes that store the length first, `1` on the two single-piece routes and `0` on the empty one; the three piece
    # counters that count the occupied last slot in are each advanced once
    want_k = {"1": ["+1", "counter"], "2": ["+1", "+1", "0", "1", "1", "counter", "counter"]}
    got_k = {k: sorted(v) for k, v in kinds.items()}
    incs = 0
    for i, j, s in f.stmts():
        if s["s"] == "assign" and not s["lhs"]["p"] and s["lhs"]["l"] in sizes:
            v = re.sub(r"^\((\w+)WithOverflow\((.*)\)\)\.0$", r"\1(\2)", canon(strip(sy.rvalue(s["rv"]))))
            me = "local:%s_%d" % (f.locals[s["lhs"]["l"]]["name"] or "", s["lhs"]["l"])
            if v == "Add(%s,1)" % me:
                incs += 1
    ctx.ob(RS, "finalize: the set of length stores is complete (2 for block hash 1, 7 for block hash 2) and each of the three piece counters is advanced once for an occupied last slot / appended piece",
           got_k == {k: sorted(v) for k, v in want_k.items()} and incs == 3, "length stores %s; counter advances %d" % (got_k, incs), f.loc())


def initial_state(ctx, prog):
    """the state the engine starts from (Generator::new / BlockHashContext::new); reset is tied to it by SA-FIELDS reset==new"""
    from .generator import ctor_fields
    R = "SA-FORMULA"
    ctx.rule(R, "initial engine state: one active context (bhidx_start = 0, bhidx_end = 1), no fork limit below the largest block size, "
             "roll_mask = 0, elimination border = the preferred maximum size of block size index 0 (MIN * FULL_SIZE), rolling hash and all "
             "FNV states initial, no last-piece hash; an empty context has index 0, every slot and the half char NIL")
    g = prog.fn("generate::Generator::new")
    c = prog.fn("generate::BlockHashContext::new")
    ctx.visit(g)
    ctx.visit(c)
    gf = ctor_fields(g)
    cf = ctor_fields(c)
    want_g = {
        "input_size": "0", "fixed_size": "core::option::Option::None{}",
        "elim_border": "internals::generate::Generator::guessed_preferred_max_input_size_at(0)",
        "bhidx_start": "0", "bhidx_end": "1", "bhidx_end_limit": "Sub(internals::hash::block::block_size::NUM_VALID=31,1)",
        "roll_mask": "0", "roll_hash": "internals::generate::hashes::rolling_hash::RollingHash::new()",
        "bh_context": "[internals::generate::BlockHashContext::new();31]",
        "h_last": FNV + "new()", "is_last": "0",
    }
    for k, v in want_g.items():
        got = gf.get(("0", k))
        ctx.ob(R, "Generator::new: %s = %s" % (k, v.split("::")[-1] if "(" not in v else v.split("internals::")[-1]), got == v, "got %s" % got, g.loc())
    want_c = {"blockhash_index": "0", "blockhash": "[%s;64]" % NIL, "blockhash_ch_half": NIL, "h_full": FNV + "new()", "h_half": FNV + "new()"}
    for k, v in want_c.items():
        got = cf.get((k,))
        ctx.ob(R, "BlockHashContext::new: %s = %s" % (k, v.split("::")[-1]), got == v, "got %s" % got, c.loc())
    # the elimination border unit
    u = prog.fn("Generator::guessed_preferred_max_input_size_at")
    ctx.visit(u)
    su = Sym(u)
    rets = [canon(strip(su.rvalue(s["rv"]))) for i, j, s in u.stmts() if s["s"] == "assign" and s["lhs"]["l"] == 0 and not s["lhs"]["p"]]
    rets = [re.sub(r"^\((\w+)WithOverflow\((.*)\)\)\.0$", r"\1(\2)", r) for r in rets]
    rets = [re.sub(r"\((\S+?) as u64\)", r"\1", r) for r in rets]
    ok = rets == ["Mul(internals::hash::block::block_size::from_log_internal_const(param:log_block_size),internals::hash::block::block_hash::FULL_SIZE=64)"]
    ctx.ob(R, "guessed_preferred_max_input_size_at(n) = block_size(n) * FULL_SIZE", ok, "%s" % rets, u.loc())
