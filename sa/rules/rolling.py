"""Rolling hash step and value as formulas over the entry state (forward value numbering), C19."""
from ..vn import Forward
from ..sym import Sym, show, canon, match, strip, const_value, path_conds, bool_atom
from ..mir import pl

R = "SA-FORMULA"


def step_shape(ctx, prog):
    ctx.rule(R, "the returned expression tree (single-assignment temporaries expanded, casts ignored, commutative operands unordered) equals the documented formula; for state-updating steps the final value of every field is obtained by forward value numbering over the loop-free body and compared with the definition")
    f = prog.fn("RollingHash::update_by_byte")
    ctx.visit(f)
    M, L = Forward(f).final_memory()
    W = ("named", "rolling_hash::ROLLING_WINDOW", 7)
    ch = ("param", "ch")
    win_at_idx = ("init", "self.window[(init:self.index as usize)]")
    want = {
        "self.h2": ("call", "wrapping_add", [("call", "wrapping_sub", [("init", "self.h2"), ("init", "self.h1")]), ("call", "wrapping_mul", [W, ch], "comm")]),
        "self.h1": ("call", "wrapping_sub", [("call", "wrapping_add", [("init", "self.h1"), ch]), win_at_idx]),
        "self.h3": ("bin", "BitXor", ("bin", "Shl", ("init", "self.h3"), ("named", "RollingHash::H3_LSHIFT", 5)), ch),
        "self.window[(init:self.index as usize)]": ch,
    }
    for k, pat in want.items():
        v = M.get(k)
        ok = v is not None and match(v, pat)
        ctx.ob(R, "RollingHash::update_by_byte: new %s follows the ssdeep step" % k.split("[")[0], ok, "%s = %s" % (k, show(v) if v else None), f.loc())
    extra = sorted(set(M) - set(want) - {"self.index"})
    ctx.ob(R, "RollingHash::update_by_byte writes only h1, h2, h3, window[index], index", not extra, "other locations: %s" % extra, f.loc())
    # index: +1, wrapped to 0 exactly when it reaches the window size
    v = M.get("self.index")
    ok = v is not None and v[0] == "phi" and len(v[3]) == 2
    why = show(v) if v else "None"
    if ok:
        vals = sorted(v[3], key=lambda x: x[0] != "const")
        ok = const_value(vals[0]) == 0 and match(vals[1], ("bin", "Add", ("init", "self.index"), ("v", 1)))
        # the zero store is controlled by (index + 1) == ROLLING_WINDOW
        sy = Sym(f)
        zb = [i for i, j, s in f.stmts() if s["s"] == "assign" and pl(s["lhs"]).endswith(".index") and const_value(sy.rvalue(s["rv"])) == 0]
        ok = ok and len(zb) == 1
        if ok:
            ats = [bool_atom(c) for c in path_conds(f, sy, zb[0])]
            ok = any(a and a[0] == "Eq" and strip(a[2])[0] == "const" and strip(a[2])[1] == 7 and canon(strip(a[1])).endswith("self.index") for a in ats)
            why += "; wrap guarded by %s" % [canon(strip(a[1])) + " == 7" for a in ats if a and a[0] == "Eq"]
    ctx.ob(R, "RollingHash::update_by_byte: index = (index + 1) mod WINDOW_SIZE (reset to 0 exactly when it reaches 7)", ok, why, f.loc())
    g = prog.fn("RollingHash::value")
    ctx.visit(g)
    e = Sym(g).local(0)
    pat = ("call", "wrapping_add", [("call", "wrapping_add", [("path", "self", ("h1",)), ("path", "self", ("h2",))], "comm"), ("path", "self", ("h3",))], "comm")
    ctx.ob(R, "RollingHash::value = h1 + h2 + h3 (wrapping)", match(e, pat), show(e), g.loc())
    n = prog.fn("RollingHash::new")
    e = Sym(n).local(0)
    ok = e[0] == "agg" and all((const_value(x) == 0) or (strip(x)[0] == "repeat" and const_value(strip(x)[1]) == 0) for x in e[2])
    ctx.ob(R, "RollingHash::new() is the all-zero state", ok, show(e)[:120], n.loc())
    c = prog.const("rolling_hash::ROLLING_WINDOW")
    ctx.ob("SA-DATA", "ROLLING_WINDOW == 7, H3_LSHIFT == 5 (7 shifts of 5 bits push a byte out of 32 bits)", int(c["v"]) == 7 and int(prog.const("RollingHash::H3_LSHIFT")["v"]) == 5 and 7 * 5 >= 32, "")
