"""Normalisation rules (C06): the independent run-collapsers / checkers agree on the run limit."""
import re
from ..sym import Sym, strip, show, canon, const_named, const_value, is_param, fpath
from ..mir import callee_of, pl

R = "SA-SIBLING"
FUNCS = [
    ("hash::algorithms::normalize_block_hash_in_place_internal", "collapser"),
    ("hash::algorithms::parse_block_hash_from_bytes", "collapser"),
    ("hash_dual::algorithms::compress_block_hash_with_rle", "collapser"),
    ("hash::algorithms::verify_block_hash_internal", "checker"),
]


def run_limit_agreement(ctx, prog):
    ctx.rule(R, "sibling agreement: every independent implementation of run collapsing / run checking compares the same kind of counter (reset to 0 on a symbol change, +1 on a repeat) against the same named constant MAX_SEQUENCE_SIZE with the same strictness (counter >= MAX after the increment, i.e. run length > MAX)")
    seen = []
    for suffix, role in FUNCS:
        f = prog.fn(suffix)
        ctx.visit(f)
        sy = Sym(f)
        cmps = []
        for i, j, s in f.stmts():
            if s["s"] != "assign" or s["rv"]["r"] != "bin" or s["rv"]["op"] not in ("Lt", "Le", "Gt", "Ge", "Eq", "Ne"):
                continue
            a, b = s["rv"]["a"], s["rv"]["b"]
            ea, eb = sy.operand(a), sy.operand(b)
            op = s["rv"]["op"]
            if const_named(eb, "block_hash::MAX_SEQUENCE_SIZE"):
                cmps.append((op, ea, i, j, s))
            elif const_named(ea, "block_hash::MAX_SEQUENCE_SIZE"):
                flip = {"Lt": "Gt", "Le": "Ge", "Gt": "Lt", "Ge": "Le", "Eq": "Eq", "Ne": "Ne"}[op]
                cmps.append((flip, eb, i, j, s))
        limit = [c for c in cmps if c[0] == "Ge"]
        other = [c for c in cmps if c[0] not in ("Ge", "Eq")]
        ok = len(limit) >= 1 and not other
        why = "comparisons against MAX_SEQUENCE_SIZE: %s" % [(c[0], show(c[1])) for c in cmps]
        # the compared counter: a local that is only assigned 0, MAX_SEQUENCE_SIZE (saturation) or itself + 1, and the first
        # limit test directly follows an increment in the same block
        if ok:
            op, e, i, j, s = limit[0]
            e = strip(e)
            ok = e[0] == "local"
            if ok:
                l = e[1]
                for (blk, idx, kind, x) in f.defs.get(l, []):
                    if kind != "rv":
                        ok = False
                        break
                    v = sy.rvalue(x)
                    if const_value(v) == 0 and not const_named(v, "block_hash::MAX_SEQUENCE_SIZE"):
                        continue
                    if const_named(v, "block_hash::MAX_SEQUENCE_SIZE"):
                        continue
                    if v[0] == "bin" and v[1] == "Add" and v[2] == ("local", l, f.locals[l]["name"]) and const_value(v[3]) == 1:
                        continue
                    if v[0] == "agg" and v[1] == "Tuple":  # checked add in debug builds
                        continue
                    if v[0] == "local":
                        continue
                    ok = False
                    why += "; counter assigned %s" % show(v)
                # the counter cannot wrap: it is pointer-sized (bounded by the input length) or saturated at the limit
                saturated = any(kind == "rv" and const_named(sy.rvalue(x), "block_hash::MAX_SEQUENCE_SIZE") for (blk, idx, kind, x) in f.defs.get(l, []))
                wide = f.locals[l]["ty"] in ("usize", "u64")
                if not (wide or saturated):
                    ok = False
                    why += "; counter type %s can wrap on long runs and is not saturated at the limit" % f.locals[l]["ty"]
                incr_before = False
                for (_op, _e, bi, bj, _s) in limit:
                    if strip(_e) != e:
                        continue
                    if any(st["s"] == "assign" and st["lhs"]["l"] == l and not st["lhs"]["p"] for st in f.blocks[bi]["stmts"][:bj]) or \
                            any(st["s"] == "assign" and st["lhs"]["l"] == l for p in f.preds.get(bi, []) for st in f.blocks[p]["stmts"]):
                        incr_before = True
                ok = ok and incr_before
                if not incr_before:
                    why += "; limit test does not follow the increment"
        ctx.ob(R, "%s (%s): run counter tested as `counter >= MAX_SEQUENCE_SIZE` right after `counter += 1`" % (f.short, role), ok, why, f.loc())
        seen.append(suffix)
        # the "previous symbol" the detector starts with is no symbol: otherwise a block hash that begins with that very
        # symbol has its first character counted as a repetition
        alpha = int(prog.const("block_hash::ALPHABET_SIZE")["v"])
        prevs = []
        for l, ds in f.defs.items():
            if f.locals[l]["ty"] != "u8" or len(ds) < 2 or any(kind != "rv" for (_b, _i, kind, _x) in ds):
                continue
            vals = [sy.rvalue(x) for (_b, _i, _k, x) in ds]
            consts = [v for v in vals if v[0] == "const" and const_value(v) is not None]
            if len(consts) != 1 or len(consts) == len(vals):
                continue
            me = ("local", l, f.locals[l]["name"])
            compared = any(st["s"] == "assign" and st["rv"]["r"] == "bin" and st["rv"]["op"] in ("Eq", "Ne") and
                           any(strip(sy.operand(o)) == me for o in (st["rv"]["a"], st["rv"]["b"]))
                           for _i, _j, st in f.stmts())
            if compared:
                prevs.append((l, const_value(consts[0])))
        okp = len(prevs) == 1 and prevs[0][1] >= alpha
        ctx.ob(R, "%s (%s): the initial `previous symbol` of the run detector is outside the alphabet (>= ALPHABET_SIZE)" % (f.short, role), okp,
               "candidates (local, initial value): %s; ALPHABET_SIZE = %d" % ([(f.locals[l]["name"], v) for l, v in prevs], alpha), f.loc())
    ctx.floor(R, len(seen), 4, "run collapsers / checkers")
    c = prog.const("block_hash::MAX_SEQUENCE_SIZE")
    ctx.ob("SA-DATA", "MAX_SEQUENCE_SIZE == 3", int(c["v"]) == 3, "value %s" % c["v"])


def is_normalized_both(ctx, prog):
    f = prog.fn("FuzzyHashData::<S1, S2, NORM>::is_normalized")
    ctx.visit(f)
    sy = Sym(f)
    cs = [(i, t) for i, t in f.calls() if callee_of(t).endswith("algorithms::verify_block_hash_current")]
    pairs = []
    for i, t in cs:
        a0, a1 = fpath(sy.operand(t["args"][0]))[1], fpath(sy.operand(t["args"][1]))[1]
        pairs.append((a0[-1] if a0 else "?", a1[-1] if a1 else "?", t["gargs"][0]))
    ok = sorted(pairs) == [("blockhash1", "len_blockhash1", "S1"), ("blockhash2", "len_blockhash2", "S2")]
    # result is the conjunction: false unless both are true -> the second call is reached only when the first is true, and
    # `true` is never returned as a constant
    const_true = False
    for i, j, s in f.stmts():
        if s["s"] == "assign" and s["lhs"]["l"] == 0 and const_value(sy.rvalue(s["rv"])) == 1:
            const_true = True
    ctx.ob("SA-FIELDS", "is_normalized checks both block hashes (blockhash1/len1 with S1, blockhash2/len2 with S2) and never short-circuits to true", ok and not const_true,
           "calls %s; constant true: %s" % (pairs, const_true), f.loc())
    g = prog.fn("algorithms::verify_block_hash_current")
    gs = Sym(g)
    e = strip(gs.local(0))
    ok = e[0] == "call" and e[1].endswith("verify_block_hash_internal") and is_param(e[2][0], "blockhash") and is_param(e[2][1], "blockhash_len")
    # last argument: !TYPE_NORM
    last = strip(e[2][4]) if ok else None
    ok = ok and last[0] == "un" and last[1] == "Not" and strip(last[2])[2] == "TYPE_NORM"
    ctx.ob("SA-DELEGATE", "verify_block_hash_current::<N, TYPE_NORM> = verify_block_hash_internal(.., verify_normalization = !TYPE_NORM)", ok, show(e)[:200], g.loc())
    h = prog.fn("algorithms::verify_block_hash_input")
    hs = Sym(h)
    e = strip(hs.local(0))
    ok = e[0] == "call" and e[1].endswith("verify_block_hash_internal") and is_param(e[2][0], "blockhash") and is_param(e[2][1], "blockhash_len") and strip(e[2][4])[2] == "EXPECT_NORM"
    ctx.ob("SA-DELEGATE", "verify_block_hash_input::<N, EXPECT_NORM> = verify_block_hash_internal(.., verify_normalization = EXPECT_NORM)", ok, show(e)[:200], h.loc())


def validator_content(ctx, prog):
    """verify_block_hash_internal is what `is_valid` and every checked constructor rely on: its two symbol-range tests
    (normalisation branch and plain branch) compare each element with the same bound ALPHABET_SIZE using `>=`, the tail
    test requires zero, and the three flags select them as documented"""
    RV = "SA-SIBLING"
    f = prog.fn("hash::algorithms::verify_block_hash_internal")
    ctx.visit(f)
    sy = Sym(f)
    cmps = []
    bodies = [f] + prog.closures_of(f)
    for g in bodies:
        gs = Sym(g)
        for i, j, s in g.stmts():
            if s["s"] == "assign" and s["rv"]["r"] == "bin" and s["rv"]["op"] in ("Lt", "Le", "Gt", "Ge", "Eq", "Ne"):
                a, b = gs.operand(s["rv"]["a"]), gs.operand(s["rv"]["b"])
                cmps.append((s["rv"]["op"], strip(a), strip(b), g, s))
    # the bound is the VALUE 64 (ALPHABET_SIZE under whatever name or cast it is spelled - a private `const X: u8 = ALPHABET_SIZE as u8`
    # is the same bound); what matters is that both branches use `>=` against it
    def v64(x):
        return const_value(x) == 64
    rng = [c for c in cmps if v64(c[2]) or v64(c[1])]
    ok = len(rng) == 2 and all((c[0] == "Ge" and v64(c[2]) and not v64(c[1])) or (c[0] == "Le" and v64(c[1]) and not v64(c[2])) for c in rng)
    ctx.ob(RV, "verify_block_hash_internal: both symbol-range tests are `element >= ALPHABET_SIZE (64)` (normalisation branch and plain branch agree)", ok,
           "range comparisons: %s" % [(c[0], show(c[1])[:40], show(c[2])[:40]) for c in rng], f.loc())
    # `any(x != 0)` refused, or equivalently `all(x == 0)` required (the closure body of either spelling)
    tail = [c for c in cmps if c[0] in ("Ne", "Eq") and const_value(c[2]) == 0 and c[3] is not f]
    for c in list(tail):
        callers = [callee_of(t).split("::")[-1] for i, t in f.calls() if any(strip(sy.operand(a))[0] == "agg" and strip(sy.operand(a))[1] == "Closure:" + c[3].path for a in t["args"])]
        if not ((c[0] == "Ne" and callers == ["any"]) or (c[0] == "Eq" and callers == ["all"])):
            tail.remove(c)
    ctx.ob(RV, "verify_block_hash_internal: the tail test rejects any non-zero element past the length", len(tail) == 1, "tail comparisons: %d" % len(tail), f.loc())
    # the slices: [len..] for the tail and [..len] for the content
    from . import fields as F
    slices = []
    for i, t in f.calls():
        if callee_of(t).split("::")[-1] == "index" and len(t["args"]) == 2:
            rg = F.range_of(sy.operand(t["args"][1]))
            if rg != "?":
                slices.append((canon(strip(rg[0])), None if rg[1] is None else canon(strip(rg[1]))))
    want = sorted([("param:blockhash_len", None), ("0", "param:blockhash_len")], key=str)
    ctx.ob(RV, "verify_block_hash_internal inspects exactly blockhash[..len] (content) and blockhash[len..] (tail)", sorted(slices, key=str) == want, "slices %s" % slices, f.loc())


def validator_outcomes(ctx, prog):
    """`verify_block_hash_internal`: the table of outcomes - each `false` with the exact set of conditions it is reached under, `true` only
    when none applies.  (The content of the single tests is read by `validator_content`; this rule reads what each test leads to: a refusal
    turned into an acceptance, or `&&` into `||`, changes no test but changes the table.)"""
    from ..sym import path_conds, bool_atom
    RVO = "SA-VALIDATE"
    f = prog.fn("hash::algorithms::verify_block_hash_internal")
    ctx.visit(f)
    sy = Sym(f)

    def clos(e):
        # any(..)/all(..) over a slice with a one-comparison closure -> ('ANY'|'ALL', op, const)
        e = strip(e)
        if e[0] != "call" or e[1].split("::")[-1] not in ("any", "all") or len(e[2]) != 2:
            return None
        cl = strip(e[2][1])
        if cl[0] != "agg" or not cl[1].startswith("Closure:"):
            return None
        g = prog.get(cl[1][len("Closure:"):])
        if g is None:
            return None
        b = strip(Sym(g).local(0))
        if b[0] == "bin" and b[1] in ("Ge", "Lt", "Ne", "Eq", "Gt", "Le") and const_value(strip(b[3])) is not None:
            return (e[1].split("::")[-1].upper(), b[1], const_value(strip(b[3])))
        return None
    NEG = {"Lt": "Ge", "Le": "Gt", "Gt": "Le", "Ge": "Lt", "Eq": "Ne", "Ne": "Eq"}
    sites = []
    results = [(i, strip(sy.rvalue(s["rv"])), s["sp"]) for i, j, s in f.stmts() if s["s"] == "assign" and s["lhs"]["l"] == 0 and not s["lhs"]["p"]]
    results += [(i, strip(sy.call(t, i)), t["sp"]) for i, t in f.calls() if t["dest"]["l"] == 0 and not t["dest"]["p"]]
    for i, rexpr, rsp in results:
        s = {"sp": rsp}
        v = const_value(rexpr)
        atoms = set()
        odd = []
        for c in path_conds(f, sy, i):
            if len(c) > 3:
                from .summary import _belief_edge
                if _belief_edge(f, c[3][0]):
                    continue
            a = bool_atom(c)
            if a is None:
                continue
            if a[0] == "truth":
                x = strip(a[1])
                if x[0] == "param":
                    atoms.add((x[2], a[2]))
                    continue
                if x[0] == "discr":
                    continue   # loop plumbing: an element was yielded
                k = clos(x)
                if k is not None:
                    # `any(p)` true  ==  `all(!p)` false: written as "some element satisfies (op, const)"
                    kind, op, cv = k
                    if kind == "ANY":
                        atoms.add(("SOME", op, cv) if a[2] else ("NONE", op, cv))
                    else:
                        atoms.add(("SOME", NEG[op], cv) if not a[2] else ("NONE", NEG[op], cv))
                    continue
                odd.append(canon(x)[:60])
                continue
            l_, r_ = strip(a[1]), strip(a[2])
            lt, rt = canon(l_), canon(r_)
            item = "Iterator>::next(" in lt
            if item and const_value(r_) is not None:
                atoms.add(("ITEM", a[0], const_value(r_)))
            elif item and r_[0] == "local":
                atoms.add(("ITEM", a[0], "PREV"))
            elif l_[0] == "local" and const_value(r_) is not None:
                atoms.add(("RUN", a[0], const_value(r_)))
            else:
                odd.append("%s(%s,%s)" % (a[0], lt[:40], rt[:30]))
        if v is None:
            # the last test written as a tail expression (`!(out && any(..))`, `!any(..)`): one outcome per truth value
            e = rexpr
            neg = False
            while e[0] == "un" and e[1] == "Not":
                e = strip(e[2])
                neg = not neg
            k = clos(e)
            if k is not None:
                kind, op, cv = k
                some = ("SOME", op, cv) if kind == "ANY" else ("SOME", NEG[op], cv)
                none = ("NONE", some[1], cv)
                # value of the expression when some element satisfies the predicate
                val_some = (kind == "ANY") != neg
                sites.append((1 if val_some else 0, frozenset(atoms | {some}), odd, s["sp"]))
                sites.append((0 if val_some else 1, frozenset(atoms | {none}), odd, s["sp"]))
                continue
        sites.append((v, frozenset(atoms), odd, s["sp"]))
    want = [
        (0, frozenset({("verify_normalization", True), ("verify_data_range_in", True), ("ITEM", "Ge", 64)})),
        (0, frozenset({("verify_normalization", True), ("ITEM", "Eq", "PREV"), ("RUN", "Ge", 3)})),
        (0, frozenset({("verify_normalization", False), ("verify_data_range_in", True), ("SOME", "Ge", 64)})),
        (0, frozenset({("verify_data_range_out", True), ("SOME", "Ne", 0)})),
        (1, frozenset()),
    ]
    # refusals are compared exactly; acceptances may be split by the form of the last test (`if c { return false } true` against `!c`), but
    # an acceptance never rests on a condition that refuses
    got = sorted(((v, tuple(sorted(map(str, a)))) for v, a, o, sp in sites if v == 0), key=str)
    exp = sorted(((v, tuple(sorted(map(str, a)))) for v, a in want if v == 0), key=str)
    bad = [o for v, a, o, sp in sites if o]
    acc = [a for v, a, o, sp in sites if v == 1]
    if not acc or any(x[0] in ("SOME", "ITEM", "RUN") for a in acc for x in a) or any(v not in (0, 1) for v, a, o, sp in sites):
        bad.append(["acceptance sites %s" % [sorted(map(str, a)) for a in acc][:3]])
    ctx.ob(RVO, "verify_block_hash_internal: the five outcomes (symbol out of range / run too long in the normalisation branch, symbol out of range in the plain branch, non-zero tail, accept) are reached under exactly their conditions",
           got == exp and not bad, "outcomes %s%s" % ([x for x in got if x not in exp][:3] or ([x for x in exp if x not in got][:3] and "missing %s" % [x for x in exp if x not in got][:3]) or "as reviewed", ("; unread conditions %s" % bad[:3]) if bad else ""), f.loc())


def normalize_step(ctx, prog):
    """`normalize_block_hash_in_place_internal`: what one iteration does, as a table (the STEP of run-collapsing, not a proof of the loop):
    run counter := 0 at the start and on a symbol that differs from the previous one (which then becomes the previous one);
    := run + 1 on a repeat; := MAX_SEQUENCE_SIZE (saturated) exactly when a repeat has brought it to >= MAX_SEQUENCE_SIZE - and only that
    case skips the store; every other symbol is stored at `len`, and `len` advances by one per store, from 0; previous symbol starts at the
    sentinel; the walk is over blockhash[0 .. old length]."""
    from ..sym import path_conds, bool_atom
    RS = "SA-STEP"
    f = prog.fn("hash::algorithms::normalize_block_hash_in_place_internal")
    ctx.visit(f)
    sy = Sym(f)

    def atoms_at(b):
        out = set()
        for c in path_conds(f, sy, b):
            if len(c) > 3:
                from .summary import _belief_edge
                if _belief_edge(f, c[3][0]):
                    continue
            a = bool_atom(c)
            if a is None or a[0] == "truth":
                continue
            l_, r_ = strip(a[1]), strip(a[2])
            item = "::next(" in canon(l_) and l_[0] == "index"
            if item and r_[0] == "local":
                out.add(("ITEM", a[0], "PREV:%d" % r_[1]))
            elif l_[0] == "local" and const_value(r_) is not None:
                out.add(("L%d" % l_[1], a[0], const_value(r_)))
            else:
                out.add(("?", canon(l_)[:40], a[0], canon(r_)[:30]))
        return out
    bad = []
    run = prev = ln = None
    for l, ds in f.defs.items():
        if l <= f.argc or len(ds) < 2:
            continue
        vals = [(b, strip(sy.rvalue(x)) if k == "rv" else None) for (b, _i, k, x) in ds]
        txt = [canon(v) if v is not None else "call" for _, v in vals]
        me = "local:%s_%d" % (f.locals[l]["name"] or "", l)
        if f.locals[l]["ty"] == "usize" and any(t == "Add(%s,1)" % me for t in txt):
            consts = sorted(const_value(v) for _, v in vals if v is not None and const_value(v) is not None)
            if consts == [0, 0, 3] and len(vals) == 4:
                run = (l, vals)
            elif consts == [0] and len(vals) == 2:
                ln = (l, vals)
        if f.locals[l]["ty"] == "u8" and len(vals) == 2 and any(const_value(v) == 64 for _, v in vals if v is not None):
            prev = (l, vals)
    if run is None or prev is None or ln is None:
        ctx.ob(RS, "normalize_block_hash_in_place_internal: run counter, previous symbol and stored length identified", False,
               "run %s, prev %s, len %s" % (run is not None, prev is not None, ln is not None), f.loc())
        return
    R_, P_, L_ = run[0], prev[0], ln[0]
    rme = "local:%s_%d" % (f.locals[R_]["name"] or "", R_)

    def rel(at):
        return {a for a in at if a[0] in ("ITEM", "L%d" % R_)}
    for b, v in run[1]:
        at = rel(atoms_at(b))
        t = canon(v)
        if const_value(v) == 0:
            ok = at in (set(), {("ITEM", "Ne", "PREV:%d" % P_)})
        elif const_value(v) == 3:
            ok = at == {("ITEM", "Eq", "PREV:%d" % P_), ("L%d" % R_, "Ge", 3)}
            sat = b
        else:
            ok = t == "Add(%s,1)" % rme and at == {("ITEM", "Eq", "PREV:%d" % P_)}
        if not ok:
            bad.append("run := %s under %s" % (t[-40:], sorted(at)))
    for b, v in prev[1]:
        at = rel(atoms_at(b))
        if const_value(v) == 64:
            ok = at == set()
        else:
            ok = "::next(" in canon(v) and at == {("ITEM", "Ne", "PREV:%d" % P_)}
        if not ok:
            bad.append("prev := %s under %s" % (canon(v)[-40:], sorted(at)))
    # the store and the advance of len: in one block, reached from every arm except the saturating one
    stores = [(i, s) for i, j, s in f.stmts() if s["s"] == "assign" and s["lhs"]["p"] and s["lhs"]["l"] == 1 and any(isinstance(x, dict) and "ix" in x for x in s["lhs"]["p"])]
    adv = [b for b, v in ln[1] if v is not None and const_value(v) is None]
    hdr = [i for i, t in f.calls() if callee_of(t).endswith("::next")]
    if len(stores) != 1 or len(adv) != 1 or len(hdr) != 1:
        bad.append("%d element stores, %d advances of the stored length, %d loop headers" % (len(stores), len(adv), len(hdr)))
    else:
        sb, st = stores[0]
        ix = [x for x in st["lhs"]["p"] if isinstance(x, dict) and "ix" in x][0]["ix"]
        src = canon(strip(sy.rvalue(st["rv"])))
        if strip(sy.local(ix)) != ("local", L_, f.locals[L_]["name"]) or "::next(" not in src or not src.startswith("param:blockhash["):
            bad.append("store %s = %s" % (canon(strip(sy.place(st["lhs"])))[:50], src[-50:]))
        if not f.dominates(sb, adv[0]) and sb != adv[0]:
            bad.append("the stored length advances without a store")
        sat_b = [b for b, v in run[1] if const_value(v) == 3]
        if sat_b and sb in f.reach_from(sat_b[0], avoid=set(hdr)):
            bad.append("a symbol of a saturated run is stored")
        for b, v in run[1]:
            if const_value(v) != 3 and b in f.reach_from(hdr[0]) and b != sat_b[0] if sat_b else False:
                if sb not in f.reach_from(b, avoid=set(hdr) | set(sat_b)):
                    bad.append("the symbol is not stored after `run := %s`" % canon(v)[-20:])
        rng = canon(strip(sy.origin(strip(sy.operand(f.blocks[hdr[0]]["term"]["args"][0])))))
        if not re.search(r"Range::Range\{0,\(\*?param:blockhash_len as usize\)\}", rng.replace("local:old_blockhash_len", "param:blockhash_len")) and "Range{0," not in rng:
            bad.append("walks %s" % rng[:80])
    ctx.ob(RS, "normalize_block_hash_in_place_internal: run-collapsing step table (reset on a new symbol, +1 on a repeat, saturate and skip the store at MAX_SEQUENCE_SIZE, store + advance otherwise)",
           not bad, "; ".join(bad)[:600] or "4 run definitions, 2 previous-symbol definitions, 1 store", f.loc())


def run_counters(ctx, prog, which=("validator", "parser")):
    """the run detectors of the validator (`verify_block_hash_internal`) and of the normalising parser (`parse_block_hash_from_bytes`), as
    step tables: run counter := 0 at the start and on a symbol that differs from the previous one (which then becomes the previous one);
    := run + 1 on a repeat; in the parser := MAX_SEQUENCE_SIZE exactly when a repeat has brought it to >= MAX_SEQUENCE_SIZE.  The previous
    symbol starts at the sentinel.  (What the detectors answer / store is the business of validator_outcomes / the parser rules.)"""
    from ..sym import path_conds, bool_atom
    from .summary import _belief_edge
    RS = "SA-STEP"
    table = {"validator": ("hash::algorithms::verify_block_hash_internal", [0, 0], 3),
             "parser": ("hash::algorithms::parse_block_hash_from_bytes", [0, 0, 3], 4)}
    n = 0
    for w in which:
        suffix, want_consts, ndefs = table[w]
        f = prog.fn(suffix)
        ctx.visit(f, weak=True)
        sy = Sym(f)

        items = set()

        def atoms_at(b, R_=None):
            out = set()
            for c in path_conds(f, sy, b):
                if len(c) > 3 and _belief_edge(f, c[3][0]):
                    continue
                a = bool_atom(c)
                if a is None or a[0] == "truth":
                    continue
                l_, r_ = strip(a[1]), strip(a[2])
                item = r_[0] == "local" and f.locals[r_[1]]["ty"] == "u8" and const_value(l_) is None
                if item:
                    out.add(("ITEM", a[0], "PREV:%d" % r_[1]))
                    items.add(canon(l_))
                elif l_[0] == "local" and l_[1] == R_ and const_value(r_) is not None:
                    out.add(("RUN", a[0], const_value(r_)))
            return out
        run = prev = None
        for l, ds in f.defs.items():
            if l <= f.argc or len(ds) < 2:
                continue
            vals = [(b, strip(sy.rvalue(x)) if k == "rv" else None) for (b, _i, k, x) in ds]
            txt = [canon(v) if v is not None else "call" for _, v in vals]
            me = "local:%s_%d" % (f.locals[l]["name"] or "", l)
            if f.locals[l]["ty"] == "usize" and any(t == "Add(%s,1)" % me for t in txt):
                consts = sorted(const_value(v) for _, v in vals if v is not None and const_value(v) is not None)
                if len(consts) == len(vals) - 1 and len(consts) >= 1 and run is None:
                    run = (l, vals, consts)
            if f.locals[l]["ty"] == "u8" and len(vals) == 2 and any(const_value(v) == 64 for _, v in vals if v is not None):
                prev = (l, vals)
        if run is None or prev is None:
            ctx.ob(RS, "%s: run counter and previous symbol identified" % f.short, False,
                   "run counter (a usize with a `+ 1` step and constant resets) %s, previous symbol (a u8 starting at the sentinel 64) %s" % (
                       "found" if run else "not found", "found" if prev else "not found"), f.loc())
            continue
        R_, P_ = run[0], prev[0]
        rme = "local:%s_%d" % (f.locals[R_]["name"] or "", R_)
        bad = []
        if run[2] != want_consts:
            bad.append("the run counter is given the constants %s (reviewed: %s)" % (run[2], want_consts))
        seen0 = []
        for b, v in run[1]:
            at = atoms_at(b, R_)
            t = canon(v)
            if const_value(v) == 0:
                ok = at in (set(), {("ITEM", "Ne", "PREV:%d" % P_)})
                seen0.append(bool(at))
            elif const_value(v) == 3:
                ok = at == {("ITEM", "Eq", "PREV:%d" % P_), ("RUN", "Ge", 3)}
            else:
                ok = t == "Add(%s,1)" % rme and at == {("ITEM", "Eq", "PREV:%d" % P_)}
            if not ok:
                bad.append("run := %s under %s" % (t[-40:], sorted(at)))
        if sorted(seen0) != [False, True]:
            bad.append("the run counter is reset to 0 at %s (reviewed: once at the start, once on a new symbol)" % seen0)
        for b, v in prev[1]:
            at = atoms_at(b, R_)
            if const_value(v) == 64:
                ok = at == set()
            else:
                ok = canon(v) in items and at == {("ITEM", "Ne", "PREV:%d" % P_)}
            if not ok:
                bad.append("prev := %s under %s" % (canon(v)[-40:], sorted(at)))
        n += 1
        ctx.ob(RS, "%s: run detector step table (0 at the start and on a new symbol, which becomes the previous one; +1 on a repeat%s)" % (
            f.short, "; saturates at MAX_SEQUENCE_SIZE" if w == "parser" else ""),
            not bad, "; ".join(bad)[:600] or "%d run-counter definitions, 2 previous-symbol definitions" % len(run[1]), f.loc())
    ctx.floor(RS, n, len(which), "run detectors read")
