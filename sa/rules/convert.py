"""Conversion rules (C15, C06): narrowing guard, purity, trait forms delegate to the named conversions,
raw->normalised goes through the one normaliser, normalised->raw is a plain copy."""
import re
from ..sym import Sym, strip, show, canon, fpath, is_path, is_param, const_value
from ..mir import callee_of
from . import guard as G, errpure

R = "SA-DELEGATE"


def narrowing(ctx, prog):
    f = prog.fn("FuzzyHashData::<{block_hash::FULL_SIZE}, {block_hash::FULL_SIZE}, NORM>::try_into_mut_short")
    ctx.visit(f)
    sy = Sym(f)
    errs = G.blocks_returning_variant(f, sy, "Result::Err", "BlockHashOverflow")
    len2 = lambda e: is_path(e, "self", ("len_blockhash2",))
    G.check_exact(ctx, "SA-GUARD", "try_into_mut_short -> Err(BlockHashOverflow) iff len_blockhash2 in (32, 255]", f, sy, errs,
                  [("len_blockhash2 > HALF_SIZE", G.iv_spec(len2, (33, 255), maxv=255))])
    errpure.check(ctx, "SA-ERRPURE", "try_into_mut_short leaves *dest untouched on Err", f, {2}, errs, what="the destination")
    # TryFrom: dest = new(); try_into_mut_short(&value, &mut dest)?; Ok(dest)
    g = [x for x in prog.fns if x.impl_trait.startswith("core::convert::TryFrom<internals::hash::FuzzyHashData") and x.path.endswith("::try_from")]
    ok = len(g) == 1
    why = "%d TryFrom impls" % len(g)
    if ok:
        g = g[0]
        ctx.visit(g)
        gs = Sym(g)
        calls = [(i, t) for i, t in g.calls() if callee_of(t).endswith("::try_into_mut_short")]
        ok = len(calls) == 1
        if ok:
            i, t = calls[0]
            a0, a1 = strip(gs.operand(t["args"][0])), strip(gs.operand(t["args"][1]))
            org = gs.origin(a1)
            ok = is_param(a0, "value") and org[0] == "call" and org[1].endswith("::new")
            why = "try_into_mut_short(%s, %s = %s)" % (show(a0), show(a1), show(org))
            # the Ok value is that same destination
            okv = False
            for bi, bj, s in g.stmts():
                if s["s"] == "assign" and s["lhs"]["l"] == 0 and s["rv"]["r"] == "agg" and s["rv"]["kind"].get("variant") == "Ok":
                    okv = canon(strip(gs.operand(s["rv"]["ops"][0]))) == canon(a1)
            if not okv:
                # `value.try_into_mut_short(&mut dest).map(|()| dest)`: the Ok payload is produced by a closure that returns its one
                # capture, and that capture is the destination
                for bi, bt in g.calls():
                    if bt["dest"]["l"] == 0 and callee_of(bt).endswith("Result::<T, E>::map") and len(bt["args"]) == 2:
                        recv = strip(gs.operand(bt["args"][0]))
                        cl = strip(gs.operand(bt["args"][1]))
                        if recv[0] == "call" and recv[1].endswith("::try_into_mut_short") and cl[0] == "agg" and cl[1].startswith("Closure:") and len(cl[2]) == 1:
                            c = prog.get(cl[1][len("Closure:"):])
                            cap = strip(cl[2][0])
                            if c is not None and not list(c.calls()):
                                ctx.visit(c)
                                body = canon(strip(Sym(c).local(0)))
                                okv = re.match(r"^param:\w*1\.0$", body) is not None and canon(cap) == canon(a1)
            ok = ok and okv
    ctx.ob(R, "TryFrom<long> for short = try_into_mut_short into a fresh destination, `?`, Ok(dest)", ok, why)


SINGLE = [
    # (impl trait prefix / fn path regex, expected callee suffix, description)
    (r"core::convert::From<internals::hash::FuzzyHashData<S1, S2, true>>>::from$", "FuzzyHashData::<S1, S2, true>::to_raw_form", "From<norm> for raw = to_raw_form"),
    (r"core::convert::From<internals::hash::FuzzyHashData<S1, S2, false>>>::from$", "FuzzyHashData::<S1, S2, NORM>::normalize", "From<raw> for norm = normalize"),
    (r"FuzzyHashData::<S1, S2, true>::from_raw_form$", "FuzzyHashData::<S1, S2, NORM>::normalize", "from_raw_form = normalize"),
    (r"FuzzyHashData::<S1, S2, false>::from_normalized$", "FuzzyHashData::<S1, S2, true>::to_raw_form", "from_normalized = to_raw_form"),
    (r"FULL_SIZE\}, NORM>::from_short_form$", "::to_long_form", "from_short_form = to_long_form"),
    (r"FULL_SIZE\}, NORM> as core::convert::From<internals::hash::FuzzyHashData<\{block_hash::FULL_SIZE\}, \{block_hash::HALF_SIZE\}, NORM>>>::from$", "::to_long_form", "From<short> for long = to_long_form"),
]


def trait_forms(ctx, prog):
    """conversion trait impls and from_* constructors are single calls of the named conversion on their argument"""
    n = 0
    for rx, callee, desc in SINGLE:
        fs = [f for f in prog.fns if re.search(rx, f.path) and f.path.startswith(("<internals::hash::FuzzyHashData", "internals::hash::FuzzyHashData"))]
        if len(fs) != 1:
            ctx.ob("ANCHOR", desc, False, "%d functions match" % len(fs))
            continue
        f = fs[0]
        ctx.visit(f)
        n += 1
        sy = Sym(f)
        e = strip(sy.local(0))
        ok = e[0] == "call" and e[1].endswith(callee) and len(e[2]) == 1 and fpath(e[2][0])[0][0] == "param"
        ctx.ob(R, desc, ok, show(e)[:160], f.loc())
    ctx.floor(R, n, 6, "single-call conversion forms")


def normaliser_funnel(ctx, prog):
    """every route to a normalised hash goes through normalize_in_place_internal -> normalize_block_hash_in_place x2;
    normalised -> raw never calls the normaliser"""
    n = 0
    for nm in ("normalize", "normalize_in_place", "clone_normalized"):
        f = prog.fn("FuzzyHashData::<S1, S2, NORM>::%s" % nm)
        ctx.visit(f)
        calls = [callee_of(t) for i, t in f.calls()]
        ok = sum(1 for c in calls if c.endswith("::normalize_in_place_internal")) == 1
        # the call must be unconditional
        for i, t in f.calls():
            if callee_of(t).endswith("::normalize_in_place_internal"):
                ok = ok and all(f.dominates(i, r) for r in f.return_blocks())
        n += 1
        ctx.ob(R, "%s funnels into normalize_in_place_internal (unconditionally)" % f.short, ok, ", ".join(c.split("::")[-1] for c in calls), f.loc())
    f = prog.fn("FuzzyHashData::<S1, S2, NORM>::normalize_in_place_internal")
    ctx.visit(f)
    cs = [(i, t) for i, t in f.calls() if callee_of(t).endswith("algorithms::normalize_block_hash_in_place")]
    ok = len(cs) == 2 and all(all(f.dominates(i, r) for r in f.return_blocks()) for i, t in cs)
    ga = sorted(t["gargs"][0] for i, t in cs) if ok else []
    ctx.ob(R, "normalize_in_place_internal normalises both block hashes (capacities S1 and S2), unconditionally", ok and ga == ["S1", "S2"], "calls with %s" % ga, f.loc())
    g = prog.fn("algorithms::normalize_block_hash_in_place")
    ctx.visit(g)
    e = [(i, t) for i, t in g.calls()]
    ok = len(e) == 1 and callee_of(e[0][1]).endswith("normalize_block_hash_in_place_internal")
    if ok:
        sy = Sym(g)
        t = e[0][1]
        ok = is_param(strip(sy.operand(t["args"][0])), "blockhash") and is_param(strip(sy.operand(t["args"][1])), "blockhash_len")
        flag = sy.operand(t["args"][2])
        ok = ok and flag[0] == "const" and flag[2] == "ORIG_NORM"
    ctx.ob(R, "normalize_block_hash_in_place::<N, ORIG_NORM> = normalize_block_hash_in_place_internal(blockhash, len, ORIG_NORM)", ok, "", g.loc())
    # the generic flag handed down is the *source* type's NORM (so raw sources are really collapsed)
    for nm in ("normalize", "normalize_in_place", "clone_normalized"):
        f = prog.fn("FuzzyHashData::<S1, S2, NORM>::%s" % nm)
        for i, t in f.calls():
            if callee_of(t).endswith("::normalize_in_place_internal"):
                ctx.ob(R, "%s passes its own NORM as the `already normalised` flag" % f.short, t["gargs"][-1] == "NORM", "IN_NORM = %s" % t["gargs"][-1], f.loc(t["sp"]))
    # normalised -> raw: plain copies, no normaliser in the closure
    for nm in ("FuzzyHashData::<S1, S2, true>::to_raw_form", "FuzzyHashData::<S1, S2, true>::into_mut_raw_form"):
        f = prog.fn(nm)
        ctx.visit(f)
        cl = [x.path for x in prog.closure([f])]
        bad = [p for p in cl if "normalize" in p]
        n += 1
        ctx.ob(R, "%s is a plain copy (no normaliser reachable)" % f.short, not bad, "closure: %d bodies %s" % (len(cl), bad), f.loc())
    ctx.floor(R, n, 5, "normalisation routes")
