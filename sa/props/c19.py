"""C19 — the exposed hash primitives: FNV half decided from the table, forms as folds; rolling step shape."""
from ..rules import data, fold, rolling, vis, summary, beliefs

EXPL = ("Decides: (1) SA-DATA exhaustively over all 64x64 entries of FNV_TABLE as evaluated by rustc: entry = low 6 bits of "
        "((state*0x01000193) xor c); initial value = 0x28021967 mod 64; update_by_byte's only store to the state is "
        "FNV_TABLE[value()][ch % 64] (or the arithmetic step under opt-reduce-fnv-table, with value() masking to 6 bits); no other "
        "function writes the state field; (2) SA-DELEGATE: for both primitives update/update_by_iter are folds of update_by_byte "
        "over the whole input and the three `+=` forms forward to them, so all forms agree by construction; (3) SA-FORMULA by forward value numbering over the loop-free step: "
        "h2' = h2 - h1 + 7*c, h1' = h1 + c - window[i], window[i]' = c, h3' = (h3 << 5) ^ c, i' = (i+1) mod 7, nothing else is "
        "written, value() = h1+h2+h3 (all wrapping), new() is all-zero - i.e. the step is ssdeep's roll_hash step, and since h3 "
        "shifts by 5 seven times a byte leaves the 32-bit word after 7 steps. NOT decided: that the rolling value depends only on the "
        "last seven bytes (algebraic cancellation over histories).")


def run(ctx):
    cfgs = ["rel", "fnv", "unsafe"] if ctx.tier == "quick" else ["rel", "dbg", "fnv", "unsafe", "nodef"]
    ctx.progs(cfgs)  # build all configurations in parallel
    for c in cfgs:
        prog = ctx.prog(c)
        ctx.guard("C19", "fnv", lambda: data.fnv_table(ctx, prog))
        ctx.guard("C19", "fnv-forms", lambda: fold.primitive_forms(ctx, prog, "PartialFNVHash"))
        ctx.guard("C19", "roll-forms", lambda: fold.primitive_forms(ctx, prog, "RollingHash"))
        ctx.guard("C19", "roll-step", lambda: rolling.step_shape(ctx, prog))
        ctx.guard("C19", "traits", lambda: vis.trait_census(ctx, prog, scope='hashes::'))
        ctx.guard("C19", "const values", lambda: data.const_census(ctx, prog, data.CONST_SCOPES["C19"], floor=1))
        ctx.guard("C19", "panic conditions", lambda: beliefs.live_census(ctx, prog, beliefs.SCOPES["C19"][0]))
        ctx.guard("C19", "summaries", lambda: summary.check(ctx, prog, 'generate::hashes::', floor=6))
        ctx.guard("C19", "path summaries", lambda: summary.check_paths(ctx, prog, 'generate::hashes::', floor=0))
        if c in ("dbg", "unsafe_dbg", "strict_dbg"):
            ctx.guard("C19", "beliefs", lambda: beliefs.census(ctx, prog, beliefs.SCOPES["C19"][0], floor=beliefs.SCOPES["C19"][1]))
    return ctx.finish(EXPL, ["u32 wrapping_* methods have their documented meaning", "rustc's const evaluation of FNV_TABLE"])
