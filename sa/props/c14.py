"""C14 — optional build features do not change results (structural clauses over 11 build configurations)."""
from ..rules import features, engine, data, text, parser, validate, summary, beliefs

EXPL = ("Decides: SA-CFGDIFF: all MIR bodies reduced to their effects are compared across build configurations - debug assertions "
        "on/off change no body at all (dbg, strict_dbg, unsafe_dbg against their release twins), and each feature changes only the "
        "reviewed bodies: `unsafe` the three engine loops (+ from_utf8_unchecked in Display/to_string, equal after identifying the two "
        "calls), `opt-reduce-fnv-table` PartialFNVHash::{update_by_byte,value}, `strict-parser` parse_block_hash_from_bytes, "
        "`unchecked` only adds the 24 *_unchecked twins, no-std/no-alloc only remove the std/alloc/easy surface; combinations "
        "(unsafe+fnv, unsafe+fnv+strict) compose; every reviewed body is covered by its own rule: SA-SIBLING/LOOPSTATE/MIRROR and SA-ENGINEMAP "
        "(effect lists of the index loop and the pointer loop identical under the bh_context[i] ~ *bh naming) for the pointer engine, SA-DATA (table == arithmetic step on all 64x64) for FNV, take(N)/look-ahead rules for the strict parser, "
        "SA-ASCII for the UTF-8 shortcuts, SA-TWIN (each X_unchecked is X_internal(params) and the safe X computes the same internal "
        "call), SA-INVPAIR (each of the 80 invariant! sites is subsumed by a run-time check of the safe build or a reviewed structural "
        "argument). NOT decided: extensional equality of the pointer loop and the index loop on inputs.")


def run(ctx):
    quick = ctx.tier == "quick"
    cfgs = ["rel", "dbg", "unsafe", "unchecked", "fnv", "unsafe_fnv", "strict", "nodef"] if quick else \
        ["rel", "dbg", "unsafe", "unsafe_dbg", "unchecked", "fnv", "strict", "strict_dbg", "nodef", "alloc", "unsafe_fnv", "all"]
    progs = ctx.progs(cfgs)
    for c in cfgs:
        if c == "rel":
            continue
        prog = progs[c]
        ctx.cfg = c
        base = progs[features.REVIEWED[c][0]]
        ctx.guard("C14", "cfgdiff-" + c, lambda: features.cfgdiff(ctx, base, prog))
    for c in [x for x in cfgs if x.startswith("unsafe") or x == "all"]:
        prog = progs[c]
        ctx.cfg = c
        if not c.endswith("_dbg"):
            # with debug assertions on, invariant! is a debug_assert! even under `unsafe` (no assumption to pair)
            ctx.guard("C14", "invpair", lambda: features.invpair(ctx, prog))
        ctx.guard("C14", "mirror", lambda: engine.mirror(ctx, prog))
        ctx.guard("C14", "cursor", lambda: engine.pointer_cursor(ctx, prog))
        ctx.guard("C14", "siblings", lambda: engine.siblings(ctx, prog))
        ctx.guard("C14", "loopstate", lambda: engine.loop_state(ctx, prog))
        ctx.guard("C14", "ascii", lambda: text.ascii_only(ctx, prog))
    for c in [x for x in cfgs if x.startswith("unsafe") or x == "all"]:
        base = progs["dbg"] if c.endswith("_dbg") else progs["rel"]
        ctx.cfg = c
        ctx.guard("C14", "enginemap-" + c, lambda: engine.engine_correspondence(ctx, base, progs[c]))
    if "dbg" in cfgs:
        ctx.cfg = "dbg"
        ctx.guard("C14", "assert-pure", lambda: features.assertions_pure(ctx, progs["dbg"]))
        # checked vs unchecked forms: the asserts of a checked form are exactly the beliefs of the `_internal` body its unchecked twin
        # calls directly (a checked form that refuses an in-contract value, or admits an out-of-contract one, makes the twins disagree)
        ctx.cfg = "dbg"
        ctx.guard("C14", "contracts", lambda: validate.constructors(ctx, progs["dbg"]))
    for c in [x for x in cfgs if x.endswith("dbg")]:
        prog = progs[c]
        ctx.cfg = c
        ctx.guard("C14", "beliefs", lambda: beliefs.census(ctx, prog, None, floor=78))
    for c in [x for x in cfgs if x in ("unchecked", "unsafe")]:
        prog = progs[c]
        ctx.cfg = c
        ctx.guard("C14", "twins", lambda: features.twins(ctx, prog))
    for c in [x for x in cfgs if x in ("fnv", "unsafe_fnv", "all", "rel")]:
        prog = progs[c]
        ctx.cfg = c
        ctx.guard("C14", "fnv", lambda: data.fnv_table(ctx, prog))
    for c in [x for x in cfgs if x in ("strict", "all")]:
        prog = progs[c]
        ctx.cfg = c
        ctx.guard("C14", "strict-total", lambda: parser.totality(ctx, prog))
        ctx.guard("C14", "strict-look", lambda: parser.strict_lookahead(ctx, prog))
        ctx.guard("C14", "strict-end", lambda: parser.end_classification(ctx, prog))
        ctx.guard("C14", "strict-out", lambda: parser.driver_outcomes(ctx, prog))
        ctx.guard("C14", "const values", lambda: data.const_census(ctx, prog, data.CONST_SCOPES["C14"], floor=1))
        ctx.guard("C14", "panic conditions", lambda: beliefs.live_census(ctx, prog, None))
        ctx.guard("C14", "summaries", lambda: summary.check(ctx, prog, '_unchecked$|internals::intrinsics::', floor=2))
        ctx.guard("C14", "generic consts", lambda: summary.check_consts(ctx, prog, floor=13))
        ctx.guard("C14", "path summaries", lambda: summary.check_paths(ctx, prog, '_unchecked$|internals::intrinsics::', floor=0))
    return ctx.finish(EXPL, ["from_utf8 accepts exactly what from_utf8_unchecked assumes when the input is ASCII", "effect reduction treats calls without &mut arguments as pure unless their result is kept"])
