#!/usr/bin/env python3
"""dev helper: behaviour-preserving refactoring patches (from independent sub-agents) must not raise an alarm.
usage: tools_refac_eval.py <dir with refactorN.diff> [--quick]   -> applies each patch in a scratch worktree of /repo, runs all claimed checks
(thorough unless --quick), prints alarms.  A patch that does not compile in every feature set, or fails the pinned suite, is reported as
NOT-BENIGN and not counted."""
import glob, json, os, shutil, subprocess, sys, tempfile
V = "/verif"
CHK = os.environ.get("VERIF_CHECK_DIR", V)   # a frozen `git worktree` snapshot of /verif when edits go on meanwhile
d = sys.argv[1]
tier = "quick" if "--quick" in sys.argv else "thorough"
claimed = [c["property_id"] for c in json.load(open(CHK + "/MANIFEST.json"))["checks"]]
tot = alarms = 0
for patch in sorted(glob.glob(d + "/refactor*.diff")):
    wt = tempfile.mkdtemp(prefix="ffz-refac-", dir="/tmp")
    os.rmdir(wt)
    try:
        subprocess.run(["git", "-C", "/repo", "worktree", "add", "-q", "--detach", wt, "HEAD"], check=True)
        r = subprocess.run(["git", "-C", wt, "apply", patch], capture_output=True, text=True)
        if r.returncode != 0:
            print(os.path.basename(patch), "does not apply"); continue
        env = dict(os.environ, CARGO_NET_OFFLINE="true", CARGO_TARGET_DIR=wt + "/target")
        okc = True
        for feats in ([], ["--features", "unsafe"], ["--features", "strict-parser"], ["--features", "unchecked"], ["--features", "opt-reduce-fnv-table"], ["--no-default-features"]):
            r = subprocess.run(["cargo", "check", "--offline", "-q", "-p", "ffuzzy", "--lib"] + feats, cwd=wt, env=env, capture_output=True, text=True)
            if r.returncode != 0:
                okc = False
                print(os.path.basename(patch), "NOT-BENIGN: does not compile with", feats)
                break
        if not okc:
            continue
        if "--suite" in sys.argv:
            r = subprocess.run(["cargo", "test", "--offline", "-q", "-p", "ffuzzy", "--lib"], cwd=wt, env=env, capture_output=True, text=True)
            if "198 passed" not in r.stdout:
                print(os.path.basename(patch), "NOT-BENIGN: suite fails"); continue
        tot += 1
        env2 = dict(os.environ, VERIF_REPO=wt, VERIF_EVIDENCE_DIR=os.path.join(wt, "_evidence"), VERIF_FACT_CACHE="1")
        bad = []
        for c in claimed:
            p = subprocess.run([CHK + "/check", c, "--tier", tier], capture_output=True, text=True, env=env2, cwd=CHK)
            if p.returncode != 0:
                ls = [l for l in p.stdout.splitlines() if ": SA-" in l or "FLOOR" in l or "ANCHOR" in l or "SHAPE" in l or "fact extraction" in l]
                bad.append((c, [l[:330] for l in ls[:2]]))
        if bad:
            alarms += 1
            print(os.path.basename(patch), "ALARM", [b[0] for b in bad])
            seen = set()
            for c, ls in bad:
                for l in ls:
                    k = l.split(": SA-")[-1][:120]
                    if k not in seen:
                        seen.add(k); print("     ", c, l)
        else:
            print(os.path.basename(patch), "silent")
        sys.stdout.flush()
    finally:
        subprocess.run(["git", "-C", "/repo", "worktree", "remove", "--force", wt], capture_output=True)
        shutil.rmtree(wt, ignore_errors=True)
print("%d benign patches, %d raised an alarm" % (tot, alarms))
