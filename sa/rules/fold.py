"""SA-DELEGATE (fold form): a bulk/operator form is a fold of the single-step form over the whole input."""
from ..sym import Sym, strip, show, is_param, fpath, canon
from ..mir import callee_of, pl
from . import errpure

R = "SA-DELEGATE"
ITER_ADAPT = ("IntoIterator::into_iter", "<impl [T]>::iter", "Iterator::copied", "Iterator::cloned", "::iter")


def doc(ctx):
    ctx.rule(R, "a public form obtains its result only from the named single implementation (resolved call graph), so a property shown for that implementation holds for every form")


def iter_source(e):
    """peel iterator adaptors; return the underlying collection expression"""
    while True:
        e = strip(e)
        if e[0] == "call" and len(e[2]) == 1 and e[1].split("::")[-1] in ("into_iter", "iter", "copied", "cloned") and \
                ("iter" in e[1].lower() or "slice" in e[1]):
            e = e[2][0]
            continue
        return e


def whole_input(e, param_name):
    """e denotes the whole parameter (directly, or `param[..]`, or `[param; 1]`)"""
    e = strip(e)
    if is_param(e, param_name):
        return True
    if e[0] == "call" and e[1].endswith("::index") and len(e[2]) == 2:
        a, b = strip(e[2][0]), strip(e[2][1])
        return is_param(a, param_name) and b[0] == "agg" and b[1].endswith("RangeFull::RangeFull")
    if e[0] == "repeat" and is_param(e[1], param_name) and e[2] == "1":
        return True
    return False


def loop_over(f, sy):
    """find the iterator `next` call(s): returns list of (block, source_expr, some_block, none_block)"""
    out = []
    for i, t in f.calls():
        c = callee_of(t)
        if c.endswith("Iterator::next") or c.endswith("::next"):
            nxt = t["to"]
            sw = f.blocks[nxt]["term"]
            if sw["t"] != "switch":
                continue
            some = [a[1] for a in sw["arms"] if a[0] == "1"]
            none = [a[1] for a in sw["arms"] if a[0] == "0"]
            src = iter_source(sy.origin(sy.operand(t["args"][0])))
            out.append((i, src, some[0] if some else None, none[0] if none else sw["otherwise"], t))
    return out


def check_fold(ctx, f, step_suffix, input_param, item_deref_ok=True, allow_stores=()):
    """f(&mut self, input): loops once over the whole input, calling `step` once per item with that item;
    no other write to *self (fields in allow_stores excepted)."""
    ctx.visit(f)
    sy = Sym(f)
    key = "%s is a fold of %s over its whole input" % (f.short, step_suffix.split("::")[-1])
    loops = loop_over(f, sy)
    if len(loops) != 1:
        return ctx.ob(R, key, False, "%d iterator loops found" % len(loops), f.loc())
    hb, src, some, none, nt = loops[0]
    if not whole_input(src, input_param):
        return ctx.ob(R, key, False, "iterates over %s, not the whole `%s`" % (show(src), input_param), f.loc(nt["sp"]))
    steps = [(i, t) for i, t in f.calls() if callee_of(t).endswith(step_suffix)]
    if len(steps) != 1:
        return ctx.ob(R, key, False, "%d calls of the step function" % len(steps), f.loc())
    si, st = steps[0]
    # the step call lies on every path from the Some arm back to the loop header
    reach = f.reach_from(some, avoid={si})
    if hb in reach or any(f.blocks[b]["term"]["t"] == "return" for b in reach):
        return ctx.ob(R, key, False, "an iteration can complete without calling the step function", f.loc(st["sp"]))
    if not f.dominates(some, si):
        return ctx.ob(R, key, False, "step call is not inside the loop body", f.loc(st["sp"]))
    # argument 0 is self, argument 1 is the yielded item
    a0 = strip(sy.operand(st["args"][0]))
    a1 = sy.operand(st["args"][1])
    r, names = fpath(a1)
    item_ok = r[0] == "call" and r[3] == hb and names == ("<Some>", "0")
    if not (is_param(a0, "self") and item_ok):
        return ctx.ob(R, key, False, "step called with (%s, %s), expected (self, the item just yielded)" % (show(a0), show(a1)), f.loc(st["sp"]))
    # no other writes to *self
    al = errpure.mut_aliases(f, {1})
    for i in sorted(f.live):
        for d, sp in errpure.writes_in_block(f, i, al, allowed_callees=(step_suffix,)):
            if any(d.endswith("." + a) for a in allow_stores):
                continue
            return ctx.ob(R, key, False, "additional write to *self: %s" % d, f.loc(sp))
    return ctx.ob(R, key, True, "one loop over `%s`, one %s(self, item) per iteration, no other write to *self" % (input_param, step_suffix.split("::")[-1]), f.loc())


def check_forward(ctx, f, target_suffix, input_param):
    """operator form: a single call target(self, input) (input whole), nothing else touching *self"""
    ctx.visit(f)
    sy = Sym(f)
    key = "%s forwards to %s" % (f.short, target_suffix.split("::")[-1])
    calls = [(i, t) for i, t in f.calls() if callee_of(t).endswith(target_suffix)]
    if len(calls) != 1:
        return ctx.ob(R, key, False, "%d calls of the target" % len(calls), f.loc())
    i, t = calls[0]
    a0 = strip(sy.operand(t["args"][0]))
    a1 = sy.operand(t["args"][1])
    ok = is_param(a0, "self") and whole_input(a1, input_param)
    if not ok:
        return ctx.ob(R, key, False, "called with (%s, %s)" % (show(a0), show(a1)), f.loc(t["sp"]))
    # call is unconditional
    if not all(f.dominates(i, r) for r in f.return_blocks()):
        return ctx.ob(R, key, False, "the forwarding call is conditional", f.loc(t["sp"]))
    al = errpure.mut_aliases(f, {1})
    for b in sorted(f.live):
        for d, sp in errpure.writes_in_block(f, b, al, allowed_callees=(target_suffix,)):
            return ctx.ob(R, key, False, "additional write to *self: %s" % d, f.loc(sp))
    return ctx.ob(R, key, True, "single unconditional call with (self, whole `%s`)" % input_param, f.loc())


def primitive_forms(ctx, prog, ty):
    """update / update_by_iter / add_assign x3 of RollingHash or PartialFNVHash"""
    doc(ctx)
    step = "%s::update_by_byte" % ty
    n = 0
    f = prog.fn("%s::update" % ty)
    check_fold(ctx, f, step, f.locals[2]["name"]); n += 1
    f = prog.fn("%s::update_by_iter" % ty)
    check_fold(ctx, f, step, f.locals[2]["name"]); n += 1
    for g in prog.fns:
        if g.impl_self.endswith(ty) and g.impl_trait.startswith("core::ops::AddAssign") and g.path.endswith("::add_assign"):
            arg = g.impl_trait.split("<", 1)[1]
            tgt = step if arg.startswith("u8") else "%s::update" % ty
            check_forward(ctx, g, tgt, g.locals[2]["name"]); n += 1
    ctx.floor(R, n, 5, "bulk/operator forms of %s" % ty)
