"""Loop idioms written out by hand are read as the library call they spell.

`for x in &mut s { *x = C }` / `for x in s.iter_mut() { *x = C }` is `s.fill(C)`: every element the iterator yields is overwritten
with the same constant before the next one is taken, nothing else happens in the loop, and the loop ends only when the iterator is
exhausted.  The rules that classify writers (typestate `clear`, tail rules, summaries) are written against `fill`; the loop is rewritten
into that call at the MIR level (the blocks of the loop become unreachable), so the two spellings are one thing for every rule.
Only this exact shape is rewritten: anything else in the loop body, a non-constant value, or another use of the iterator keeps the loop."""


def _res(t):
    return t.get("resolved") or t.get("callee") or ""


def _plain(o, l=None):
    return o and o.get("k") in ("copy", "move") and not o["pl"]["p"] and (l is None or o["pl"]["l"] == l)


def _fill_loops(fn):
    blocks = fn["blocks"]
    n = 0
    preds = {}
    for i, b in enumerate(blocks):
        t = b["term"]
        tos = []
        if t["t"] == "goto":
            tos = [t["to"]]
        elif t["t"] == "switch":
            tos = [a[1] for a in t["arms"]] + ([t["otherwise"]] if t.get("otherwise") is not None else [])
        elif t["t"] in ("call", "drop", "assert"):
            tos = [t.get("to")] + ([t.get("unwind")] if t.get("unwind") is not None else [])
        for x in tos:
            if x is not None:
                preds.setdefault(x, []).append(i)
    for h, hb in enumerate(blocks):
        ht = hb["term"]
        skipped = ht["t"] == "call" and _res(ht) == "<core::iter::Skip<I> as core::iter::Iterator>::next" and (ht.get("gargs") or [""])[0].startswith("core::iter::Skip<core::slice::IterMut<")
        if ht["t"] != "call" or not (_res(ht).endswith("IterMut<'a, T> as core::iter::Iterator>::next") or skipped) or ht.get("to") is None:
            continue
        # header: only reborrows of the iterator local
        it = None
        ok = True
        refs = {}
        for s in hb["stmts"]:
            if s["s"] == "assign" and not s["lhs"]["p"] and s["rv"]["r"] == "ref" and s["rv"].get("mut"):
                src = s["rv"]["pl"]
                if not src["p"]:
                    refs[s["lhs"]["l"]] = src["l"]
                elif src["p"] == ["*"] and src["l"] in refs:
                    refs[s["lhs"]["l"]] = refs[src["l"]]
                else:
                    ok = False
            elif s["s"] in ("storage_live", "storage_dead", "nop"):
                continue
            else:
                ok = False
        a0 = ht["args"][0] if ht["args"] else None
        if not ok or not _plain(a0) or a0["pl"]["l"] not in refs:
            continue
        it = refs[a0["pl"]["l"]]
        opt = ht["dest"]
        if opt["p"]:
            continue
        sb = blocks[ht["to"]]
        st = sb["term"]
        if st["t"] != "switch" or len(sb["stmts"]) != 1:
            continue
        ds = sb["stmts"][0]
        if not (ds["s"] == "assign" and ds["rv"]["r"] == "discr" and ds["rv"]["pl"]["l"] == opt["l"] and not ds["rv"]["pl"]["p"] and _plain(st["on"], ds["lhs"]["l"])):
            continue
        arms = dict((a[0], a[1]) for a in st["arms"])
        if set(arms) != {"0", "1"}:
            continue
        exit_b, body_b = arms["0"], arms["1"]
        bb = blocks[body_b]
        if bb["term"]["t"] != "goto" or bb["term"]["to"] != h:
            continue
        x = None
        val = None
        bad = False
        for s in bb["stmts"]:
            if s["s"] != "assign":
                continue
            lhs, rv = s["lhs"], s["rv"]
            if not lhs["p"] and rv["r"] == "use" and rv["a"].get("k") in ("move", "copy") and rv["a"]["pl"]["l"] == opt["l"] and len(rv["a"]["pl"]["p"]) == 2 and x is None:
                x = lhs["l"]
            elif x is not None and lhs["l"] == x and lhs["p"] == ["*"] and rv["r"] == "use" and rv["a"].get("k") == "const" and val is None:
                val = rv["a"]
            elif not lhs["p"] and lhs.get("ty") == "()" and rv["r"] == "use" and rv["a"].get("k") == "const":
                continue
            else:
                bad = True
        if bad or x is None or val is None:
            continue
        entry = [p for p in set(preds.get(h, [])) if p != body_b]
        if len(entry) != 1:
            continue
        pb = blocks[entry[0]]
        # entry block: `IT = move T; goto H` preceded by a block ending in `T = into_iter(SRC)` / `iter_mut(SRC)`; or that call directly
        call_b = None
        if pb["term"]["t"] == "goto":
            mv = [s for s in pb["stmts"] if s["s"] == "assign"]
            if len(mv) != 1 or mv[0]["lhs"]["l"] != it or mv[0]["lhs"]["p"] or mv[0]["rv"]["r"] != "use" or not _plain(mv[0]["rv"]["a"]):
                continue
            tmp = mv[0]["rv"]["a"]["pl"]["l"]
            cands = [i for i, b in enumerate(blocks) if b["term"]["t"] == "call" and b["term"].get("to") == entry[0] and not b["term"]["dest"]["p"] and b["term"]["dest"]["l"] == tmp]
            if len(cands) != 1 or set(preds.get(entry[0], [])) != {cands[0]}:
                continue
            call_b = cands[0]
        elif pb["term"]["t"] == "call" and pb["term"].get("to") == h and not pb["term"]["dest"]["p"] and pb["term"]["dest"]["l"] == it:
            call_b = entry[0]
        else:
            continue
        ct = blocks[call_b]["term"]
        r = _res(ct)
        if skipped:
            # `for x in s.iter_mut().skip(n) { *x = C }` is `s[n..].fill(C)` (which additionally panics when n > len: the reading is the
            # stricter one).  Chain: T1 = iter_mut(S); T2 = skip(T1, n); T3 = into_iter(T2); IT = T3
            def producer(local, to):
                c = [i for i, b in enumerate(blocks) if b["term"]["t"] == "call" and not b["term"]["dest"]["p"] and b["term"]["dest"]["l"] == local]
                return c[0] if len(c) == 1 and blocks[c[0]]["term"].get("to") == to else None
            if r.endswith("IntoIterator>::into_iter") and len(ct["args"]) == 1 and _plain(ct["args"][0]):
                ks = producer(ct["args"][0]["pl"]["l"], call_b)
            else:
                continue
            if ks is None:
                continue
            kt = blocks[ks]["term"]
            if _res(kt) != "core::iter::Iterator::skip" or len(kt["args"]) != 2 or not _plain(kt["args"][0]):
                continue
            ki = producer(kt["args"][0]["pl"]["l"], ks)
            if ki is None:
                continue
            it_ = blocks[ki]["term"]
            if not _res(it_).endswith("core::slice::<impl [T]>::iter_mut") or len(it_["args"]) != 1 or not _plain(it_["args"][0]):
                continue
            import json
            used = sum(1 for i, b in enumerate(blocks) if i not in (h, entry[0], call_b, ks, ki) and ('"l": %d,' % it) in json.dumps(b))
            if used:
                continue
            src = it_["args"][0]
            name = "core::slice::index::<impl core::ops::IndexMut<I> for [T]>::index_mut"
            base_ty = (fn["locals"][src["pl"]["l"]]["ty"] or "&mut [u8]").replace("&mut ", "", 1)
            for s_ in blocks[ki]["stmts"]:
                if s_["s"] == "assign" and not s_["lhs"]["p"] and s_["lhs"]["l"] == src["pl"]["l"] and s_["rv"]["r"] == "cast" and "Unsize" in s_["rv"].get("kind", "") and _plain(s_["rv"]["a"]):
                    src = s_["rv"]["a"]
                    name = "core::array::<impl core::ops::IndexMut<I> for [T; N]>::index_mut"
                    base_ty = (src["pl"]["ty"] or "").replace("&mut ", "", 1)
            rg, sl, unit = len(fn["locals"]), len(fn["locals"]) + 1, len(fn["locals"]) + 2
            fn["locals"].append({"ty": "core::ops::RangeFrom<usize>", "name": None, "mut": True})
            fn["locals"].append({"ty": "&mut [u8]", "name": None, "mut": True})
            fn["locals"].append({"ty": "()", "name": None, "mut": True})
            sp = kt["sp"]
            blocks[ki]["term"] = {"t": "goto", "to": ks}
            blocks[ks]["stmts"].append({"s": "assign", "lhs": {"l": rg, "p": [], "ty": "core::ops::RangeFrom<usize>"},
                                        "rv": {"r": "agg", "kind": {"adt": "core::ops::RangeFrom", "variant": "RangeFrom", "fields": ["start"]}, "ops": [kt["args"][1]]}, "sp": sp})
            blocks[ks]["term"] = {"t": "call", "callee": "core::ops::IndexMut::index_mut", "resolved": name, "local": False,
                                  "gargs": [base_ty, "core::ops::RangeFrom<usize>"], "args": [src, {"k": "move", "pl": {"l": rg, "p": [], "ty": "core::ops::RangeFrom<usize>"}}],
                                  "dest": {"l": sl, "p": [], "ty": "&mut [u8]"}, "to": call_b, "fop": None, "sp": sp}
            blocks[call_b]["term"] = {"t": "call", "callee": "core::slice::<impl [T]>::fill", "resolved": "core::slice::<impl [T]>::fill", "local": False,
                                      "gargs": ["u8"], "args": [{"k": "move", "pl": {"l": sl, "p": [], "ty": "&mut [u8]"}}, val], "dest": {"l": unit, "p": [], "ty": "()"},
                                      "to": exit_b, "fop": None, "sp": bb["stmts"][0]["sp"] if bb["stmts"] else sp, "loop_idiom": "fill"}
            n += 1
            continue
        if not (r.endswith("IntoIterator for &'a mut [T]>::into_iter") or r.endswith("core::slice::<impl [T]>::iter_mut")) or len(ct["args"]) != 1:
            continue
        # the iterator and the yielded reference are used nowhere else
        uses = 0
        txt_it = '"l": %d,' % it
        import json
        for i, b in enumerate(blocks):
            if i in (h, entry[0], call_b):
                continue
            if txt_it in json.dumps(b):
                uses += 1
        if uses:
            continue
        unit = len(fn["locals"])
        fn["locals"].append({"ty": "()", "name": None, "mut": True})
        blocks[call_b]["term"] = {"t": "call", "callee": "core::slice::<impl [T]>::fill", "resolved": "core::slice::<impl [T]>::fill", "local": False,
                                  "gargs": ct.get("gargs", []), "args": [ct["args"][0], val], "dest": {"l": unit, "p": [], "ty": "()"},
                                  "to": exit_b, "fop": None, "sp": bb["stmts"][0]["sp"] if bb["stmts"] else ct["sp"], "loop_idiom": "fill"}
        n += 1
    return n


def _zip_copy_loops(fn):
    """`for (d, &s) in dst.iter_mut().zip(src.iter()) { *d = s }` is `dst.copy_from_slice(src)` for slices of equal length (which is what
    the bulk form demands): every pair the zip yields is one element copied, nothing else happens in the loop."""
    import json
    blocks = fn["blocks"]
    n = 0
    for h, hb in enumerate(blocks):
        ht = hb["term"]
        if ht.get("t") != "call" or not _res(ht).endswith("Zip<A, B> as core::iter::Iterator>::next") or ht.get("to") is None or ht["dest"]["p"]:
            continue
        opt = ht["dest"]["l"]
        sb = blocks[ht["to"]]
        st = sb["term"]
        if st.get("t") != "switch" or len(sb["stmts"]) != 1 or sb["stmts"][0]["rv"].get("r") != "discr" or sb["stmts"][0]["rv"]["pl"]["l"] != opt:
            continue
        arms = dict((x[0], x[1]) for x in st["arms"])
        if set(arms) != {"0", "1"}:
            continue
        exit_b, body_b = arms["0"], arms["1"]
        bb = blocks[body_b]
        if bb["term"].get("t") != "goto" or bb["term"]["to"] != h:
            continue
        d = sref = val = None
        vals = set()
        okb = True
        stored = False
        for s_ in bb["stmts"]:
            if s_["s"] != "assign":
                continue
            lhs, rv = s_["lhs"], s_["rv"]
            if rv.get("r") == "use" and rv["a"].get("k") in ("copy", "move"):
                pl_ = rv["a"]["pl"]
                proj = pl_["p"]
                if pl_["l"] == opt and len(proj) == 3 and isinstance(proj[2], dict) and proj[2].get("n") in ("0", "1") and not lhs["p"]:
                    if proj[2]["n"] == "0":
                        d = lhs["l"]
                    else:
                        sref = lhs["l"]
                    continue
                if sref is not None and pl_["l"] == sref and proj == ["*"] and not lhs["p"]:
                    vals.add(lhs["l"])
                    continue
                if not proj and pl_["l"] in vals and not lhs["p"]:
                    vals.add(lhs["l"])
                    continue
                if d is not None and lhs["l"] == d and lhs["p"] == ["*"] and not proj and pl_["l"] in vals and not stored:
                    stored = True
                    continue
            if not lhs["p"] and lhs.get("ty") == "()" and rv.get("r") == "use" and rv["a"].get("k") == "const":
                continue
            okb = False
        if not okb or not stored:
            continue
        # find the zip call (through an optional into_iter and a move into the loop variable)
        def producer(local):
            c = [i for i, b in enumerate(blocks) if b["term"].get("t") == "call" and not b["term"]["dest"]["p"] and b["term"]["dest"]["l"] == local]
            return c[0] if len(c) == 1 else None
        it = None
        for s_ in hb["stmts"]:
            if s_["s"] == "assign" and s_["rv"].get("r") == "ref" and not s_["rv"]["pl"]["p"]:
                it = s_["rv"]["pl"]["l"] if it is None else it
        if it is None:
            continue
        cur = it
        chain = []
        zb = None
        for _ in range(4):
            movers = [(i, s_) for i, b in enumerate(blocks) for s_ in b["stmts"] if s_["s"] == "assign" and not s_["lhs"]["p"] and s_["lhs"]["l"] == cur and s_["rv"].get("r") == "use" and _plain(s_["rv"]["a"])]
            if len(movers) == 1:
                cur = movers[0][1]["rv"]["a"]["pl"]["l"]
                continue
            pi = producer(cur)
            if pi is None:
                break
            pt = blocks[pi]["term"]
            if _res(pt).endswith("IntoIterator>::into_iter") and len(pt["args"]) == 1 and _plain(pt["args"][0]):
                chain.append(pi)
                cur = pt["args"][0]["pl"]["l"]
                continue
            if _res(pt).endswith("Iterator::zip") and len(pt["args"]) == 2 and all(_plain(a) for a in pt["args"]):
                zb = pi
            break
        if zb is None:
            continue
        zt = blocks[zb]["term"]
        pa, pb_ = producer(zt["args"][0]["pl"]["l"]), producer(zt["args"][1]["pl"]["l"])
        if pa is None:
            continue
        ta = blocks[pa]["term"]
        if not _res(ta).endswith("core::slice::<impl [T]>::iter_mut") or len(ta["args"]) != 1:
            continue
        if pb_ is not None:
            tb = blocks[pb_]["term"]
            if not _res(tb).endswith("core::slice::<impl [T]>::iter") or len(tb["args"]) != 1:
                continue
            src_arg = tb["args"][0]
        elif (fn["locals"][zt["args"][1]["pl"]["l"]]["ty"] or "").startswith("&["):
            src_arg = zt["args"][1]   # `.zip(&src[..])`: the slice reference itself is the second iterable
        else:
            continue
        unit = len(fn["locals"])
        fn["locals"].append({"ty": "()", "name": None, "mut": True})
        # the iterator constructors fall away, the zip becomes the bulk copy, the loop is skipped
        dst_arg = ta["args"][0]
        blocks[pa]["term"] = {"t": "goto", "to": ta["to"]}
        if pb_ is not None:
            blocks[pb_]["term"] = {"t": "goto", "to": blocks[pb_]["term"]["to"]}
        blocks[zb]["term"] = {"t": "call", "callee": "core::slice::<impl [T]>::copy_from_slice", "resolved": "core::slice::<impl [T]>::copy_from_slice", "local": False,
                              "gargs": [], "args": [dst_arg, src_arg], "dest": {"l": unit, "p": [], "ty": "()"}, "to": exit_b, "fop": None,
                              "sp": zt["sp"], "loop_idiom": "zip-copy"}
        n += 1
    return n


def _into_as_from(fn):
    """`x.into()` through the blanket `impl<T, U: From<T>> Into<U> for T` is `U::from(x)`: the call is renamed to the `From` impl it runs"""
    n = 0
    for b in fn["blocks"]:
        t = b["term"]
        if t.get("t") == "call" and _res(t) == "<T as core::convert::Into<U>>::into" and len(t.get("gargs") or []) == 2 and len(t["args"]) == 1:
            T, U = t["gargs"]
            t["callee"] = "core::convert::From::from"
            t["resolved"] = "<%s as core::convert::From<%s>>::from" % (U, T)
            t["gargs"] = [U, T]
            n += 1
    return n


def _err_type(ty):
    """E of `core::result::Result<T, E>` (top-level comma)"""
    if not ty or not ty.startswith("core::result::Result<") or not ty.endswith(">"):
        return None
    inner = ty[len("core::result::Result<"):-1]
    depth = 0
    for i, ch in enumerate(inner):
        if ch in "<([":
            depth += 1
        elif ch in ">)]":
            depth -= 1
        elif ch == "," and depth == 0:
            return inner[i + 1:].strip()
    return None


def _try_err(fn):
    """`Err(e)?` where the function's error type is the type of `e` is `return Err(e)`: `Try::branch` of a value that was just built as
    `Err(..)` always breaks, and `from_residual` with an identical error type rebuilds the same `Err(..)`.  The call/switch/call chain is
    replaced by the assignment it amounts to."""
    blocks = fn["blocks"]
    n = 0
    for a, ab in enumerate(list(blocks)):
        t = ab["term"]
        if t.get("t") != "call" or not _res(t).endswith("core::ops::Try>::branch") or len(t["args"]) != 1 or not _plain(t["args"][0]) or t.get("to") is None or t["dest"]["p"]:
            continue
        src = t["args"][0]["pl"]["l"]
        agg = [s for s in ab["stmts"] if s["s"] == "assign" and s["lhs"]["l"] == src and not s["lhs"]["p"]]
        if len(agg) != 1 or agg[0]["rv"].get("r") != "agg" or agg[0]["rv"]["kind"].get("variant") != "Err" or len(agg[0]["rv"]["ops"]) != 1:
            continue
        sb = blocks[t["to"]]
        st = sb["term"]
        if st.get("t") != "switch" or len(sb["stmts"]) != 1 or sb["stmts"][0]["rv"].get("r") != "discr" or sb["stmts"][0]["rv"]["pl"]["l"] != t["dest"]["l"]:
            continue
        arms = dict((x[0], x[1]) for x in st["arms"])
        if "1" not in arms:
            continue
        bb = blocks[arms["1"]]
        bt = bb["term"]
        if bt.get("t") != "call" or not _res(bt).endswith("from_residual") or bt.get("to") is None:
            continue
        e_in = _err_type(fn["locals"][src]["ty"])
        e_out = _err_type(fn["locals"][bt["dest"]["l"]]["ty"]) if not bt["dest"]["p"] else None
        if e_in is None or e_in != e_out:
            continue
        new = {"cleanup": False, "stmts": [{"s": "assign", "lhs": dict(bt["dest"]), "rv": dict(agg[0]["rv"]), "sp": agg[0]["sp"]}],
               "term": {"t": "goto", "to": bt["to"]}}
        blocks.append(new)
        ab["term"] = {"t": "goto", "to": len(blocks) - 1}
        n += 1
    return n


def _ok_try(fn):
    """`Ok(x?)` with an identical error type is `x`: the Continue arm only rewraps the payload as `Ok`, the Break arm rebuilds the same
    `Err` - both arms assign the value `x` already had.  The branch/switch/two-arm chain is replaced by `dest = x`."""
    blocks = fn["blocks"]
    n = 0
    for a, ab in enumerate(list(blocks)):
        t = ab["term"]
        if t.get("t") != "call" or not _res(t).endswith("core::ops::Try>::branch") or len(t["args"]) != 1 or not _plain(t["args"][0]) or t.get("to") is None or t["dest"]["p"]:
            continue
        b = t["dest"]["l"]
        sb = blocks[t["to"]]
        st = sb["term"]
        if st.get("t") != "switch" or len(sb["stmts"]) != 1 or sb["stmts"][0]["rv"].get("r") != "discr" or sb["stmts"][0]["rv"]["pl"]["l"] != b:
            continue
        arms = dict((x[0], x[1]) for x in st["arms"])
        if set(arms) != {"0", "1"}:
            continue
        cb, kb = blocks[arms["0"]], blocks[arms["1"]]
        # Continue arm: copies of the payload, then dest = Ok{copy}; nothing else
        vals = set()
        dest = None
        ok = cb["term"].get("t") == "goto"
        for s_ in cb["stmts"]:
            if s_["s"] != "assign":
                continue
            rv, lhs = s_["rv"], s_["lhs"]
            if rv.get("r") == "use" and rv["a"].get("k") in ("copy", "move"):
                pl_ = rv["a"]["pl"]
                if pl_["l"] == b and len(pl_["p"]) == 2 and not lhs["p"]:
                    vals.add(lhs["l"])
                    continue
                if not pl_["p"] and pl_["l"] in vals and not lhs["p"]:
                    vals.add(lhs["l"])
                    continue
            if rv.get("r") == "agg" and rv["kind"].get("variant") == "Ok" and len(rv["ops"]) == 1 and _plain(rv["ops"][0]) and rv["ops"][0]["pl"]["l"] in vals and dest is None:
                dest = lhs
                continue
            ok = False
        kt = kb["term"]
        if not ok or dest is None or kt.get("t") != "call" or not _res(kt).endswith("from_residual") or kt.get("to") is None:
            continue
        if kt["dest"] != dest or dest["p"]:
            continue
        # both arms join
        j1 = cb["term"]["to"]
        j2 = kt["to"]
        while blocks[j2]["term"].get("t") == "goto" and not blocks[j2]["stmts"] and j2 != j1:
            j2 = blocks[j2]["term"]["to"]
        if j1 != j2:
            continue
        src_ty = fn["locals"][t["args"][0]["pl"]["l"]]["ty"]
        if src_ty != fn["locals"][dest["l"]]["ty"]:
            continue
        # the payload copies must not be used after the join (the named `let` binding is only re-wrapped)
        import json
        later = json.dumps([blocks[i] for i in range(len(blocks)) if i not in (arms["0"], arms["1"], t["to"], a)])
        if any(('"l": %d,' % v) in later for v in vals):
            continue
        # `x` is usually the result of the call just before: then that call writes the destination directly
        x = t["args"][0]["pl"]["l"]
        prods = [i for i, pb in enumerate(blocks) if pb["term"].get("t") == "call" and pb["term"].get("to") == a and not pb["term"]["dest"]["p"] and pb["term"]["dest"]["l"] == x]
        uses_x = sum(json.dumps(bk).count('"l": %d,' % x) for bk in blocks)
        if len(prods) == 1 and not ab["stmts"] and uses_x == 2:
            blocks[prods[0]]["term"]["dest"] = dict(dest)
            blocks[prods[0]]["term"]["to"] = j1
        else:
            ab["term"] = {"t": "goto", "to": len(blocks)}
            blocks.append({"cleanup": False, "stmts": [{"s": "assign", "lhs": dict(dest), "rv": {"r": "use", "a": t["args"][0]}, "sp": t["sp"]}], "term": {"t": "goto", "to": j1}})
        n += 1
    return n


_VIEW_CALLS = {
    # the whole of an array / slice / Vec seen as a slice: one thing in every spelling
    "<alloc::vec::Vec<T, A> as core::ops::DerefMut>::deref_mut": "alloc::vec::Vec::<T, A>::as_mut_slice",
    "<alloc::vec::Vec<T, A> as core::ops::Deref>::deref": "alloc::vec::Vec::<T, A>::as_slice",
}


def _whole_views(fn):
    """`&a[..]`, `a.as_slice()`, `a.as_mut_slice()` on an array or slice are the unsizing borrow `&a` / `&mut a` (no bounds are involved:
    the full range never panics); `&mut *vec` through `DerefMut` is `vec.as_mut_slice()`"""
    n = 0
    blocks = fn["blocks"]
    for b in blocks:
        t = b["term"]
        if t.get("t") != "call" or t.get("to") is None:
            continue
        r = _res(t)
        if r in _VIEW_CALLS and len(t["args"]) == 1:
            t["resolved"] = _VIEW_CALLS[r]
            t["callee"] = _VIEW_CALLS[r]
            n += 1
            continue
        full = r.split("::")[-1] in ("index", "index_mut") and len(t["args"]) == 2 and (t.get("gargs") or ["", ""])[-1] == "core::ops::RangeFull" \
            and (r.startswith("core::array::<impl core::ops::Index") or r.startswith("core::slice::index::<impl core::ops::Index"))
        whole = r in ("core::array::<impl [T; N]>::as_slice", "core::array::<impl [T; N]>::as_mut_slice") and len(t["args"]) == 1
        if not (full or whole) or t["dest"]["p"]:
            continue
        a0 = t["args"][0]
        if not _plain(a0):
            continue
        src_ty = a0["pl"].get("ty") or ""
        dst_ty = t["dest"].get("ty") or ""
        if src_ty == dst_ty:
            rv = {"r": "use", "a": a0}
        else:
            rv = {"r": "cast", "kind": "PointerCoercion(Unsize, Implicit)", "a": a0, "to": dst_ty}
        b["stmts"].append({"s": "assign", "lhs": dict(t["dest"]), "rv": rv, "sp": t["sp"]})
        b["term"] = {"t": "goto", "to": t["to"]}
        n += 1
    return n


def run(d):
    out = []
    for fn in d["fns"]:
        try:
            k = _whole_views(fn)
        except Exception:
            k = 0
        if k:
            out.append((fn["path"], "whole-slice view as the unsizing borrow", k))
        try:
            k = _fill_loops(fn)
        except Exception:
            k = 0
        if k:
            out.append((fn["path"], "fill", k))
        try:
            k = _zip_copy_loops(fn)
        except Exception:
            k = 0
        if k:
            out.append((fn["path"], "zip-copy loop as copy_from_slice", k))
        try:
            k = _try_err(fn)
        except Exception:
            k = 0
        if k:
            out.append((fn["path"], "Err(e)? as return Err(e)", k))
        try:
            k = _ok_try(fn)
        except Exception:
            k = 0
        if k:
            out.append((fn["path"], "Ok(x?) as x", k))
        k = _into_as_from(fn)
        if k:
            out.append((fn["path"], "into() as From::from", k))
    return out
