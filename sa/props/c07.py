"""C07 — dual hashes: canonical storage discipline of the RLE side table (structural clauses)."""
from ..rules import tail, fields, eqord, parser, panic, rle, normal, casts, vis, features, summary, beliefs, data

EXPL = ("Decides: SA-TAIL: on every construction route the RLE block is terminator-filled from the encoder's final offset to the end and "
        "the normalised block hash is zero-filled from its stored length; every write into an RLE block anywhere in the crate is "
        "TERMINATOR-fill, a like-field copy, or goes through the single encoder (update_rle_block, whose element stores are "
        "rle_encoding::encode(..) results) - so no route can produce a non-canonical tail; both RLE blocks are reset together by "
        "normalize_in_place; SA-FIELDS: Eq/Hash/Ord of the dual type use all three components, like with like, Ord starts with the "
        "normalised part; compress/expand/validity calls receive like-indexed (blockhashK, len_blockhashK, rle_blockK, SK/CK) tuples; "
        "SA-FORMULA: encode(pos,len) = pos | ((len-1) << 6) and decode(v) = (v & 63, (v >> 6) + 1) are an "
        "inverse pair by shape, the encoder emits (len-4)/4 groups of 4 followed by one group of (len-4)%4+1 and returns the advanced "
        "offset, the compressor hands it (stored length - 1, repeat counter + 1); the parser route builds the dual from the raw parse via from_raw_form (who-may-call rule on the encoder, F1 fixed). "
        "SA-SIBLING: the compressor's run detector (like the three others) counts a run from a `previous symbol` that starts outside the "
        "alphabet, +1 per repeat against MAX_SEQUENCE_SIZE, with a counter that cannot wrap. NOT decided: expand(compress(x)) == x and canonicity of the (position,length) arithmetic.")


def run(ctx):
    cfgs = ["rel", "unchecked", "unsafe"] if ctx.tier == "quick" else ["rel", "dbg", "strict", "unsafe", "nodef", "unchecked"]
    ctx.progs(cfgs)  # build all configurations in parallel
    for c in cfgs:
        prog = ctx.prog(c)
        ctx.guard("C07", "tail", lambda: tail.compress_expand(ctx, prog))
        ctx.guard("C07", "rle", lambda: tail.rle_write_census(ctx, prog))
        ctx.guard("C07", "writers", lambda: tail.classify_writers(ctx, prog, scope=r"hash_dual::", floor=3))
        ctx.guard("C07", "complete", lambda: fields.dest_complete(ctx, prog, scope=r"hash_dual::", floor=2))
        ctx.guard("C07", "eq", lambda: eqord.eq_hash_ord(ctx, prog, "FuzzyHashDualData"))
        ctx.guard("C07", "sym", lambda: eqord.len_index_symmetry(ctx, prog, scope=r"hash_dual::", floor=8))
        ctx.guard("C07", "encoder", lambda: encoder_callers(ctx, prog))
        ctx.guard("C07", "rle-formulas", lambda: rle.encoding(ctx, prog))
        ctx.guard("C07", "runs", lambda: normal.run_limit_agreement(ctx, prog))
        ctx.guard("C07", "rle-validator", lambda: rle.validator_refusals(ctx, prog))
        ctx.guard("C07", "expand-step", lambda: rle.expand_step(ctx, prog))
        ctx.guard("C07", "expand-copy", lambda: rle.expand_copy(ctx, prog))
        ctx.guard("C07", "traits", lambda: vis.trait_census(ctx, prog, scope='hash_dual::'))
        if c == "unchecked":
            ctx.guard("C07", "twins", lambda: features.twins(ctx, prog, scope='FuzzyHashDualData', floor=2))
        ctx.guard("C07", "casts", lambda: casts.census(ctx, prog, scope='hash_dual::', floor=3))
        ctx.guard("C07", "parse-forms", lambda: parser.entry_forms(ctx, prog))
        ctx.guard("C07", "const values", lambda: data.const_census(ctx, prog, data.CONST_SCOPES["C07"], floor=1))
        ctx.guard("C07", "panic conditions", lambda: beliefs.live_census(ctx, prog, beliefs.SCOPES["C07"][0]))
        ctx.guard("C07", "run-reports", lambda: parser.run_reports(ctx, prog))
        ctx.guard("C07", "summaries", lambda: summary.check(ctx, prog, 'hash_dual::', floor=10))
        ctx.guard("C07", "generic consts", lambda: summary.check_consts(ctx, prog, floor=13))
        ctx.guard("C07", "path summaries", lambda: summary.check_paths(ctx, prog, 'hash_dual::', floor=4))
        if c in ("dbg", "unsafe_dbg", "strict_dbg"):
            ctx.guard("C07", "beliefs", lambda: beliefs.census(ctx, prog, beliefs.SCOPES["C07"][0], floor=beliefs.SCOPES["C07"][1]))
    return ctx.finish(EXPL, ["raw inputs of the compressor are valid raw block hashes (length <= capacity)"])


def encoder_callers(ctx, prog):
    side = panic.side_and(panic.side_only_called_from("hash_dual::algorithms::update_rle_block", ("compress_block_hash_with_rle",)), panic.side_compress_inputs_bounded)
    ok, why = side(prog, None, None, None)
    ctx.rule("SA-WHOMAYCALL", "who-may-call rule over the resolved call graph: the RLE encoder is reachable only through the compressor, and every compressor call site passes a length-bounded input")
    ctx.ob("SA-WHOMAYCALL", "update_rle_block only from compress_block_hash_with_rle; compressor inputs bounded at all call sites", ok, why)
