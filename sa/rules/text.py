"""Formatter rules (C05): refusal guard and purity, one formatter behind all forms, ASCII-only bytes, length formula."""
import re
from ..sym import Sym, strip, show, canon, fpath, is_param, is_path, const_value, const_named, match
from ..mir import callee_of, pl
from . import guard as G, errpure
from . import fields as F

R = "SA-DELEGATE"


def store_guard(ctx, prog):
    f = prog.fn("FuzzyHashData::<S1, S2, NORM>::store_into_bytes")
    ctx.visit(f)
    sy = Sym(f)
    errs = G.blocks_returning_variant(f, sy, "Result::Err", "StringizationOverflow")

    def lt_spec(a):
        # buffer.len() < self.len_in_str()
        if a[0] not in ("Lt", "Gt"):
            return False
        x, y = (a[1], a[2]) if a[0] == "Lt" else (a[2], a[1])
        x, y = strip(x), strip(y)
        is_len = (x[0] == "call" and x[1].endswith("::len") and is_param(x[2][0], "buffer")) or (x[0] == "len" and is_param(x[1], "buffer"))
        return is_len and y[0] == "call" and y[1].endswith("::len_in_str") and is_param(y[2][0], "self")
    G.check_exact(ctx, "SA-GUARD", "store_into_bytes -> Err(StringizationOverflow) iff buffer.len() < self.len_in_str()", f, sy, errs,
                  [("buffer.len() < len_in_str()", lt_spec)])
    errpure.check(ctx, "SA-ERRPURE", "store_into_bytes does not write to the buffer when it refuses", f, {2}, errs, what="the caller's buffer")
    # Ok payload is len_in_str()
    ok = False
    why = ""
    for i, j, s in f.stmts():
        if s["s"] == "assign" and s["lhs"]["l"] == 0 and s["rv"]["r"] == "agg" and s["rv"]["kind"].get("variant") == "Ok":
            e = strip(sy.operand(s["rv"]["ops"][0]))
            why = show(e)
            ok = e[0] == "call" and e[1].endswith("::len_in_str") and is_param(e[2][0], "self")
    ctx.ob("SA-GUARD", "store_into_bytes returns Ok(len_in_str()) - the quantity it checked the buffer against", ok, why, f.loc())


def len_formula(ctx, prog):
    ctx.rule("SA-FORMULA", "the returned expression tree (single-assignment temporaries expanded, casts ignored, commutative operands unordered) equals the documented formula")
    f = prog.fn("FuzzyHashData::<S1, S2, NORM>::len_in_str")
    ctx.visit(f)
    e = Sym(f).local(0)
    pat = ("bin", "Add", ("bin", "Add", ("bin", "Add",
           ("call", "::len", [("index", ("named", "block_size::BLOCK_SIZES_STR"), ("path", "self", ("log_blocksize",)))]),
           ("path", "self", ("len_blockhash1",))), ("path", "self", ("len_blockhash2",))), ("v", 2))
    ok = match(e, pat)
    if not ok:
        # the same sum with its terms in another order / the 2 split into 1 + 1 (usize additions of a few small values: any association)
        terms = {}
        const = [0]

        def flat(x):
            x = strip(x)
            while x[0] == "cast":
                x = strip(x[1])
            if x[0] == "bin" and x[1] == "Add":
                flat(x[2])
                flat(x[3])
            elif x[0] == "agg" and x[1] == "Tuple" and len(x[2]) == 2:   # checked add in debug builds
                flat(x[2][0])
            elif x[0] == "const" and isinstance(x[1], int):
                const[0] += x[1]
            else:
                k = re.sub(r"::<[^()\[\]]*>\(", "(", canon(x))
                terms[k] = terms.get(k, 0) + 1
        flat(e)
        want = {"core::str::<impl str>::len(internals::hash::block::block_size::BLOCK_SIZES_STR[(param:self.log_blocksize as usize)])": 1,
                "param:self.len_blockhash1": 1, "param:self.len_blockhash2": 1}
        ok = terms == want and const[0] == 2
    ctx.ob("SA-FORMULA", "len_in_str() = BLOCK_SIZES_STR[log_blocksize].len() + len_blockhash1 + len_blockhash2 + 2", ok, show(e)[:200], f.loc())
    # the writer takes the block-size text from the same table entry
    g = prog.fn("FuzzyHashData::<S1, S2, NORM>::store_into_bytes")
    sy = Sym(g)
    ok = False
    for i, t in g.calls():
        if callee_of(t).endswith("copy_from_slice"):
            src = strip(sy.operand(t["args"][1]))
            if src[0] == "call" and src[1].endswith("as_bytes"):
                ok = match(src[2][0], ("index", ("named", "block_size::BLOCK_SIZES_STR"), ("path", "self", ("log_blocksize",))))
    ctx.ob("SA-FORMULA", "store_into_bytes copies BLOCK_SIZES_STR[log_blocksize] (same table entry the length formula measures)", ok, "", g.loc())
    ins = [(i, t) for i, t in g.calls() if callee_of(t).endswith("algorithms::insert_block_hash_into_bytes")]
    order = []
    if len(ins) == 2:
        a, b = ins
        if g.dominates(b[0], a[0]):
            a, b = b, a
        for i, t in (a, b):
            order.append((fpath(sy.operand(t["args"][1]))[1][-1:], fpath(sy.operand(t["args"][2]))[1][-1:]))
    ctx.ob("SA-FORMULA", "store_into_bytes writes block hash 1 then block hash 2, each with its own length", order == [(("blockhash1",), ("len_blockhash1",)), (("blockhash2",), ("len_blockhash2",))], str(order), g.loc())


def ascii_only(ctx, prog):
    """every byte stored into the output buffer comes from BASE64_TABLE_U8, BLOCK_SIZES_STR or is b':'"""
    ctx.rule("SA-ASCII", "every store into the formatter's output buffer has an ASCII source: an element of BASE64_TABLE_U8, the bytes of a BLOCK_SIZES_STR entry, or the constant b':' (tables checked < 0x80 by SA-DATA) - so from_utf8 cannot fail and from_utf8_unchecked is sound")
    n = 0
    for name, bufparam in (("FuzzyHashData::<S1, S2, NORM>::store_into_bytes", 2), ("algorithms::insert_block_hash_into_bytes", 1)):
        f = prog.fn(name)
        ctx.visit(f)
        sy = Sym(f)
        al = errpure.mut_aliases(f, {bufparam})
        for i, j, s in f.stmts():
            if s["s"] == "assign" and s["lhs"]["l"] in al and "*" in s["lhs"]["p"]:
                n += 1
                v = strip(sy.rvalue(s["rv"]))
                ok = (v[0] == "const" and v[1] == 58) or (v[0] == "index" and const_named(v[1], "base64::BASE64_TABLE_U8"))
                ctx.ob("SA-ASCII", "%s: element store into the buffer is b':' or BASE64_TABLE_U8[..]" % f.short, ok, "stores %s" % show(v), f.loc(s["sp"]))
        for i, t in f.calls():
            c = callee_of(t)
            hands = [a for a in t["args"] if a["k"] in ("copy", "move") and not a["pl"]["p"] and a["pl"]["l"] in al and f.locals[a["pl"]["l"]]["ty"].startswith("&mut")]
            if not hands:
                continue
            nm = c.split("::")[-1]
            if nm in ("index_mut", "as_mut_slice", "len"):
                continue
            n += 1
            if nm == "copy_from_slice":
                src = strip(sy.operand(t["args"][1]))
                ok = src[0] == "call" and src[1].endswith("as_bytes") and strip(src[2][0])[0] == "index" and const_named(strip(src[2][0])[1], "block_size::BLOCK_SIZES_STR")
                ctx.ob("SA-ASCII", "%s: bulk copy into the buffer comes from a BLOCK_SIZES_STR entry" % f.short, ok, show(src)[:150], f.loc(t["sp"]))
            elif c.endswith("algorithms::insert_block_hash_into_bytes"):
                ctx.ob("SA-ASCII", "%s: block hash text is written by insert_block_hash_into_bytes (checked by the same rule)" % f.short, True, "", f.loc(t["sp"]))
            else:
                ctx.ob("SA-ASCII", "%s: buffer handed to %s" % (f.short, nm), False, "unknown writer of the output buffer", f.loc(t["sp"]))
    ctx.floor("SA-ASCII", n, 6, "writes into the formatter's buffer")
    a = bytes.fromhex(prog.const("base64::BASE64_TABLE_U8")["bytes"])
    from .data import decode_str_table
    strs = decode_str_table(prog.const("block_size::BLOCK_SIZES_STR"))
    ctx.ob("SA-ASCII", "BASE64_TABLE_U8 and every BLOCK_SIZES_STR entry are pure ASCII", max(a) < 0x80 and all(max(s) < 0x80 for s in strs), "checked %d + %d bytes" % (len(a), sum(len(s) for s in strs)))


def one_formatter(ctx, prog):
    """to_string / Display / String::from obtain their text only from store_into_bytes"""
    ctx.rule(R, "a public form obtains its result only from the named single implementation (resolved call graph), so a property shown for that implementation holds for every form")
    n = 0
    # to_string: vec![0; len_in_str()], store_into_bytes(vec.as_mut_slice()).unwrap(), String::from_utf8(vec)
    if prog.fn("FuzzyHashData::<S1, S2, NORM>::to_string", optional=True):
        f = prog.fn("FuzzyHashData::<S1, S2, NORM>::to_string")
        ctx.visit(f)
        sy = Sym(f)
        n += 1
        st = [(i, t) for i, t in f.calls() if callee_of(t).endswith("::store_into_bytes")]
        ok = len(st) == 1
        why = "%d store_into_bytes calls" % len(st)
        if ok:
            i, t = st[0]
            buf = sy.origin(strip(sy.operand(t["args"][1])))
            # as_mut_slice(&mut vec) where vec = from_elem(0, len_in_str(self))
            v = buf
            if v[0] == "call" and v[1].endswith("as_mut_slice"):
                v = sy.origin(strip(v[2][0]))
            ok = v[0] == "call" and v[1].endswith("vec::from_elem") and strip(v[2][1])[0] == "call" and strip(v[2][1])[1].endswith("::len_in_str") and is_param(strip(v[2][1])[2][0], "self")
            why = "buffer = %s" % show(v)[:120]
            # result consumed by unwrap and the string built from the same vec
            fin = [(bi, u) for bi, u in f.calls() if u["dest"]["l"] == 0]
            if not fin:
                # the last step sits in a helper that was written out here (inliner): the value returned is still one call result
                r0 = strip(sy.local(0))
                fin = [r0] if r0[0] == "call" and len(f.defs.get(0, [])) == 1 else []
            ok = ok and len(fin) == 1
        ctx.ob(R, "to_string: allocates exactly len_in_str() bytes and fills them with store_into_bytes(..).unwrap()", ok, why, f.loc())
        g = [x for x in prog.fns if x.path.endswith("for alloc::string::String>::from") and "FuzzyHashData" in x.path]
        if g:
            n += 1
            e = strip(Sym(g[0]).local(0))
            ctx.ob(R, "String::from(hash) = hash.to_string()", e[0] == "call" and e[1].endswith("FuzzyHashData::<S1, S2, NORM>::to_string"), show(e)[:100], g[0].loc())
    d = [x for x in prog.fns if x.impl_trait == "core::fmt::Display" and x.impl_self.startswith("internals::hash::FuzzyHashData<")]
    if len(d) == 1:
        f = d[0]
        ctx.visit(f)
        sy = Sym(f)
        n += 1
        st = [(i, t) for i, t in f.calls() if callee_of(t).endswith("::store_into_bytes")]
        ok = len(st) == 1
        why = ""
        if ok:
            i, t = st[0]
            buf = strip(sy.operand(t["args"][1]))
            borg = sy.origin(buf)
            mx = int(prog.const("MAX_LEN_IN_STR")["v"])
            ok = borg[0] == "repeat" and const_value(borg[1]) == 0 and (borg[2].endswith("MAX_LEN_IN_STR") or borg[2] == str(mx))
            why = "buffer %s" % show(borg)
            # write_str(from_utf8(&buffer[..len]).unwrap()) with len the Ok payload
            ws = [(bi, u) for bi, u in f.calls() if callee_of(u).endswith("write_str")]
            ok = ok and len(ws) == 1 and ws[0][1]["dest"]["l"] == 0
            if ok:
                s_arg = strip(sy.operand(ws[0][1]["args"][1]))
                txt = show(s_arg)
                # find the slice expression
                def find_index(e):
                    from ..sym import walk
                    for x in walk(e):
                        if x[0] == "call" and x[1].split("::")[-1] == "index":
                            return x
                    return None
                ix = find_index(s_arg)
                ok = ix is not None and canon(strip(ix[2][0])) == canon(buf)
                if ok:
                    rg = strip(ix[2][1])
                    ok = rg[0] == "agg" and rg[1].endswith("RangeTo::RangeTo")
                    if ok:
                        ln = strip(rg[2][0])
                        ok = ln[0] == "call" and ln[1].endswith("unwrap") and strip(ln[2][0])[0] == "call" and strip(ln[2][0])[3] == i
                why += "; writes %s" % txt[:160]
        ctx.ob(R, "Display::fmt: text = buffer[..store_into_bytes(buffer).unwrap()], buffer of crate::MAX_LEN_IN_STR bytes", ok, why, f.loc())
    ctx.floor(R, n, 1, "formatter front ends")


def layout(ctx, prog):
    """store_into_bytes writes `<block size>:<bh1>:<bh2>` at consecutive offsets: forward value numbering of the write
    cursor gives each store / hand-off position as a linear form in len(bs_str), len_blockhash1"""
    from ..vn import Forward
    from ..sym import lin, fpath
    f = prog.fn("FuzzyHashData::<S1, S2, NORM>::store_into_bytes")
    ctx.visit(f)
    try:
        fw = Forward(f)
    except ValueError as e:
        return ctx.ob("SA-FORMULA", "store_into_bytes: layout of the text", False, "body is not loop-free: %s" % e, f.loc())
    colons = []
    inserts = []
    copies = []
    for ev in fw.events:
        if ev[1] == "store":
            pe, v = ev[2], ev[3]
            if pe[0] == "index" and strip(v)[0] == "const" and strip(v)[1] == 58:
                r, names = fpath(pe[1])
                if r[0] == "param" and r[1] == 2:
                    colons.append(lin(pe[2]))
        elif ev[1] == "call":
            c, args = ev[2], ev[3]
            if c.endswith("algorithms::insert_block_hash_into_bytes"):
                dst = strip(args[0])
                start = None
                if dst[0] == "call" and dst[1].split("::")[-1] == "index_mut":
                    rg = strip(dst[2][1])
                    if rg[0] == "agg" and rg[1].endswith("RangeFrom::RangeFrom"):
                        start = lin(rg[2][0])
                ln = strip(args[2])
                lname = (ln[1].split(".")[-1],) if ln[0] == "init" else fpath(args[2])[1][-1:]
                inserts.append((start, fpath(args[1])[1][-1:], lname))
            elif c.endswith("copy_from_slice"):
                dst = strip(args[0])
                if dst[0] == "call" and dst[1].split("::")[-1] == "index_mut":
                    rg = strip(dst[2][1])
                    if rg[0] == "agg" and rg[1].endswith("RangeTo::RangeTo"):
                        copies.append(lin(rg[2][0]))

    def norm(l):
        if l is None:
            return None
        d, c = l
        out = {}
        for k, v in d.items():
            if "BLOCK_SIZES_STR" in k and "len(" in k:
                out["L0"] = out.get("L0", 0) + v
            elif k.endswith("len_blockhash1"):
                out["len1"] = out.get("len1", 0) + v
            elif k.endswith("len_blockhash2"):
                out["len2"] = out.get("len2", 0) + v
            else:
                out[k[-40:]] = v
        return (tuple(sorted(out.items())), c)
    L0 = (("L0", 1),)
    want_colons = [(L0, 0), (tuple(sorted({"L0": 1, "len1": 1}.items())), 1)]
    want_ins = [((L0, 1), ("blockhash1",), ("len_blockhash1",)), ((tuple(sorted({"L0": 1, "len1": 1}.items())), 2), ("blockhash2",), ("len_blockhash2",))]
    got_colons = [norm(x) for x in colons]
    got_ins = [(norm(a), b, c) for a, b, c in inserts]
    got_copy = [norm(x) for x in copies]
    ok = got_colons == want_colons and got_ins == want_ins and got_copy == [(L0, 0)]
    ctx.ob("SA-FORMULA", "store_into_bytes lays out block size at [0,L0), ':' at L0, block hash 1 at L0+1, ':' at L0+1+len1, block hash 2 at L0+2+len1 (L0 = length of the block size text)", ok,
           "colons at %s; block hashes at %s; block size text up to %s" % (got_colons, got_ins, got_copy), f.loc())
    # the per-symbol writer: buf[i] = BASE64_TABLE_U8[hash[i]] with i the enumerate index over hash[0..len]
    g = prog.fn("algorithms::insert_block_hash_into_bytes")
    ctx.visit(g)
    sy = Sym(g)
    ok = False
    why = ""
    for i, j, s in g.stmts():
        if s["s"] == "assign" and s["lhs"]["l"] == 1 and any(isinstance(x, dict) and "ix" in x for x in s["lhs"]["p"]):
            ix = [x for x in s["lhs"]["p"] if isinstance(x, dict) and "ix" in x][0]["ix"]
            ie = sy.local(ix)
            v = strip(sy.rvalue(s["rv"]))
            r1, n1 = fpath(ie)
            ok = r1[0] == "call" and r1[1].endswith("::next") and n1 == ("<Some>", "0", "0") and v[0] == "index" and fpath(v[2])[0] == r1 and fpath(v[2])[1] == ("<Some>", "0", "1")
            why = "buf[%s] = %s" % (show(ie)[:60], show(v)[:100])
    # iterator source: hash[0..len] enumerate
    from .fold import loop_over
    lo = loop_over(g, sy)
    src_ok = False
    if len(lo) == 1:
        src = lo[0][1]
        while src[0] == "call" and src[2] and src[1].split("::")[-1] in ("enumerate",):
            src = strip(src[2][0])
            from .fold import iter_source
            src = iter_source(src)
        if src[0] == "call" and src[1].split("::")[-1] == "index":
            rg = strip(src[2][1])
            src_ok = is_param(src[2][0], "hash") and rg[0] == "agg" and rg[1].endswith("Range::Range") and const_value(rg[2][0]) == 0 and is_param(strip(rg[2][1]), "len")
    if not (ok and src_ok) and len(lo) == 1:
        # the same loop written over the index: `for i in 0..hs.len() { buf[i + ..] = TABLE[hs[i]] }` with hs = hash[0..len]
        HS = "core::array::<impl core::ops::Index<I> for [T; N]>::index(param:hash,core::ops::Range::Range{0,(param:len as usize)})"
        src = canon(strip(lo[0][1]))
        src_ok = src == "core::ops::Range::Range{0,core::slice::<impl [T]>::len(%s)}" % HS
        ok = False
        for i, j, s in g.stmts():
            if s["s"] == "assign" and s["lhs"]["l"] == 1 and any(isinstance(x, dict) and "ix" in x for x in s["lhs"]["p"]):
                ix = [x for x in s["lhs"]["p"] if isinstance(x, dict) and "ix" in x][0]["ix"]
                ie = sy.local(ix)
                v = strip(sy.rvalue(s["rv"]))
                r1, n1 = fpath(ie)
                item = canon(strip(ie))
                ok = r1[0] == "call" and r1[1].endswith("::next") and n1 == ("<Some>", "0") and \
                    canon(v) == "internals::base64::BASE64_TABLE_U8[(%s[%s] as usize)]" % (HS, item)
                why = "index loop: buf[%s] = %s" % (show(ie)[:60], show(v)[:100])
    ctx.ob("SA-FORMULA", "insert_block_hash_into_bytes writes buf[i] = BASE64_TABLE_U8[hash[i]] for i over hash[0..len]", ok and src_ok, "%s; iterates hash[0..len]: %s" % (why, src_ok), g.loc())
