"""Build and load fact files (one per build configuration) from /repo's current tree.

The facts are produced by the rustc driver in /verif/driver, injected as
RUSTC_WORKSPACE_WRAPPER under the real `cargo +nightly check` of the real
package.  Nothing of the repository is executed; rustc type-checks it, builds
MIR and evaluates its `const` items, and the driver serialises that.
"""
import hashlib
import json
import os
import shutil
import subprocess
import sys
import tempfile
import time

VERIF = os.path.dirname(os.path.dirname(os.path.abspath(__file__)))
REPO = os.environ.get("VERIF_REPO", "/repo")
DRIVER = os.environ.get("VERIF_DRIVER") or os.path.join(VERIF, "driver", "target", "release", "ffz-mir")
WORK = os.path.join(VERIF, ".work")

REL = "-C debug-assertions=off -C overflow-checks=off"
DBG = "-C debug-assertions=on -C overflow-checks=on"

# id -> (cargo feature flags, extra RUSTFLAGS)
CONFIGS = {
    "dbg": ([], DBG),
    "rel": ([], REL),
    "unsafe": (["--features", "unsafe"], REL),
    "unsafe_dbg": (["--features", "unsafe"], DBG),
    "unchecked": (["--features", "unchecked"], REL),
    "fnv": (["--features", "opt-reduce-fnv-table"], REL),
    "strict": (["--features", "strict-parser"], REL),
    "strict_dbg": (["--features", "strict-parser"], DBG),
    "nodef": (["--no-default-features"], REL),
    "alloc": (["--no-default-features", "--features", "alloc,easy-functions"], REL),
    "unsafe_fnv": (["--features", "unsafe,opt-reduce-fnv-table"], REL),
    "all": (["--features", "unsafe,opt-reduce-fnv-table,strict-parser"], REL),
    # the branches build.rs selects for a rustc older than 1.67 (`u64_ilog2` written by hand); the cfg of the current compiler stays set
    # as well, and every `cfg_if!` of the crate tests the fallback value first
    "msrv": ([], REL + ' --cfg ffuzzy_ilog2="fallback"'),
}

# Body counts confirmed on the pinned tree (fail closed below ~90 % of them:
# a build that silently analysed a different / partial crate must not pass).
BODY_FLOOR = {
    "dbg": 340, "rel": 340, "unsafe": 360, "unsafe_dbg": 360, "unchecked": 360,
    "fnv": 340, "strict": 340, "strict_dbg": 340, "nodef": 310, "alloc": 320, "unsafe_fnv": 360, "all": 360, "msrv": 340,
}


class FactError(Exception):
    pass


def _sysroot():
    return subprocess.check_output(
        ["rustc", "+nightly", "--print", "sysroot"], text=True).strip()


def _tree_digest():
    h = hashlib.sha256()
    roots = [os.path.join(REPO, "ffuzzy", "src"), os.path.join(REPO, "ffuzzy", "build.rs"),
             os.path.join(REPO, "ffuzzy", "Cargo.toml"), os.path.join(REPO, "Cargo.toml"),
             os.path.join(REPO, "Cargo.lock"), DRIVER]
    for r in roots:
        if os.path.isdir(r):
            for dp, dn, fn in sorted(os.walk(r)):
                dn.sort()
                for f in sorted(fn):
                    p = os.path.join(dp, f)
                    h.update(p.encode())
                    h.update(open(p, "rb").read())
        elif os.path.exists(r):
            h.update(r.encode())
            h.update(open(r, "rb").read())
    return h.hexdigest()[:24]


_loaded = {}
BUILD_LOG = []


def build(cfg):
    """Run the driver over /repo for one configuration; return path to facts JSON."""
    if cfg not in CONFIGS:
        raise FactError("unknown configuration %s" % cfg)
    if not os.path.exists(DRIVER):
        raise FactError("driver not built: run MANIFEST.setup_cmd (%s missing)" % DRIVER)
    os.makedirs(WORK, exist_ok=True)
    use_cache = os.environ.get("VERIF_FACT_CACHE") == "1"
    if use_cache:
        dg = _tree_digest()
        cpath = os.path.join(WORK, "cache", "%s-%s.json" % (cfg, dg))
        if os.path.exists(cpath):
            return cpath, 0.0, True
    feats, rf = CONFIGS[cfg]
    tdir = tempfile.mkdtemp(prefix="t-%s-" % cfg, dir=WORK)
    out = os.path.join(tdir, "facts.json")
    env = dict(os.environ)
    env["LD_LIBRARY_PATH"] = _sysroot() + "/lib" + (
        ":" + env["LD_LIBRARY_PATH"] if env.get("LD_LIBRARY_PATH") else "")
    env["RUSTFLAGS"] = "-Zmir-opt-level=0 -Awarnings " + rf
    env["RUSTC_WORKSPACE_WRAPPER"] = DRIVER
    env["CARGO_TARGET_DIR"] = os.path.join(tdir, "target")
    env["CARGO_NET_OFFLINE"] = "true"
    env["FFZ_OUT"] = out
    env.pop("RUSTC_WRAPPER", None)
    t0 = time.time()
    cmd = ["cargo", "+nightly", "check", "--offline", "-q", "-p", "ffuzzy", "--lib"] + feats
    p = subprocess.run(cmd, cwd=REPO, env=env, stdout=subprocess.PIPE, stderr=subprocess.PIPE, text=True)
    dt = time.time() - t0
    try:
        if p.returncode != 0:
            raise FactError("cargo check failed for config %s:\n%s" % (cfg, p.stderr[-4000:]))
        if not os.path.exists(out):
            raise FactError("driver did not write facts for config %s (stale cargo cache?)\n%s" % (cfg, p.stderr[-2000:]))
        if use_cache:
            os.makedirs(os.path.dirname(cpath), exist_ok=True)
            shutil.move(out, cpath)
            final = cpath
        else:
            final = os.path.join(WORK, "facts-%s-%d.json" % (cfg, os.getpid()))
            shutil.move(out, final)
    finally:
        shutil.rmtree(tdir, ignore_errors=True)
    return final, dt, False


def load(cfg):
    if cfg in _loaded:
        return _loaded[cfg]
    path, dt, cached = build(cfg)
    with open(path) as f:
        d = json.load(f)
    if not cached and os.environ.get("VERIF_FACT_CACHE") != "1":
        os.unlink(path)
    n = len(d["fns"])
    if n < BODY_FLOOR[cfg]:
        raise FactError("config %s: only %d MIR bodies (< floor %d): partial build?" % (cfg, n, BODY_FLOOR[cfg]))
    from . import mir
    prog = mir.Program(cfg, d)
    BUILD_LOG.append({"config": cfg, "bodies": n, "adts": len(d["adts"]), "consts": len(d["consts"]),
                      "build_s": round(dt, 2), "cached": cached})
    _loaded[cfg] = prog
    return prog


def load_many(cfgs):
    """Build several configurations in parallel, then load."""
    from concurrent.futures import ThreadPoolExecutor
    todo = [c for c in cfgs if c not in _loaded]
    if len(todo) > 1:
        with ThreadPoolExecutor(max_workers=min(8, len(todo))) as ex:
            res = list(ex.map(lambda c: (c, build(c)), todo))
        for c, (path, dt, cached) in res:
            with open(path) as f:
                d = json.load(f)
            if not cached and os.environ.get("VERIF_FACT_CACHE") != "1":
                os.unlink(path)
            n = len(d["fns"])
            if n < BODY_FLOOR[c]:
                raise FactError("config %s: only %d MIR bodies (< floor %d)" % (c, n, BODY_FLOOR[c]))
            from . import mir
            _loaded[c] = mir.Program(c, d)
            BUILD_LOG.append({"config": c, "bodies": n, "adts": len(d["adts"]), "consts": len(d["consts"]),
                              "build_s": round(dt, 2), "cached": cached})
    return {c: load(c) for c in cfgs}
