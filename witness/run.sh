#!/bin/sh
# Run the compile-fail witnesses against /repo's current tree (doc tests; twins are no_run).
# usage: run.sh <crate dir>    prints the cargo summary line; exit 0 iff all doc tests pass
# The crate is copied into a scratch directory first, so that concurrent runs (against different trees) never share a manifest.
D="$1"
W="$(dirname "$0")/../.work"
mkdir -p "$W"
T=$(mktemp -d "$W/wit-XXXXXX")
cp -r "$D" "$T/crate"
cp "${VERIF_REPO:-/repo}/Cargo.lock" "$T/crate/Cargo.lock"
if [ -n "$VERIF_REPO" ] && [ "$VERIF_REPO" != "/repo" ]; then
  sed -i "s#path = \"/repo/ffuzzy\"#path = \"$VERIF_REPO/ffuzzy\"#" "$T/crate/Cargo.toml"
fi
cd "$T/crate"
CARGO_NET_OFFLINE=true CARGO_TARGET_DIR="$T/target" cargo +nightly test --offline --doc > "$T/out.txt" 2>&1
rc=$?
tail -30 "$T/out.txt"
cd /
rm -rf "$T"
exit $rc
